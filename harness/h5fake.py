"""In-memory stand-in for the subset of the ``h5py`` API that gemseo uses (environment CONTRACT STUB).

Why.  h5py / libhdf5 are compiled: a dataset needs a machine buffer, so a symbolic real cannot cross that boundary.  As for
scipy.sparse in C07, the compiled library is treated as the ENVIRONMENT and replaced - in symbolic mode only - by this fake, whose
contract is: *what was written under a (file path, node path, dataset name) is what is read back from it, nothing else* (plus the
error behaviour of h5py that gemseo's own logic relies on, observed on h5py 3.11 with the probe scripts quoted in
``/verif/tools/C11-notes.md``).  All of gemseo's Python bookkeeping (group layout, name lists, index offsets, append logic, type
dispatch) then runs for real on symbols.  libhdf5's own behaviour (dtype conversion, chunking, durability, concurrent access) is
OUTSIDE every claim made with this fake.  In concrete mode (counterexample replay, differential self-test) the harnesses do NOT
install the fake: the real h5py writes real files in a temporary directory, which makes the self-test a translation validation of
this fake against libhdf5 on the explored histories.

Use::

    fake = FakeH5()                                   # one per harness execution (an empty "file system")
    fake.install(ctx)                                  # ctx.patch(<gemseo module>, "h5py", fake) on every gemseo module importing h5py
    path = fake_or_tmp_path(ctx, tmpdir, "A.h5")       # "/h5fake/A.h5" symbolically, <tmpdir>/A.h5 concretely

Mirrored behaviour (h5py 3.11):

* ``File(path, mode="r")``: modes ``r`` (FileNotFoundError when absent), ``r+`` (idem), ``a`` (created when absent), ``w`` (truncates;
  OSError while the same path is open), ``w-``/``x`` (FileExistsError when present); ``.mode`` is ``"r"`` or ``"r+"``; context manager;
  the same path can be opened several times (all handles see the same content); using a handle after ``close()`` raises ValueError;
  writing through a read-only handle raises ValueError ("no write intent on file").
* ``Group``: ``in`` / ``[]`` / ``get`` with ``a/b`` paths (KeyError when missing), ``len``, iteration / ``keys`` / ``values`` / ``items`` in
  alphabetical order of the names (h5py's default link order), ``require_group`` (creates intermediates; TypeError on a dataset),
  ``create_group`` (ValueError when the name exists), ``create_dataset(name, shape=, dtype=, data=, maxshape=)`` (ValueError when the
  name exists), ``del`` (KeyError when missing), ``attrs``, ``name``, ``parent``, ``file``.
* ``Dataset``: ``shape dtype size ndim maxshape len iteration [()] [...] [slices] __array__ resize asstr attrs``; ``len()``/iteration of a
  scalar dataset raise TypeError; ``resize`` of a dataset created without ``maxshape`` raises TypeError, beyond ``maxshape`` ValueError;
  new slots after a ``resize`` hold 0 (numbers) / ``b""`` (strings); an assignment that does not broadcast raises TypeError.
* strings: a dataset created with ``dtype=h5py.string_dtype()`` (variable length) returns ``bytes`` elements in an object array; a
  fixed-length ``S`` array stays an ``S`` array; ``str`` data is stored as a variable-length string and read back as ``bytes``; ``U``
  arrays are refused (TypeError) as h5py does.
* numbers: concrete data are kept as NumPy arrays of the dtype h5py would use (``dtype=`` applied when given); data holding symbolic
  reals are kept as object arrays of terms and reported with dtype float64 (float64 storage is MODELLED as exact real storage).
"""
from __future__ import annotations

import os

import numpy as np

from symgem.core import SymArray, SymReal, has_sym

ROOT = "/h5fake"


def fake_or_tmp_path(ctx, tmpdir, name):
    """Path of a file of the harness: inside the fake in symbolic mode, under ``tmpdir`` (real h5py) in concrete mode."""
    return f"{ROOT}/{name}" if ctx.symbolic else os.path.join(tmpdir, name)


def _real_h5py():
    import h5py

    return h5py


def _contains_sym(data) -> bool:
    if isinstance(data, SymReal):
        return True
    if isinstance(data, np.ndarray):
        return has_sym(data)
    if isinstance(data, (list, tuple)):
        return any(_contains_sym(d) for d in data)
    return False


def _is_vlen_str(dtype) -> bool:
    if dtype is None:
        return False
    try:
        return _real_h5py().check_string_dtype(np.dtype(dtype)) is not None and np.dtype(dtype).kind == "O"
    except TypeError:
        return False


def _to_bytes(v):
    if isinstance(v, bytes):
        return bytes(v)
    if isinstance(v, str):
        return v.encode("utf-8")
    if isinstance(v, np.generic):
        return _to_bytes(v.item())
    raise TypeError(f"Can't implicitly convert non-string objects to strings ({type(v).__name__})")


class _DataNode:
    __slots__ = ("value", "maxshape", "vlen", "attrs", "sym")

    def __init__(self, value, maxshape, vlen, sym):
        self.value = value      # np.ndarray (0-d for scalar datasets)
        self.maxshape = maxshape
        self.vlen = vlen        # variable-length strings: object array of bytes
        self.sym = sym          # holds symbolic reals: object array of terms, reported as float64
        self.attrs = {}


class _GroupNode:
    __slots__ = ("children", "attrs")

    def __init__(self):
        self.children = {}
        self.attrs = {}


class _Attrs:
    """``obj.attrs``: a small dict-like (values are returned as h5py returns them: NumPy scalars / arrays)."""

    def __init__(self, owner, node):
        self._owner, self._node = owner, node

    @staticmethod
    def _conv(v):
        if isinstance(v, str):
            return v
        a = np.asarray(v)
        return a[()] if a.shape == () else a.copy()

    def create(self, name, data, shape=None, dtype=None):
        self._owner._check_writable()
        self._node.attrs[name] = self._conv(np.asarray(data, dtype=dtype) if dtype is not None else data)

    def __setitem__(self, name, value):
        self.create(name, value)

    def __getitem__(self, name):
        self._owner._check_valid()
        return self._node.attrs[name]

    def get(self, name, default=None):
        self._owner._check_valid()
        return self._node.attrs.get(name, default)

    def __contains__(self, name):
        return name in self._node.attrs

    def __iter__(self):
        return iter(sorted(self._node.attrs))

    def __len__(self):
        return len(self._node.attrs)

    def keys(self):
        return sorted(self._node.attrs)

    def items(self):
        return [(k, self._node.attrs[k]) for k in sorted(self._node.attrs)]

    def values(self):
        return [self._node.attrs[k] for k in sorted(self._node.attrs)]


class _HLObject:
    def __init__(self, file, node, path):
        self._file, self._node, self._path = file, node, path

    def _check_valid(self):
        if self._file._closed:
            raise ValueError("Invalid location identifier (the file of this object is closed)")

    def _check_writable(self, exc=ValueError):
        """h5py raises ValueError when creating objects through a read-only handle, OSError when writing into a dataset,
        RuntimeError when resizing and KeyError when deleting a link."""
        self._check_valid()
        if self._file._mode == "r":
            raise exc("Unable to synchronously modify the file (no write intent on file)")

    @property
    def name(self):
        return self._path or "/"

    @property
    def file(self):
        return self._file

    @property
    def parent(self):
        self._check_valid()
        parts = [p for p in self._path.split("/") if p]
        if not parts:
            return Group(self._file, self._file._node, "")
        return self._file["/" + "/".join(parts[:-1])] if parts[:-1] else Group(self._file, self._file._node, "")

    @property
    def attrs(self):
        return _Attrs(self, self._node)

    def __bool__(self):
        return not self._file._closed

    def __eq__(self, other):
        return isinstance(other, _HLObject) and self._node is other._node

    def __hash__(self):
        return id(self._node)


class Dataset(_HLObject):
    """Stand-in for ``h5py.Dataset``."""

    @property
    def shape(self):
        return self._node.value.shape

    @property
    def ndim(self):
        return self._node.value.ndim

    @property
    def size(self):
        return self._node.value.size

    @property
    def maxshape(self):
        return self._node.maxshape if self._node.maxshape is not None else self.shape

    @property
    def dtype(self):
        if self._node.sym:
            return np.dtype(np.float64)
        if self._node.vlen:
            return _real_h5py().string_dtype()
        return self._node.value.dtype

    def __len__(self):
        self._check_valid()
        if self._node.value.ndim == 0:
            raise TypeError("Attempt to take len() of scalar dataset")
        return self._node.value.shape[0]

    def len(self):  # noqa: A003
        return len(self)

    def _out(self, v):
        """A value leaving the file: a copy (arrays) or the element (scalars)."""
        if isinstance(v, np.ndarray):
            if v.ndim == 0:
                return v[()]
            if self._node.sym:
                return SymArray(v)
            return np.array(v)  # copy, base class
        return v

    def __getitem__(self, key):
        self._check_valid()
        val = self._node.value
        if isinstance(key, tuple) and len(key) == 0:
            return self._out(val)
        if key is Ellipsis:
            return self._out(val) if val.ndim else np.array(val)  # h5py: ds[...] of a scalar dataset is a 0-d array, ds[()] the scalar
        if val.ndim == 0:
            raise ValueError("Illegal slicing argument for scalar dataspace")
        return self._out(val[key])

    def __setitem__(self, key, value):
        self._check_writable(OSError)
        node = self._node
        if node.vlen:
            new = np.asarray(value, dtype=object) if not isinstance(value, np.ndarray) else value
            conv = np.empty(np.shape(new), dtype=object)
            flat = [_to_bytes(v) for v in np.asarray(new, dtype=object).ravel()]
            for i, b in enumerate(flat):
                conv.flat[i] = b
            value = conv if conv.ndim else conv[()]
        elif _contains_sym(value) and not node.sym:
            # a symbolic real written into a dataset that held concrete numbers so far: the storage becomes an object array of terms
            obj = np.empty(node.value.shape, dtype=object)
            obj[...] = node.value
            node.value = obj
            node.sym = True
        if isinstance(value, SymArray):
            value = np.ndarray.view(value, np.ndarray)
        target = node.value[key] if not (isinstance(key, tuple) and len(key) == 0) else node.value
        tshape = np.shape(target)
        vshape = np.shape(value)
        try:
            np.broadcast_shapes(vshape, tshape)
            ok = np.broadcast_shapes(vshape, tshape) == tuple(tshape)
        except ValueError:
            ok = False
        if not ok:
            raise TypeError(f"Can't broadcast {tuple(vshape)} -> {tuple(tshape)}")
        if isinstance(key, tuple) and len(key) == 0:
            node.value[...] = value
        else:
            node.value[key] = value

    def resize(self, size, axis=None):
        self._check_writable(RuntimeError)
        node = self._node
        if node.maxshape is None:
            raise TypeError("Only chunked datasets can be resized")
        if axis is not None:
            new = list(node.value.shape)
            new[axis] = int(size)
            size = tuple(new)
        size = tuple(int(s) for s in (size if isinstance(size, (tuple, list)) else (size,)))
        if len(size) != node.value.ndim:
            raise TypeError("New shape length does not match the rank of the dataset")
        for s, m in zip(size, node.maxshape):
            if m is not None and s > m:
                raise RuntimeError("Unable to synchronously set dataset extent (dimension cannot exceed the existing maximal size)")
        fill = b"" if node.vlen else (0.0 if node.value.dtype == object else np.zeros((), dtype=node.value.dtype)[()])
        new = np.empty(size, dtype=node.value.dtype)
        new[...] = fill
        common = tuple(slice(0, min(a, b)) for a, b in zip(size, node.value.shape))
        new[common] = node.value[common]
        node.value = new

    def __array__(self, dtype=None, copy=None):
        self._check_valid()
        v = np.array(self._node.value)
        if dtype is not None and not self._node.sym:
            v = v.astype(dtype)
        return v

    def __iter__(self):
        self._check_valid()
        if self._node.value.ndim == 0:
            raise TypeError("Can't iterate over a scalar dataset")
        for i in range(self._node.value.shape[0]):
            yield self[i]

    def asstr(self, encoding=None, errors="strict"):
        """``ds.asstr()[...]``: the strings of a variable-length string dataset decoded to ``str`` (TypeError otherwise, as h5py)."""
        if not self._node.vlen:
            raise TypeError("dset.asstr() can only be used on datasets with an HDF5 string datatype")
        ds = self

        class _AsStr:
            def __getitem__(self, key):
                v = ds[key]
                if isinstance(v, np.ndarray):
                    out = np.empty(v.shape, dtype=object)
                    for i, e in enumerate(v.ravel()):
                        out.flat[i] = e.decode(encoding or "utf-8", errors)
                    return out
                return v.decode(encoding or "utf-8", errors)

            def __len__(self):
                return len(ds)

            def __iter__(self):
                for i in range(len(ds)):
                    yield self[i]

        return _AsStr()

    def __repr__(self):
        return f'<h5fake dataset "{self._path.rsplit("/", 1)[-1]}": shape {self.shape}, type "{self.dtype}">'


class Group(_HLObject):
    """Stand-in for ``h5py.Group``."""

    # -- navigation -------------------------------------------------------------------------
    def _split(self, path):
        if isinstance(path, bytes):
            path = path.decode()
        if not isinstance(path, str):
            raise TypeError(f"Accessing a group is done with bytes or str, not {type(path)}")
        absolute = path.startswith("/")
        return absolute, [p for p in path.split("/") if p and p != "."]

    def _lookup(self, path):
        """(node, absolute path) or (None, None)."""
        absolute, parts = self._split(path)
        node = self._file._node if absolute else self._node
        cur = "" if absolute else self._path
        for p in parts:
            if not isinstance(node, _GroupNode) or p not in node.children:
                return None, None
            node = node.children[p]
            cur = f"{cur}/{p}"
        return node, cur

    def _wrap(self, node, path):
        return Group(self._file, node, path) if isinstance(node, _GroupNode) else Dataset(self._file, node, path)

    def __contains__(self, path):
        self._check_valid()
        node, _ = self._lookup(path)
        return node is not None

    def __getitem__(self, path):
        self._check_valid()
        node, cur = self._lookup(path)
        if node is None:
            last = self._split(path)[1][-1:] or [path]
            raise KeyError(f"Unable to synchronously open object (object '{last[0]}' doesn't exist)")
        return self._wrap(node, cur)

    def get(self, path, default=None):
        self._check_valid()
        node, cur = self._lookup(path)
        return default if node is None else self._wrap(node, cur)

    def __len__(self):
        self._check_valid()
        return len(self._node.children)

    def __iter__(self):
        self._check_valid()
        return iter(sorted(self._node.children))

    def keys(self):
        self._check_valid()
        return sorted(self._node.children)

    def values(self):
        return [self[k] for k in self.keys()]

    def items(self):
        return [(k, self[k]) for k in self.keys()]

    # -- creation ---------------------------------------------------------------------------
    def _parent_for(self, path, create):
        """The group node that must hold the last component of ``path`` (intermediate groups created on demand)."""
        absolute, parts = self._split(path)
        if not parts:
            raise ValueError("Unable to synchronously create object (no name given)")
        node = self._file._node if absolute else self._node
        cur = "" if absolute else self._path
        for p in parts[:-1]:
            child = node.children.get(p)
            if child is None:
                if not create:
                    raise KeyError(f"Unable to synchronously open object (component not found: '{p}')")
                child = node.children[p] = _GroupNode()
            if not isinstance(child, _GroupNode):
                raise TypeError(f"Incompatible object (Dataset) already exists: '{p}'")
            node = child
            cur = f"{cur}/{p}"
        return node, parts[-1], f"{cur}/{parts[-1]}"

    def require_group(self, path):
        self._check_valid()
        node, cur = self._lookup(path)
        if node is not None:
            if not isinstance(node, _GroupNode):
                raise TypeError("Incompatible object (Dataset) already exists")
            return Group(self._file, node, cur)
        return self.create_group(path)

    def create_group(self, path, track_order=None):
        self._check_writable()
        parent, last, cur = self._parent_for(path, create=True)
        if last in parent.children:
            raise ValueError("Unable to synchronously create group (name already exists)")
        parent.children[last] = _GroupNode()
        return Group(self._file, parent.children[last], cur)

    def create_dataset(self, name, shape=None, dtype=None, data=None, maxshape=None, **kwds):
        self._check_writable()
        if name is None:
            raise NotImplementedError("h5fake: anonymous datasets are not modelled")
        parent, last, cur = self._parent_for(name, create=True)
        if last in parent.children:
            raise ValueError("Unable to synchronously create dataset (name already exists)")
        value, vlen, sym = _convert(data, shape, dtype)
        if maxshape is not None:
            maxshape = tuple(maxshape) if isinstance(maxshape, (tuple, list)) else (maxshape,)
            if len(maxshape) != value.ndim:
                raise ValueError('"maxshape" must have same rank as dataset shape')
            for s, m in zip(value.shape, maxshape):
                if m is not None and s > m:
                    raise ValueError("Unable to synchronously create dataset (the current dimensions exceed maxshape)")
        parent.children[last] = _DataNode(value, maxshape, vlen, sym)
        return Dataset(self._file, parent.children[last], cur)

    def __setitem__(self, name, obj):
        if isinstance(obj, _HLObject):
            raise NotImplementedError("h5fake: hard links are not modelled")
        self.create_dataset(name, data=obj)

    def __delitem__(self, path):
        self._check_writable(KeyError)
        absolute, parts = self._split(path)
        node, _ = self._lookup(path)
        if node is None or not parts:
            raise KeyError("Couldn't delete link (specified link may not exist)")
        parent, last, _ = self._parent_for(path, create=False)
        del parent.children[last]

    def __repr__(self):
        return f'<h5fake group "{self.name}" ({len(self._node.children)} members)>'


def _convert(data, shape, dtype):
    """Storage of a new dataset: (array, is variable-length string, holds symbols)."""
    if data is None:
        if shape is None:
            raise TypeError("One of data, shape or dtype must be specified")
        shape = tuple(shape) if isinstance(shape, (tuple, list)) else (shape,)
        if _is_vlen_str(dtype):
            v = np.empty(shape, dtype=object)
            v[...] = b""
            return v, True, False
        return np.zeros(shape, dtype=np.dtype(dtype) if dtype is not None else np.dtype("f4")), False, False
    if _contains_sym(data):
        if _is_vlen_str(dtype) or (dtype is not None and np.dtype(dtype).kind not in "fc"):
            raise TypeError("h5fake: symbolic reals can only be stored in floating-point datasets")
        if isinstance(data, np.ndarray):
            v = np.empty(data.shape, dtype=object)
            v[...] = np.ndarray.view(data, np.ndarray) if isinstance(data, SymArray) else data
        elif isinstance(data, SymReal):
            v = np.empty((), dtype=object)
            v[()] = data
        else:
            v = np.ndarray.view(SymArray(np.array(data, dtype=object)), np.ndarray).copy()
        if shape is not None and tuple(np.atleast_1d(shape)) != v.shape and not (shape == () and v.shape == ()):
            v = v.reshape(shape)
        return v, False, True
    if isinstance(data, (str, bytes)) or (_is_vlen_str(dtype)):
        if isinstance(data, (str, bytes)):
            v = np.empty((), dtype=object)
            v[()] = _to_bytes(data)
            return v, True, False
        src = np.asarray(data, dtype=object) if not isinstance(data, np.ndarray) else data
        v = np.empty(src.shape, dtype=object)
        for i, e in enumerate(np.asarray(src, dtype=object).ravel()):
            v.flat[i] = _to_bytes(e)
        return v, True, False
    arr = np.array(data)  # copy
    if arr.dtype.kind == "U":
        raise TypeError(f"No conversion path for dtype: {arr.dtype!r}")
    if arr.dtype.kind == "O":
        raise TypeError("Object dtype dtype('O') has no native HDF5 equivalent")
    if dtype is not None:
        arr = arr.astype(np.dtype(dtype))
    if shape is not None:
        shape = tuple(shape) if isinstance(shape, (tuple, list)) else (shape,)
        if shape != arr.shape:
            arr = arr.reshape(shape)
    return arr, False, False


class File(Group):
    """Stand-in for ``h5py.File`` (bound to the :class:`FakeH5` that created the class)."""

    _fs = None  # set by FakeH5

    def __init__(self, name, mode="r", **kwds):
        fs = self._fs
        key = os.fspath(name)
        if isinstance(key, bytes):
            key = key.decode()
        key = os.path.normpath(key)
        if mode not in ("r", "r+", "a", "w", "w-", "x"):
            raise ValueError("Invalid mode; must be one of r, r+, w, w-, x, a")
        exists = key in fs.files
        if mode in ("r", "r+") and not exists:
            raise FileNotFoundError(2, f"Unable to synchronously open file (unable to open file: name = '{key}')")
        if mode in ("w-", "x") and exists:
            raise FileExistsError(17, f"Unable to synchronously create file (file exists: '{key}')")
        if mode == "w":
            if fs.open_count.get(key, 0):
                raise OSError("Unable to synchronously create file (unable to truncate a file which is already open)")
            fs.files[key] = _GroupNode()
        elif not exists:
            fs.files[key] = _GroupNode()
        self._key = key
        # (libhdf5 shares one file object between the handles of a process: a read-only open of a file that is open for writing
        # reports - and has - write access)
        self._mode = "r" if mode == "r" and not fs.open_rw.get(key, 0) else "r+"
        self._closed = False
        fs.open_count[key] = fs.open_count.get(key, 0) + 1
        if self._mode == "r+":
            fs.open_rw[key] = fs.open_rw.get(key, 0) + 1
        fs.log.append((mode, key))
        Group.__init__(self, self, fs.files[key], "")

    @property
    def filename(self):
        return self._key

    @property
    def mode(self):
        return self._mode

    def close(self):
        if not self._closed:
            self._closed = True
            self._fs.open_count[self._key] -= 1
            if self._mode == "r+":
                self._fs.open_rw[self._key] -= 1

    def flush(self):
        self._check_valid()

    def __enter__(self):
        return self

    def __exit__(self, *a):
        self.close()
        return False

    def __repr__(self):
        return f'<h5fake file "{os.path.basename(self._key)}" (mode {self._mode})>' if not self._closed else "<Closed h5fake file>"


class FakeH5:
    """A module-like object to be installed as the global ``h5py`` of the gemseo modules (one in-memory "file system" each)."""

    #: the gemseo modules that import h5py (``grep -rn "import h5py"`` under src/gemseo, post-processing excluded)
    MODULES = ("gemseo.algos._hdf_database", "gemseo.algos.design_space", "gemseo.algos.optimization_problem", "gemseo.utils.hdf5",
               "gemseo.caches._hdf5_file_singleton")

    def __init__(self):
        self.files = {}        # normalised path -> root _GroupNode
        self.open_count = {}
        self.open_rw = {}
        self.log = []          # (mode, path) of every File() call
        self.File = type("File", (File,), {"_fs": self})
        self.Group = Group
        self.Dataset = Dataset
        self.__name__ = "h5py(fake)"
        self.version = type("version", (), {"version": "h5fake"})

    # -- helpers of the real module that involve no I/O (pure dtype metadata) are delegated ---------------------
    @staticmethod
    def string_dtype(encoding="utf-8", length=None):
        return _real_h5py().string_dtype(encoding, length)

    @staticmethod
    def special_dtype(**kw):
        return _real_h5py().special_dtype(**kw)

    @staticmethod
    def check_string_dtype(dt):
        return _real_h5py().check_string_dtype(dt)

    @staticmethod
    def check_dtype(**kw):
        return _real_h5py().check_dtype(**kw)

    def is_hdf5(self, path):
        try:
            key = os.path.normpath(os.fspath(path))
        except TypeError:
            return False
        return key in self.files

    # -- harness side ------------------------------------------------------------------------------------------------
    def exists(self, path):
        return os.path.normpath(os.fspath(path)) in self.files

    def install(self, ctx, modules=None):
        """Patch the global ``h5py`` (and names imported from it) of the gemseo modules; symbolic mode only."""
        import importlib

        if not ctx.symbolic:
            return
        for name in modules or self.MODULES:
            mod = importlib.import_module(name)
            ctx.patch(mod, "h5py", self)
            for attr, val in (("File", self.File), ("Group", self.Group), ("Dataset", self.Dataset)):
                if attr in vars(mod):
                    ctx.patch(mod, attr, val)

    def dump(self, path, node=None, prefix=""):
        """Readable listing of a fake file (debugging aid)."""
        node = self.files[os.path.normpath(path)] if node is None else node
        out = []
        for k in sorted(node.children):
            c = node.children[k]
            if isinstance(c, _GroupNode):
                out.append(f"{prefix}/{k}/")
                out += self.dump(path, c, f"{prefix}/{k}")
            else:
                out.append(f"{prefix}/{k} = {c.value.tolist()!r}")
        return out


def sym_array_stub(real_array=np.array):
    """Value-preserving replacement of a module-global ``numpy.array``: data holding symbolic reals (or a fake dataset of them)
    become an object array of the same terms whatever ``dtype=float64`` says (float64 storage modelled as exact real storage);
    everything else goes to the real ``numpy.array`` unchanged."""

    def array(obj, *args, **kw):
        if isinstance(obj, Dataset):
            obj = obj[()]
        if _contains_sym(obj):
            dt = kw.get("dtype", args[0] if args else None)
            if dt is not None and np.dtype(dt).kind not in "fcO":
                raise TypeError("h5fake.sym_array_stub: symbolic data requested with a non floating-point dtype")
            if isinstance(obj, np.ndarray):
                return SymArray(obj)
            if isinstance(obj, SymReal):
                a = np.empty((), dtype=object)
                a[()] = obj
                return a.view(SymArray)
            return SymArray(np.array(obj, dtype=object)) if not _flat(obj) else SymArray(list(obj))
        return real_array(obj, *args, **kw)

    return array


def _flat(obj):
    return isinstance(obj, (list, tuple)) and all(not isinstance(e, (list, tuple, np.ndarray)) for e in obj)
