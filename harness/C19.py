"""C19 (ParameterSpace half only) - the "glue" between a parameter space and the marginal laws of its random variables.

What is checked is the ROUTING done by ``ParameterSpace`` / ``SPJointDistribution`` / ``OTJointDistribution`` (all Python): which marginal
law is applied to which component, in which order the results are assembled, which components stay on the affine design-space map, and
the bookkeeping (uncertain / deterministic variables, per-variable and full joint distributions) that decides this routing after short
histories of public operations.  What is NOT checked is any distribution: in symbolic mode the calls that reach compiled code -
``marginal.distribution.cdf / ppf`` (SciPy frozen law) and ``marginal.distribution.computeCDF / computeQuantile`` (OpenTURNS law) - are
replaced by uninterpreted functions ``C_law`` / ``Q_law`` of one real argument, one pair per LAW (wrapped library class + its parameters, read
off the real wrapped object, never off its position in the parameter space), under the contract

    0 <= C(x) <= 1,   Q(C(x)) == x for x in the support,   lo <= Q(u) <= hi,   C(Q(u)) == u for u in [0,1] (open at an infinite side),
    C and Q non-decreasing with bounded slopes (2 x the extreme densities of the law)

added as ground instances for the argument terms that occur.  The oracle states component j of each result as ``C_law(j)(x_j)`` /
``Q_law(j)(u_j)`` / the affine map, where ``law(j)`` comes from the harness' own catalogue.  Concrete replays and the differential
self-test run the real SciPy / OpenTURNS laws, and the oracle then calls the same laws directly (``scipy.stats.norm(loc=10, scale=1).cdf``
...): a counterexample is reported only if it reproduces with the real distributions through gemseo's public API.

The laws of the catalogue are chosen so that a routing error is visible with the REAL laws whatever the point: the quantile ranges of
different laws are pairwise disjoint on the assumed domains, no law is uniform (the CDF of a uniform law IS the affine map, so ignoring
``use_dist`` would be unobservable), the widths of the bounded supports are powers of two.

Harnesses: ``numeric`` (fixed layouts, symbolic bounds of the deterministic variables, symbolic vectors and 2 x n batches),
``history`` (solver-chosen histories of public operations against a reference model, then structure + routing on every space produced),
``minus_lb`` and ``filter_dims`` (two documented / inherited behaviours that the pinned tree violates, kept apart so that the other
harnesses stay green; see the findings in the final report).
"""
from __future__ import annotations

import re

import numpy as np

from harness.common import INF, SpaceInfo, _plain, _py, build_space, exact_bounds

META = dict(
    bounds=dict(
        quick="numeric: 9 layouts of 1-3 variables (1-5 components) mixing deterministic variables with SYMBOLIC bounds (bounded, unbounded, half-bounded, "
              "concrete) and random variables / random vectors of size 1-2 with concrete laws (2 normal, 2 triangular, 1 exponential), SciPy and OpenTURNS "
              "families, 1-D vectors and 2 x n batches; history: every history of 2 operations on 3 initial spaces (SciPy) and 2 (OpenTURNS) among add_variable, "
              "add_random_variable, add_random_vector, remove_variable, re-use of a removed name for a variable of another kind / law / size, rename_variable, filter, a "
              "transform_vect query, extract_uncertain_space (both forms), extract_deterministic_space, to_design_space, add_variables_from into a new space (all "
              "variables in reverse order; the last one only); every space produced on the way - also the ones left behind by an operation that returned a new "
              "space - is observed at the end (structure + routing of a symbolic vector); minus_lb: 3 layouts x 2 shapes; filter_dims: 2 layouts x 2 kept dimensions",
        thorough="numeric: the same layouts; history: every history of 3 operations on 4 (initial space, family) pairs and of 2 operations on the 4 other pairs",
    ),
    outside=[
        "EVERY DISTRIBUTION: CDF, quantile function, density, moments, numerical range, support, SciPy-vs-OpenTURNS agreement, mutual inversion of cdf/ppf: compiled "
        "SciPy / OpenTURNS code, replaced by uninterpreted functions with an ASSUMED inversion contract; a change confined to a distribution wrapper "
        "(uncertainty/distributions/scipy/*.py, openturns/*.py other than the joint classes' routing; base_distribution.py) is NOT detected, except that a "
        "wrapper handing other parameters to the library changes the law's identity and is seen as a wrong law",
        "sampling (compute_samples, random states), empirical statistics, init_from_dataset, copulas (independent copula only), transformed / truncated "
        "OpenTURNS laws, SPDistribution / OTDistribution generic interfaces (interfaced_distribution=...), distribution fitting",
        "the mean used as current value of a random variable is a moment of the law (outside): it is only compared, as a number, with the mean reported by the "
        "reference law that the harness builds directly from the library",
        "pretty tables, get_tabular_view, __str__",
        "the content of an out= buffer (as in C02; with use_dist=True gemseo ignores out=): only returned values are asserted",
        "normalize_vect(use_dist=True, minus_lb=False) on the components of random variables (nothing documented)",
        "the order of the variables of to_design_space() / extract_uncertain_space(as_design_space=True) (any permutation accepted, all views must agree on it); "
        "the position of a renamed variable (as in C02)",
        "ParameterSpace.distribution after the LAST random variable has been removed (it keeps the previous joint distribution; the documentation is silent)",
        "extend() of a parameter space by a parameter space (random variables are added as deterministic ones; the documentation is silent)",
        "float64 rounding (real arithmetic); points outside the supports / outside [0,1]; more than 3 variables or 5 components; histories longer than 2 (quick) / 3",
    ],
    stubs=[
        "symbolic mode only: the attribute `distribution` of every marginal (SPDistribution / OTDistribution object held by ParameterSpace.distributions[name].marginals "
        "and ParameterSpace.distribution.marginals) is wrapped, just before a numeric query and restored after it, by a proxy whose cdf/ppf (SciPy) or "
        "computeCDF/computeQuantile (OpenTURNS) return C_law(arg) / Q_law(arg) (computeQuantile: a 1-list) where `law` is read off the real wrapped object "
        "(SciPy: dist.name, args, kwds; OpenTURNS: getName(), getParameter()); every other attribute is the real object's",
        "contract of the proxy, added as ground instances at each call: 0 <= C(x) <= 1; (x in support) -> Q(C(x)) == x; lo <= Q(u) <= hi for finite support bounds; "
        "(0 <= u <= 1, strict at an infinite support side) -> C(Q(u)) == u; and, against the (at most 8) previous distinct argument terms of the same function "
        "on the path: C non-decreasing with slope <= 2 x the maximal density of the law, Q non-decreasing with slope <= 2 / the minimal density between the 1/16 and "
        "15/16 quantiles for levels in [1/16, 15/16] (true of the real laws; they only serve to keep the solver's counterexamples realistic, i.e. reproducible "
        "with the real laws in float64)",
        "symbolic mode only: module global float() of gemseo.uncertainty.distributions.openturns.joint -> identity on symbolic reals (computeCDF(float(v)))",
        "deterministic variables with symbolic bounds: harness.common.build_space (bounds written into Variable.__dict__, l < u assumed)",
        "concrete mode (replays, self-test): no stub; the oracle's C / Q are direct calls of scipy.stats / openturns on laws built by the harness",
    ],
    assumptions=[
        "components of random variables: x in a concrete sub-interval of the support of its law (the five intervals are mapped by the real CDFs onto pairwise "
        "disjoint level bands between 7% and 93%, so that a wrong-law / wrong-component counterexample found with uninterpreted functions is also one with the "
        "real laws; the symbolic reasoning does not depend on the location of the intervals), u in [1/16, 15/16]",
        "components of bounded deterministic variables: l <= x <= u, 0 <= u <= 1, l < u",
        "the catalogue laws: normal(10,1), normal(-10,2), triangular(0,0.3,1), triangular(2,3,6), exponential(rate 2, loc 20); continuous, strictly increasing CDF on "
        "the support (this is what the inversion contract idealises)",
        "history harness: concrete dyadic bounds for the deterministic variables, no current value for them",
    ],
)

EXPLORER_OPTS = {"quick": dict(query_timeout_ms=10000, wall_budget_s=150.0), "thorough": dict(query_timeout_ms=30000, wall_budget_s=1500.0)}

# ------------------------------------------------------------------------------------------------
# catalogue of laws (oracle side)
# ------------------------------------------------------------------------------------------------
# ``dom``: the interval (inside the support) in which the harness takes the points x of a component following the law.  The five intervals are
# chosen so that the REAL CDFs map them onto pairwise disjoint level bands (N: .075-.287, M: .331-.488, T: .548-.665, W: .707-.813,
# X: .847-.928) and the real quantile functions map [1/16, 15/16] onto pairwise disjoint intervals: the value of one law at a point of its
# interval never coincides with the value of another law at a point of the other's, so a counterexample found with uninterpreted C/Q
# (wrong law, wrong component) also is one with the real laws.  Nothing in the symbolic reasoning depends on where the intervals lie.
_COMMON = {
    "N": dict(support=(-INF, INF), dom=(8.5625, 9.4375)),
    "M": dict(support=(-INF, INF), dom=(-10.875, -10.0625)),
    "T": dict(support=(0.0, 1.0), dom=(0.4375, 0.515625)),
    "W": dict(support=(2.0, 6.0), dom=(4.125, 4.5)),
    "X": dict(support=(20.0, INF), dom=(20.9375, 21.3125)),
}
CATALOG = {
    "SP": {
        "N": dict(cls="SPNormalDistribution", kw=dict(mu=10.0, sigma=1.0), ref=("norm", dict(loc=10.0, scale=1.0))),
        "M": dict(cls="SPNormalDistribution", kw=dict(mu=-10.0, sigma=2.0), ref=("norm", dict(loc=-10.0, scale=2.0))),
        "T": dict(cls="SPTriangularDistribution", kw=dict(minimum=0.0, mode=0.3, maximum=1.0), ref=("triang", dict(loc=0.0, scale=1.0, c=0.3))),
        "W": dict(cls="SPTriangularDistribution", kw=dict(minimum=2.0, mode=3.0, maximum=6.0), ref=("triang", dict(loc=2.0, scale=4.0, c=0.25))),
        "X": dict(cls="SPExponentialDistribution", kw=dict(rate=2.0, loc=20.0), ref=("expon", dict(loc=20.0, scale=0.5))),
    },
    "OT": {
        "N": dict(cls="OTNormalDistribution", kw=dict(mu=10.0, sigma=1.0), ref=("Normal", (10.0, 1.0))),
        "M": dict(cls="OTNormalDistribution", kw=dict(mu=-10.0, sigma=2.0), ref=("Normal", (-10.0, 2.0))),
        "T": dict(cls="OTTriangularDistribution", kw=dict(minimum=0.0, mode=0.3, maximum=1.0), ref=("Triangular", (0.0, 0.3, 1.0))),
        "W": dict(cls="OTTriangularDistribution", kw=dict(minimum=2.0, mode=3.0, maximum=6.0), ref=("Triangular", (2.0, 3.0, 6.0))),
        "X": dict(cls="OTExponentialDistribution", kw=dict(rate=2.0, loc=20.0), ref=("Exponential", (2.0, 20.0))),
    },
}
U_LO, U_HI = 0.0625, 0.9375


def _ref_object(fam, lid):
    """The law built by the harness directly from the library (never through gemseo)."""
    name, params = CATALOG[fam][lid]["ref"]
    if fam == "SP":
        import scipy.stats

        return getattr(scipy.stats, name)(**params)
    import openturns

    return getattr(openturns, name)(*params)


def _law_key(fam, obj):
    """Identity of a law, read off a wrapped library object: class name + parameters."""
    if fam == "SP":
        parts = [obj.dist.name] + [repr(float(a)) for a in obj.args] + [f"{k}={float(v)!r}" for k, v in sorted(obj.kwds.items())]
    else:
        parts = [obj.getName()] + [repr(float(v)) for v in obj.getParameter()]
    return re.sub(r"[^0-9A-Za-z]+", "_", "_".join(parts)).strip("_")


_SLOPES = {}


def _slopes(fam, obj, key):
    """(2 * max density, 2 / min density between the U_LO and U_HI quantiles) of a library law, as dyadic numbers (computed numerically once)."""
    if key not in _SLOPES:
        if fam == "SP":
            pdf, q = (lambda t: float(obj.pdf(t))), (lambda t: float(obj.ppf(t)))
        else:
            pdf, q = (lambda t: float(obj.computePDF(float(t)))), (lambda t: float(obj.computeQuantile(float(t))[0]))
        lo, hi = q(1e-6), q(1.0 - 1e-6)
        dens_all = [pdf(lo + (hi - lo) * i / 4000.0) for i in range(4001)]
        a, b = q(U_LO), q(U_HI)
        dens_mid = [pdf(a + (b - a) * i / 4000.0) for i in range(4001)]
        up = lambda t: float(2.0 ** np.ceil(np.log2(t)))  # noqa: E731
        _SLOPES[key] = (up(2.0 * max(dens_all)), up(2.0 / min(dens_mid)))
    return _SLOPES[key]


_REF_CACHE = {}


def _ref(fam, lid):
    if (fam, lid) not in _REF_CACHE:
        obj = _ref_object(fam, lid)
        _REF_CACHE[(fam, lid)] = (obj, _law_key(fam, obj))
    return _REF_CACHE[(fam, lid)]


class Law:
    """Oracle-side law: uninterpreted C/Q symbolically, the harness' own library object concretely."""

    def __init__(self, ctx, fam, lid):
        self.fam, self.lid = fam, lid
        self.lo, self.hi = _COMMON[lid]["support"]
        self.dom = _COMMON[lid]["dom"]
        obj, self.key = _ref(fam, lid)
        if ctx.symbolic:
            self.C = ctx.uf("C_" + self.key, 1)
            self.Q = ctx.uf("Q_" + self.key, 1)
        elif fam == "SP":
            self.C = lambda x: float(obj.cdf(float(x)))
            self.Q = lambda u: float(obj.ppf(float(u)))
        else:
            self.C = lambda x: float(obj.computeCDF(float(x)))
            self.Q = lambda u: float(obj.computeQuantile(float(u))[0])

    def mean(self):
        obj = _ref(self.fam, self.lid)[0]
        return float(obj.mean()) if self.fam == "SP" else float(obj.getMean()[0])


# ------------------------------------------------------------------------------------------------
# environment stub: the wrapped library object of each marginal (symbolic mode only)
# ------------------------------------------------------------------------------------------------
class _Proxy:
    def __init__(self, ctx, fam, real):
        self._ctx, self._fam, self._real = ctx, fam, real
        key = self._key = _law_key(fam, real)
        self._C = ctx.uf("C_" + key, 1)
        self._Q = ctx.uf("Q_" + key, 1)
        self._slope_c, self._slope_q = _slopes(fam, real, key)
        if fam == "SP":
            lo, hi = real.support()
            self._lo, self._hi = float(lo), float(hi)
        else:
            rng = real.getRange()
            self._lo = float(rng.getLowerBound()[0]) if rng.getFiniteLowerBound()[0] else -INF
            self._hi = float(rng.getUpperBound()[0]) if rng.getFiniteUpperBound()[0] else INF

    def __getattr__(self, name):
        return getattr(self._real, name)

    def _pairs(self, kind, arg, val, slope, domain=None):
        """Ground instances, against the earlier applications of the same function on this path, of: non-decreasing, and slope <= ``slope``
        (the CDF everywhere, the quantile function between the levels U_LO and U_HI).  True of the real laws (the slopes are twice the
        extreme densities of the law): they keep the solver's counterexamples realistic, i.e. reproducible with the real laws."""
        ctx = self._ctx
        seen = ctx.apps.setdefault(("C19", kind, self._key), [])  # Explorer.apps is re-created for every path
        if any(_same_term(arg, a2) for a2, _ in seen):
            return  # the same argument term again: congruence already gives everything
        for a2, v2 in seen[-8:]:
            for (x, fx, y, fy) in ((arg, val, a2, v2), (a2, v2, arg, val)):
                prem = [ctx.le(x, y)]
                if domain is not None:
                    prem += [ctx.le(domain[0], x), ctx.le(y, domain[1])]
                ctx.add_axiom(ctx.implies(ctx.and_(*prem), ctx.and_(ctx.le(fx, fy), ctx.le(fy - fx, slope * (y - x)))))
        seen.append((arg, val))

    def _cdf(self, v):
        ctx = self._ctx
        c = self._C(v)
        ctx.add_axiom(ctx.and_(ctx.le(0.0, c), ctx.le(c, 1.0)))
        inside = [ctx.le(self._lo, v)] if self._lo != -INF else []
        inside += [ctx.le(v, self._hi)] if self._hi != INF else []
        ctx.add_axiom(ctx.implies(ctx.and_(*inside), ctx.eq(self._Q(c), v)))
        self._pairs("C", v, c, self._slope_c)
        return c

    def _ppf(self, u):
        ctx = self._ctx
        q = self._Q(u)
        if self._lo != -INF:
            ctx.add_axiom(ctx.le(self._lo, q))
        if self._hi != INF:
            ctx.add_axiom(ctx.le(q, self._hi))
        unit = [ctx.le(0.0, u) if self._lo != -INF else ctx.lt(0.0, u), ctx.le(u, 1.0) if self._hi != INF else ctx.lt(u, 1.0)]
        ctx.add_axiom(ctx.implies(ctx.and_(*unit), ctx.eq(self._C(q), u)))
        self._pairs("Q", u, q, self._slope_q, (U_LO, U_HI))
        return q

    @staticmethod
    def _scalar(v):
        if isinstance(v, np.ndarray):
            if v.size != 1:
                raise TypeError("the marginal laws are evaluated one scalar at a time by the joint distributions")
            return _py(_plain(v).ravel()[0])
        return _py(v)

    # SciPy frozen distribution
    def cdf(self, v):
        return self._cdf(self._scalar(v))

    def ppf(self, v):
        return self._ppf(self._scalar(v))

    # OpenTURNS distribution
    def computeCDF(self, v):  # noqa: N802
        return self._cdf(self._scalar(v))

    def computeQuantile(self, v):  # noqa: N802
        return [self._ppf(self._scalar(v))]


def _same_term(a, b):
    ta, tb = getattr(a, "t", None), getattr(b, "t", None)
    if ta is None or tb is None:
        return ta is None and tb is None and a == b
    return ta.eq(tb)


def _id_float(v):
    from symgem.core import SymBool, SymReal

    return v if isinstance(v, (SymReal, SymBool)) else float(v)


class Stubbed:
    """``with Stubbed(ctx, fam, space):`` wraps the library objects of all marginals of ``space`` (symbolic mode), restores them on exit."""

    def __init__(self, ctx, fam, *spaces):
        self.ctx, self.fam, self.spaces, self.saved = ctx, fam, spaces, []

    def __enter__(self):
        if not self.ctx.symbolic:
            return self
        if self.fam == "OT":
            import gemseo.uncertainty.distributions.openturns.joint as otj

            if "float" not in vars(otj):
                self.ctx.patch(otj, "float", _id_float)
        for space in self.spaces:
            joints = list(getattr(space, "distributions", {}).values())
            if getattr(space, "distribution", None) is not None:
                joints.append(space.distribution)
            for joint in joints:
                for m in joint.marginals:
                    if not isinstance(m.distribution, _Proxy):
                        self.saved.append((m, m.distribution))
                        m.distribution = _Proxy(self.ctx, self.fam, m.distribution)
        return self

    def __exit__(self, *exc):
        for m, real in reversed(self.saved):
            m.distribution = real
        self.saved = []
        return False


# ------------------------------------------------------------------------------------------------
# oracle-side description of a space: one Comp per component, in variable order
# ------------------------------------------------------------------------------------------------
class Comp:
    def __init__(self, name, c, lb, ub, law=None):
        self.name, self.c, self.lb, self.ub, self.law = name, c, lb, ub, law

    @property
    def bounded(self):
        return self.lb != -INF and self.ub != INF

    def affine(self, x):
        return (x - self.lb) / (self.ub - self.lb) if self.bounded else x

    def unaffine(self, u):
        return self.lb + u * (self.ub - self.lb) if self.bounded else u

    def transform(self, x):
        return self.law.C(x) if self.law is not None else self.affine(x)

    def untransform(self, u):
        return self.law.Q(u) if self.law is not None else self.unaffine(u)


def _add_random(space, fam, name, spec):
    """spec = ("rv", law id, size) | ("vec", [law ids]) -> the law ids of the components."""
    if spec[0] == "rv":
        e = CATALOG[fam][spec[1]]
        space.add_random_variable(name, e["cls"], spec[2], **e["kw"])
        return [spec[1]] * spec[2]
    lids = list(spec[1])
    classes = {CATALOG[fam][lid]["cls"] for lid in lids}
    assert len(classes) == 1, "a random vector has one distribution class"
    keys = list(CATALOG[fam][lids[0]]["kw"])
    space.add_random_vector(name, classes.pop(), **{k: [CATALOG[fam][lid]["kw"][k] for lid in lids] for k in keys})
    return lids


def _rand_comps(ctx, fam, name, lids):
    return [Comp(name, c, _COMMON[lid]["support"][0], _COMMON[lid]["support"][1], Law(ctx, fam, lid)) for c, lid in enumerate(lids)]


# numeric layouts: (name, "det", kinds) | (name, "rv", law, size) | (name, "vec", [laws]); names are deliberately not in alphabetical order
LAYOUTS = {
    "r": [("z", "rv", "N", 1)],
    "dr": [("k", "det", "B"), ("a", "rv", "T", 1)],
    "rd": [("z", "rv", "N", 1), ("a", "det", "B")],
    "rdv": [("z", "rv", "T", 1), ("a", "det", "BU"), ("m", "vec", ["N", "M"])],
    "vdr": [("z", "vec", ["T", "W"]), ("a", "det", "B"), ("m", "rv", "X", 1)],
    "r2c": [("z", "rv", "W", 2), ("a", "det", "C")],
    "drd": [("k", "det", "L"), ("f", "rv", "M", 1), ("a", "det", "B")],
    "vv": [("z", "vec", ["W", "T"]), ("m", "vec", ["M", "N"])],
    "dd": [("k", "det", "B"), ("a", "det", "R")],
}


def _build(ctx, fam, layout):
    """A real ParameterSpace and the list of its components (oracle side)."""
    from gemseo.algos.parameter_space import ParameterSpace

    space = ParameterSpace()
    comps, uncertain, order = [], [], []
    for entry in layout:
        name, kind = entry[0], entry[1]
        order.append((name, 0))
        if kind == "det":
            info = SpaceInfo()
            build_space(ctx, [(name, "float", entry[2])], ds=space, info=info)
            exact_bounds(ctx, space, info)
            comps += [Comp(name, c, info.lb[c], info.ub[c]) for c in range(info.n)]
            order[-1] = (name, info.n)
        else:
            lids = _add_random(space, fam, name, entry[1:])
            comps += _rand_comps(ctx, fam, name, lids)
            uncertain.append(name)
            order[-1] = (name, len(lids))
    return space, comps, uncertain, order


def _rows(a):
    a = _plain(a) if isinstance(a, np.ndarray) else np.asarray(a, dtype=object)
    if a.ndim == 1:
        return [[_py(v) for v in a]]
    return [[_py(v) for v in r] for r in a]


def _sym(ctx, a):
    """The value returned by one query handed to the next one: symbolically the plain object array is re-wrapped as a SymArray (same values),
    as a float64 array would be in the real run."""
    if not ctx.symbolic:
        return a
    from symgem.core import as_symarray

    return as_symarray(a)


def _fresh(ctx, name, n, batch):
    if batch:
        return ctx.matrix(name, 2, n), [[ctx.real(f"{name}{i}_{j}") for j in range(n)] for i in range(2)]
    return ctx.reals(name, n), [[ctx.real(f"{name}{j}") for j in range(n)]]


def _check_rows(ctx, label, got, exp_rows, batch, cut=True):
    """Shape + component-wise equality (``None``: not asserted).  Symbolically a path is cut after the first group of obligations with a
    violation (what follows would mostly repeat it); concrete replays always run to the end."""
    shape = (2, len(exp_rows[0])) if batch else (len(exp_rows[0]),)
    gs = tuple(np.shape(got))
    ok = ctx.check(f"{label}:shape {gs} == {shape}", ctx.true() if gs == shape else ctx.false()) is not False
    if gs == shape:
        g = _rows(got)
        for i, r in enumerate(exp_rows):
            for j, e in enumerate(r):
                if e is not None:
                    ok = (ctx.check(f"{label}[{i},{j}]" if batch else f"{label}[{j}]", ctx.eq(g[i][j], e)) is not False) and ok
    if not ok and cut and ctx.symbolic:
        ctx.assume(ctx.false())


def _points(ctx, comps, tag, batch):
    """A symbolic point x of the space and a symbolic unit vector u, with the stated assumptions."""
    n = len(comps)
    x, xs = _fresh(ctx, f"x{tag}", n, batch)
    u, us = _fresh(ctx, f"u{tag}", n, batch)
    for row in xs:
        for j, c in enumerate(comps):
            if c.law is not None:
                ctx.assume(ctx.and_(c.law.dom[0] <= row[j], row[j] <= c.law.dom[1]))
            elif c.bounded:
                ctx.assume(ctx.and_(c.lb <= row[j], row[j] <= c.ub))
    for row in us:
        for j, c in enumerate(comps):
            if c.law is not None:
                ctx.assume(ctx.and_(U_LO <= row[j], row[j] <= U_HI))
            else:
                ctx.assume(ctx.and_(0.0 <= row[j], row[j] <= 1.0))
    return x, xs, u, us


def _det_only(comps, rows):
    return [[v for c, v in zip(comps, r) if c.law is None] for r in rows]


def _routing(ctx, fam, space, comps, tag, batch, prefix="", full=True):
    """transform / untransform / (un)normalize with and without the laws, round trips, inputs untouched."""
    n = len(comps)
    x, xs, u, us = _points(ctx, comps, tag, batch)
    is_ps = hasattr(space, "uncertain_variables")
    with Stubbed(ctx, fam, space):
        t = space.transform_vect(x)
        _check_rows(ctx, prefix + "transform_vect", t, [[c.transform(v) for c, v in zip(comps, r)] for r in xs], batch)
        w = space.untransform_vect(u)
        _check_rows(ctx, prefix + "untransform_vect", w, [[c.untransform(v) for c, v in zip(comps, r)] for r in us], batch)
        back = space.untransform_vect(_sym(ctx, space.transform_vect(x)))
        _check_rows(ctx, prefix + "untransform_vect(transform_vect(x))", back, xs, batch)
        if full:
            there = space.transform_vect(_sym(ctx, space.untransform_vect(u)))
            _check_rows(ctx, prefix + "transform_vect(untransform_vect(u))", there, us, batch)
        g = space.normalize_vect(x)
        _check_rows(ctx, prefix + "normalize_vect (without the laws)", g, [[c.affine(v) for c, v in zip(comps, r)] for r in xs], batch)
        h = space.unnormalize_vect(u)
        _check_rows(ctx, prefix + "unnormalize_vect (without the laws)", h, [[c.unaffine(v) for c, v in zip(comps, r)] for r in us], batch)
        if is_ps and full:
            _check_rows(ctx, prefix + "normalize_vect(use_dist=True) == transform_vect", space.normalize_vect(x, use_dist=True), _rows(t), batch)
            _check_rows(ctx, prefix + "unnormalize_vect(use_dist=True) == untransform_vect", space.unnormalize_vect(u, use_dist=True), _rows(w), batch)
            _check_rows(ctx, prefix + "untransform_vect(no_check=True) == untransform_vect", space.untransform_vect(u, no_check=True), _rows(w), batch)
            o = ctx.array([[0.0] * n for _ in range(2)] if batch else [0.0] * n)
            _check_rows(ctx, prefix + "transform_vect(out=) returns the same values", space.transform_vect(x, out=o), _rows(t), batch)
    _check_rows(ctx, prefix + "the queries leave x untouched", x, xs, batch)
    _check_rows(ctx, prefix + "the queries leave u untouched", u, us, batch)
    # differential self-test: only values that do not involve a law can be compared between the two modes
    ctx.observe(prefix + "normalize_vect (without the laws)", g)
    ctx.observe(prefix + "unnormalize_vect (without the laws)", h)
    ctx.observe(prefix + "transform_vect, deterministic components", _det_only(comps, _rows(t)))
    ctx.observe(prefix + "untransform_vect, deterministic components", _det_only(comps, _rows(w)))


def h_numeric(ctx, cfg):
    fam, batch = cfg["family"], cfg["batch"]
    space, comps, uncertain, order = _build(ctx, fam, LAYOUTS[cfg["layout"]])
    _routing(ctx, fam, space, comps, "", batch)
    # ---- evaluate_cdf, both directions, dictionaries of the uncertain variables only and of all variables -------------------------
    n = len(comps)
    x, xs, u, us = _points(ctx, comps, "e", batch)
    off, offs = 0, {}
    for name, size in order:
        offs[name] = (off, off + size)
        off += size
    with Stubbed(ctx, fam, space):
        for inverse, arr, rows, what in ((False, x, xs, "evaluate_cdf"), (True, u, us, "evaluate_cdf(inverse=True)")):
            for which in ("uncertain", "all"):
                d = {name: arr[..., a:b] for name, (a, b) in offs.items() if which == "all" or name in uncertain}
                r = space.evaluate_cdf(d, inverse=inverse)
                ctx.check(f"{what}/{which}: the keys are the uncertain variables", ctx.true() if sorted(r) == sorted(uncertain) else ctx.false())
                for name in uncertain:
                    if name not in r:
                        continue
                    a, b = offs[name]
                    exp = [[(comps[j].untransform(row[j]) if inverse else comps[j].transform(row[j])) for j in range(a, b)] for row in rows]
                    _check_rows(ctx, f"{what}/{which}[{name}]", r[name], exp, batch)
    _check_rows(ctx, "evaluate_cdf leaves x untouched", x, xs, batch)
    _check_rows(ctx, "evaluate_cdf leaves u untouched", u, us, batch)
    ctx.observe("dimension", [float(space.dimension)])


# ------------------------------------------------------------------------------------------------
# documented minus_lb variants (DesignSpace map x/(u-l), u*(u-l); gradient scalings)
# ------------------------------------------------------------------------------------------------
def h_minus_lb(ctx, cfg):
    fam, batch = cfg["family"], cfg["batch"]
    space, comps, uncertain, order = _build(ctx, fam, LAYOUTS[cfg["layout"]])
    x, xs, u, us = _points(ctx, comps, "", batch)

    def scale(c, v, inv):
        if not c.bounded:
            return v
        return v / (c.ub - c.lb) if inv else v * (c.ub - c.lb)

    def whole(label, got, exp_rows):
        """One obligation per method (all components together): the known defect is reported once per method."""
        shape = (2, len(comps)) if batch else (len(comps),)
        if tuple(np.shape(got)) != shape:
            ctx.check(f"{label}: shape {tuple(np.shape(got))} == {shape}", ctx.false())
            return
        g = _rows(got)
        ctx.check(label, ctx.and_(*[ctx.eq(g[i][j], e) for i, r in enumerate(exp_rows) for j, e in enumerate(r) if e is not None]))

    with Stubbed(ctx, fam, space):
        r = space.normalize_vect(x, minus_lb=False)
        ctx.observe("normalize_vect(minus_lb=False)", r)
        whole("normalize_vect(minus_lb=False) is x/(u-l) on bounded components", r, [[scale(c, v, True) for c, v in zip(comps, row)] for row in xs])
        r = space.unnormalize_vect(u, minus_lb=False, no_check=True)
        ctx.observe("unnormalize_vect(minus_lb=False)", r)
        whole("unnormalize_vect(minus_lb=False) is u*(u-l) on bounded components", r, [[scale(c, v, False) for c, v in zip(comps, row)] for row in us])
        r = space.normalize_grad(x)
        ctx.observe("normalize_grad", r)
        whole("normalize_grad is g*(u-l) on bounded components", r, [[scale(c, v, False) for c, v in zip(comps, row)] for row in xs])
        r = space.unnormalize_grad(x)
        ctx.observe("unnormalize_grad", r)
        whole("unnormalize_grad is g/(u-l) on bounded components", r, [[scale(c, v, True) for c, v in zip(comps, row)] for row in xs])
        # with the laws: only the deterministic components are documented
        r = space.normalize_vect(x, minus_lb=False, use_dist=True)
        whole("normalize_vect(minus_lb=False, use_dist=True), deterministic components", r,
              [[(scale(c, v, True) if c.law is None else None) for c, v in zip(comps, row)] for row in xs])
        r = space.unnormalize_vect(u, minus_lb=False, use_dist=True, no_check=True)
        whole("unnormalize_vect(minus_lb=False, use_dist=True), deterministic components", r,
              [[(scale(c, v, False) if c.law is None else None) for c, v in zip(comps, row)] for row in us])


# ------------------------------------------------------------------------------------------------
# histories of public operations against a reference model
# ------------------------------------------------------------------------------------------------
POOL = {
    "p": ("det", dict(size=1, lb=[-1.0], ub=[3.0])),
    "q": ("det", dict(size=2, lb=[0.0, 0.5], ub=[8.0, INF])),
    "r": ("rv", "N", 1),
    "s": ("rv", "W", 2),
    "v": ("vec", ["T", "W"]),
    "w": ("vec", ["N", "M"]),
    "e": ("rv", "X", 1),
}
ADD_ORDER = ["p", "e", "v", "q", "r", "w", "s"]
NEW_NAMES = ["n1", "n2", "n3"]
INITS = {"rpv": ["r", "p", "v"], "qs": ["q", "s"], "vpw": ["v", "p", "w"], "ep": ["e", "p"]}
QUERY = "query transform_vect"


class RVar:
    def __init__(self, name, size, lb, ub, lids):
        self.name, self.size, self.lb, self.ub, self.lids = name, size, list(lb), list(ub), (None if lids is None else list(lids))

    @property
    def rand(self):
        return self.lids is not None

    def clone(self):
        return RVar(self.name, self.size, self.lb, self.ub, self.lids)


class Ref:
    """Reference model of a (parameter or design) space: an ordered list of variables."""

    def __init__(self, is_ps=True):
        self.vars, self.is_ps, self.any_order = [], is_ps, False

    def names(self):
        return [v.name for v in self.vars]

    def get(self, name):
        return next(v for v in self.vars if v.name == name)

    def clone(self):
        r = Ref(self.is_ps)
        r.vars = [v.clone() for v in self.vars]
        r.any_order = self.any_order
        return r

    def uncertain(self):
        return [v.name for v in self.vars if v.rand] if self.is_ps else []

    def deterministic(self):
        return [v.name for v in self.vars if not (v.rand and self.is_ps)]


def _pool_var(name, as_name=None):
    spec = POOL[name]
    if spec[0] == "det":
        return RVar(as_name or name, spec[1]["size"], spec[1]["lb"], spec[1]["ub"], None)
    lids = [spec[1]] * spec[2] if spec[0] == "rv" else list(spec[1])
    return RVar(as_name or name, len(lids), [_COMMON[l]["support"][0] for l in lids], [_COMMON[l]["support"][1] for l in lids], lids)


def _add_pool(space, fam, name, as_name=None):
    spec = POOL[name]
    if spec[0] == "det":
        space.add_variable(as_name or name, size=spec[1]["size"], lower_bound=np.array(spec[1]["lb"]), upper_bound=np.array(spec[1]["ub"]))
    else:
        _add_random(space, fam, as_name or name, spec)


# a name that has been removed is used again for a variable of another kind / law / size (a stale entry would show)
REUSE = {"r": "s", "v": "w", "w": "v", "s": "r", "e": "p", "p": "e", "q": "v"}


def _moves(ref, quick, last_step, init=()):
    names = ref.names()
    mv = []
    used = set(names)
    for t in init:
        if t not in used:
            mv.append(("add_named", REUSE[t], t))
    missing = [n for n in ADD_ORDER if n not in used and n not in init]
    det_missing = [n for n in missing if POOL[n][0] == "det"]
    rand_missing = [n for n in missing if POOL[n][0] != "det"]
    for n in det_missing[:1] + rand_missing[:(2 if quick else 3)]:
        mv.append(("add", n))
    if len(names) > 1:
        for n in names:
            mv.append(("remove_variable", n))
    new = next(n for n in NEW_NAMES if n not in used)
    for n in (names if (not quick or len(names) <= 2) else [names[0], names[-1]]):
        mv.append(("rename_variable", n, new))
    if len(names) > 2:
        mv.append(("filter", (names[0], names[-1])))
    if ref.uncertain():
        mv.append(("extract_uncertain_space", False))
        mv.append(("extract_uncertain_space", True))
    mv.append(("extract_deterministic_space",))
    mv.append(("to_design_space",))
    mv.append(("add_variables_from", tuple(reversed(names))))
    if len(names) > 1:
        mv.append(("add_variables_from", (names[-1],)))
    if not last_step:
        mv.append((QUERY,))
    return mv


def _apply(ctx, fam, space, ref, mv, k):
    """One operation on the real space and on the model; returns (space, ref) of the space the history goes on with, or None if it is new."""
    from gemseo.algos.parameter_space import ParameterSpace

    op = mv[0]
    if op == "add":
        _add_pool(space, fam, mv[1])
        ref.vars.append(_pool_var(mv[1]))
    elif op == "add_named":
        _add_pool(space, fam, mv[1], mv[2])
        ref.vars.append(_pool_var(mv[1], mv[2]))
    elif op == "remove_variable":
        space.remove_variable(mv[1])
        ref.vars = [v for v in ref.vars if v.name != mv[1]]
    elif op == "rename_variable":
        space.rename_variable(mv[1], mv[2])
        ref.get(mv[1]).name = mv[2]
        if space.variable_names == [n for n in ref.names() if n != mv[2]] + [mv[2]]:  # position of a renamed variable: not documented (C02)
            v = ref.get(mv[2])
            ref.vars = [w for w in ref.vars if w is not v] + [v]
    elif op == "filter":
        space.filter(list(mv[1]))
        ref.vars = [v for v in ref.vars if v.name in mv[1]]
    elif op == QUERY:
        with Stubbed(ctx, fam, space):  # fills the normalization caches of the design space
            space.transform_vect(ctx.array([_mid(v, c) for v in ref.vars for c in range(v.size)]))
    elif op == "extract_uncertain_space":
        new = space.extract_uncertain_space(as_design_space=mv[1])
        nref = Ref(is_ps=not mv[1])
        nref.vars = [v.clone() for v in ref.vars if v.rand]
        nref.any_order = bool(mv[1])
        return new, nref
    elif op == "extract_deterministic_space":
        new = space.extract_deterministic_space()
        nref = Ref(is_ps=False)
        nref.vars = [v.clone() for v in ref.vars if not v.rand]
        return new, nref
    elif op == "to_design_space":
        new = space.to_design_space()
        nref = Ref(is_ps=False)
        nref.vars = [v.clone() for v in ref.vars]
        nref.any_order = True
        return new, nref
    elif op == "add_variables_from":
        new = ParameterSpace()
        new.add_variables_from(space, *mv[1])
        nref = Ref(is_ps=True)
        nref.vars = [ref.get(n).clone() for n in mv[1]]
        return new, nref
    else:
        raise AssertionError(op)
    return None


def _mid(v, c):
    """A concrete point inside component c of a model variable."""
    if v.rand:
        d = _COMMON[v.lids[c]]["dom"]
        return 0.5 * (d[0] + d[1])
    l, u = v.lb[c], v.ub[c]
    if l != -INF and u != INF:
        return 0.5 * (l + u)
    return l + 1.0 if l != -INF else (u - 1.0 if u != INF else 0.0)


class Checks:
    def __init__(self, ctx, prefix):
        self.ctx, self.prefix, self.failed = ctx, prefix, False

    def ok(self, label, cond):
        if isinstance(cond, (bool, np.bool_)):
            cond = self.ctx.true() if cond else self.ctx.false()
        r = self.ctx.check(self.prefix + label, cond)
        if r is not None and not r:
            self.failed = True

    def same(self, label, got, exp):
        self.ok(label, bool(got == exp))


def _close(a, b):
    a, b = float(a), float(b)
    return a == b or abs(a - b) <= 1e-12 + 1e-9 * max(abs(a), abs(b))


def _observe(ctx, fam, space, ref, tag, label):
    """Structure of ``space`` against ``ref``, then the routing of a symbolic vector."""
    from gemseo.algos.parameter_space import ParameterSpace

    C = Checks(ctx, f"[{label}] ")
    names = list(space.variable_names)
    if ref.any_order and sorted(names) == sorted(ref.names()):
        ref = ref.clone()
        ref.vars = [ref.get(n) for n in names]
    C.same(f"variable_names {names} == {ref.names()}", names, ref.names())
    if C.failed:
        return
    C.same("variable_sizes", dict(space.variable_sizes), {v.name: v.size for v in ref.vars})
    C.same("dimension", int(space.dimension), sum(v.size for v in ref.vars))
    C.same("class", isinstance(space, ParameterSpace), ref.is_ps)
    for v in ref.vars:
        for attr, get in (("lb", space.get_lower_bound), ("ub", space.get_upper_bound)):
            got = [float(t) for t in get(v.name)]
            C.ok(f"{'lower' if attr == 'lb' else 'upper'} bound of {v.name}: {got} == {getattr(v, attr)}",
                 len(got) == v.size and all(_close(a, b) for a, b in zip(got, getattr(v, attr))))
        if v.rand:  # documented: the current value of a random variable (also once made deterministic) is its mean
            try:
                val = space.get_current_value([v.name])
            except KeyError:
                val = None
            exp = [Law(ctx, fam, lid).mean() for lid in v.lids]
            C.ok(f"current value of {v.name} is the mean of its law", val is not None and len(val) == v.size and all(_close(a, b) for a, b in zip(val, exp)))
    if ref.is_ps and not C.failed:
        unc = ref.uncertain()
        C.same(f"uncertain_variables {list(space.uncertain_variables)} == {unc}", list(space.uncertain_variables), unc)
        C.same("deterministic_variables", list(space.deterministic_variables), ref.deterministic())
        C.same("is_uncertain / is_deterministic", [(bool(space.is_uncertain(v.name)), bool(space.is_deterministic(v.name))) for v in ref.vars],
               [(v.rand, not v.rand) for v in ref.vars])
        C.same("distributions has one entry per uncertain variable", sorted(space.distributions), sorted(unc))
        if not C.failed:
            for v in ref.vars:
                if not v.rand:
                    continue
                keys = [_law_key(fam, m.distribution) for m in space.distributions[v.name].marginals]
                C.same(f"laws of the marginals of {v.name}: {keys}", keys, [_ref(fam, lid)[1] for lid in v.lids])
                sup = np.asarray(space.get_support(v.name), dtype=float)
                C.ok(f"get_support({v.name})", sup.shape == (v.size, 2) and all(_close(sup[c, 0], v.lb[c]) and _close(sup[c, 1], v.ub[c]) for c in range(v.size)))
            if not unc:  # as for a fresh space: no random variable, no joint distribution (a stale one would still be sampled by compute_samples)
                C.ok("no uncertain variable: no joint distribution", getattr(space, "distribution", None) is None)
            if unc:  # the joint distribution of all the uncertain variables lists their marginals in the order of uncertain_variables
                keys = [_law_key(fam, m.distribution) for m in space.distribution.marginals]
                C.same(f"laws of the marginals of the joint distribution: {keys}", keys, [_ref(fam, lid)[1] for n in unc for lid in ref.get(n).lids])
    if C.failed or not ref.vars:  # numeric queries on an empty space: outside the claim (as in C02)
        return
    comps = []
    for v in ref.vars:
        if v.rand and ref.is_ps:
            comps += _rand_comps(ctx, fam, v.name, v.lids)
        elif v.rand:  # made deterministic: bounds = support; the assumed domain of the point stays the law's central interval
            for c, lid in enumerate(v.lids):
                cc = Comp(v.name, c, v.lb[c], v.ub[c])
                comps.append(cc)
        else:
            comps += [Comp(v.name, c, v.lb[c], v.ub[c]) for c in range(v.size)]
    _routing(ctx, fam, space, comps, tag, False, prefix=f"[{label}] ", full=False)


def h_history(ctx, cfg):
    from gemseo.algos.parameter_space import ParameterSpace

    fam, K, quick = cfg["family"], cfg["K"], cfg.get("quick", True)
    space = ParameterSpace()
    ref = Ref()
    for n in INITS[cfg["init"]]:
        _add_pool(space, fam, n)
        ref.vars.append(_pool_var(n))
    live = []  # spaces left behind by an operation that created a new one: they must not change any more
    trail = []
    for k in range(K):
        if not ref.is_ps:
            break  # the history goes on with parameter spaces only
        moves = _moves(ref, quick, k == K - 1, INITS[cfg["init"]])
        if k == 0 and "first" in cfg:
            idx = [i for i, m in enumerate(moves) if _untuple(m) == cfg["first"]]
            if not idx:
                ctx.assume(ctx.false())
            mv = moves[idx[0]]
        else:
            mv = moves[ctx.choice(f"op{k}", len(moves))]
        trail.append(mv[0] + (str(list(mv[1:])) if len(mv) > 1 else ""))
        try:
            res = _apply(ctx, fam, space, ref, mv, k)
        except Exception as e:  # noqa: BLE001 - an operation the model allows must not raise
            ctx.check(f"s{k} {trail[-1]} must not raise ({type(e).__name__}: {str(e)[:80]})", ctx.false())
            ctx.assume(ctx.false())
        if res is not None:
            live.append((space, ref, " > ".join(trail[:-1]) or "initial"))
            space, ref = res
    _observe(ctx, fam, space, ref, "f", " > ".join(trail))
    for i, (sp, rf, lab) in enumerate(live):
        _observe(ctx, fam, sp, rf, f"l{i}", f"{lab} (left behind by {' > '.join(trail)})")
    ctx.observe("final dimension", [float(space.dimension)])


def _untuple(m):
    return [list(e) if isinstance(e, tuple) else e for e in m]


# ------------------------------------------------------------------------------------------------
# filter_dimensions on a random vector (inherited from DesignSpace)
# ------------------------------------------------------------------------------------------------
def h_filter_dims(ctx, cfg):
    from gemseo.algos.parameter_space import ParameterSpace

    fam, keep = cfg["family"], cfg["keep"]
    space = ParameterSpace()
    ref = Ref()
    for n in INITS[cfg["init"]]:
        _add_pool(space, fam, n)
        ref.vars.append(_pool_var(n))
    v = next(w for w in ref.vars if w.rand and w.size == 2)
    try:
        space.filter_dimensions(v.name, [keep])
    except Exception as e:  # noqa: BLE001
        ctx.check(f"filter_dimensions({v.name}, [{keep}]) must not raise ({type(e).__name__})", ctx.false())
        return
    v.size, v.lb, v.ub, v.lids = 1, [v.lb[keep]], [v.ub[keep]], [v.lids[keep]]
    _observe(ctx, fam, space, ref, "f", f"filter_dimensions({v.name}, [{keep}])")
    ctx.observe("final dimension", [float(space.dimension)])


# ------------------------------------------------------------------------------------------------
def configs(tier):
    out = []
    quick = tier == "quick"
    for lay in LAYOUTS:
        for fam in ("SP", "OT"):
            for batch in (False, True):
                if lay in ("dd", "vv", "drd") and fam == "OT" and batch:
                    continue
                out.append(("numeric", dict(layout=lay, family=fam, batch=batch)))

    def hist(init, fam, K):
        ref = Ref()
        ref.vars = [_pool_var(n) for n in INITS[init]]
        for m in _moves(ref, quick, K == 1, INITS[init]):
            out.append(("history", dict(init=init, family=fam, K=K, first=_untuple(m), quick=quick)))

    if quick:
        for init, fam in (("rpv", "SP"), ("qs", "SP"), ("ep", "SP"), ("vpw", "OT"), ("qs", "OT")):
            hist(init, fam, 2)
    else:
        for init, fam in (("rpv", "SP"), ("qs", "OT"), ("vpw", "OT"), ("ep", "SP")):
            hist(init, fam, 3)
        for init, fam in (("rpv", "OT"), ("qs", "SP"), ("vpw", "SP"), ("ep", "OT")):
            hist(init, fam, 2)
    # the two harnesses that report the known defects of the pinned tree come last
    for lay, fam in (("dr", "SP"), ("vdr", "SP"), ("rdv", "OT")):
        for batch in (False, True):
            out.append(("minus_lb", dict(layout=lay, family=fam, batch=batch)))
    for init, fam in (("vpw", "SP"), ("qs", "OT")):
        for keep in (0, 1):
            out.append(("filter_dims", dict(init=init, family=fam, keep=keep)))
    return out


HARNESSES = {"numeric": h_numeric, "history": h_history, "minus_lb": h_minus_lb, "filter_dims": h_filter_dims}
