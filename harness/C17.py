"""C17 - MDO formulations are equivalent views of the same problem (partial: IDF, MDF, DisciplinaryOpt).

Real code under test: construction of ``IDF`` / ``MDF`` / ``DisciplinaryOpt`` (concrete), then *symbolic* evaluation of the original
functions of ``formulation.optimization_problem`` (objective, user constraints, IDF consistency constraints; ``evaluate`` and
``jac`` on the physical design vector, no ``preprocess_functions``) through ``FunctionFromDiscipline``, ``DisciplineAdapter``
(``__create_discipline_input_data``, ``_convert_jacobian_to_array``), ``ConsistencyConstraint``,
``BaseFormulation.(un)mask_x_swap_order``, ``MDOChain`` (DisciplinaryOpt), ``MDAChain`` / ``MDAGaussSeidel`` / ``MDAJacobi`` (MDF).

Leaf disciplines come from ``harness.disc``: outputs are uninterpreted functions of the flattened inputs (so "the formulation
passed the right arguments" is decided by congruence) with independent uninterpreted partial derivatives; for the MDF check on
strongly coupled systems the coupling outputs are affine with concrete rational contraction coefficients and the MDA is
warm-started (through the disciplines' default inputs) at a symbolic consistent point ``y* = Y(x, y*)`` (assumed), so that the
inner MDA proves a zero residual and stops at once (as in C06).

The oracles are explicit scalar loops over the discipline symbols; they never call gemseo.

Harness ``mdf_jac`` (added with the contract stubs of ``harness/C07.py``): the MDF total derivatives on strongly coupled systems, through the real
``FunctionFromDiscipline`` / ``DisciplineAdapter`` / ``BaseMDA._compute_jacobian`` / ``JacobianAssembly.total_derivatives`` / ``CoupledSystem`` code with
scipy.sparse and the linear solvers replaced (symbolic mode only) by value-preserving containers and exact, re-checked solves, against (a) the
implicit-function closed form built from the disciplines' partial derivatives and (b) the reduced derivative built from the Jacobian blocks that the real IDF
problem returns at (x, y*).  Harness ``weak_adjoint``: ``weak`` with MDF differentiated through the coupled adjoint (``chain_linearize=False``).
"""
from __future__ import annotations

from fractions import Fraction as Fr

import numpy as np

from harness.common import _plain, _py, exact_const
from harness.disc import make_discipline, make_symbols, to_list

INF = float("inf")

META = dict(
    bounds=dict(
        quick="systems of 2-4 harness disciplines, variables of size 1-2: sellar (2 strongly coupled + objective discipline), vec (size-2 strong couplings, a "
              "discipline with two output couplings one of which is weak, a discipline input that is not a design variable), ring3 (3 strongly coupled, objective "
              "and constraint computed inside the loop), chain / fan / mid (acyclic); 2-3 design-space orders per system (couplings before / between / after the "
              "design variables, an extra variable that no discipline reads); IDF with normalize_constraints True/False, coupling variables bounded (concrete "
              "bounds, a different range per component), unbounded, bounded below only or with equal bounds; user constraint g as eq / ineq with value 0 or 1/4, positive or not; "
              "objective and constraint outputs exchanged (vector objective); disciplines listed in 2 orders; "
              "leaf disciplines filling all Jacobian blocks or only the requested ones; evaluate-then-jac at one symbolic point, then jac-then-evaluate at a "
              "second symbolic point; MDF with MDAChain(inner MDAGaussSeidel | MDAJacobi), MDAGaussSeidel, MDAJacobi as main MDA, warm-started at a symbolic "
              "consistent point (evaluated once or twice), compared with IDF on fresh disciplines at (x, y*); on acyclic systems DisciplinaryOpt, "
              "MDF(MDAChain, chain_linearize=True) and IDF at the forward-evaluated couplings: values, total derivatives against a forward-accumulation oracle, "
              "IDF partials consistent with them (partial + d/dy . dy/dx; 0 for the consistency constraints); "
              "IDF(start_at_equilibrium=True | False, MDAChain with inner Gauss-Seidel / Jacobi, both normalize_constraints values) on a strongly coupled affine "
              "pair followed by a feed-forward tail, the same preceded by a head discipline, a numerically triangular cycle (feedback coefficient 0) and the three "
              "acyclic systems, 2 design-space orders each: symbolic design point and symbolic initial coupling targets (free symbols, i.e. generally not at "
              "equilibrium; the targets produced inside a non-degenerate cycle start at a symbolic consistent y*), current value of every coupling == "
              "multidisciplinary solution, design variables unchanged, consistency constraints 0 and objective / constraint == MDF's at the initial point; "
              "design-space variable sets of the three formulations on 7 coupling graphs (concrete), IDF refusing a design space without a coupling; "
              "harness mdf_jac (55 configurations): MDF objective / user constraint / observable .evaluate and .jac at a symbolic design point on 8 strongly coupled "
              "systems of 2-5 disciplines with affine strong couplings (concrete dyadic coefficients, exact Jacobians) and uninterpreted objective / constraint / "
              "weak-coupling outputs (uninterpreted partial derivatives): ring of 2 + post-coupling discipline (sellar), size-2 couplings + weak output + parameter (vec), "
              "ring of 3 with the functions inside the loop (ring3), a self-coupled discipline inside a cycle (selfc) and alone (self1), two strongly connected components "
              "in sequence (two_scc), a coupled pair with pre- and post- weakly coupled disciplines (head_pair_tail, pair_tail); coupled dimension <= 5; main MDA "
              "MDAChain(inner MDAGaussSeidel | MDAJacobi | MDANewtonRaphson), MDAGaussSeidel, MDAJacobi, MDANewtonRaphson (ring3, selfc), all warm-started at the "
              "multidisciplinary solution y*(x) (explicit exact linear combination of the symbolic inputs; one configuration with free symbols constrained by "
              "y* = Y(x, y*)); linearization_mode auto / direct / adjoint, use_lu_fact, matrix_type linear_operator; 2-3 design-space orders; objective = an output "
              "of a post-coupling discipline, of a coupled discipline, a strong coupling, a weak coupling (vector), a vector output (swap); user constraint eq / ineq / "
              "value / positive; observables; minimize_objective=False; preprocess_functions(is_function_input_normalized=True) on the MDF problem; "
              "differentiated_input_names_substitute (a subset, a permutation, a non-design parameter input); disciplines filling all / only the requested Jacobian "
              "blocks; reversed listing; Jacobian requested before the value and twice; 9 configurations with every output affine (non-trivial float64 self-test "
              "against the real SciPy); IDF built on fresh disciplines with normalize_constraints True / False, evaluated at (x, y*); "
              "harness weak_adjoint (6 configurations): the acyclic systems with MDF differentiated through the coupled adjoint (MDAChain, default "
              "chain_linearize=False, inner Gauss-Seidel / Jacobi settings, modes auto / direct / adjoint) against DisciplinaryOpt, IDF and the forward-accumulation oracle",
        thorough="same systems, full product of orders x switches; mdf_jac: every system x order x main MDA x linearization mode (rotating Krylov | LU | linear operator, "
                 "constraint kinds, normalize_constraints, requested blocks), every coupling variable as objective with another one as observable, normalized / maximised / "
                 "substitute / twice / reversed-listing / assumed-y* variants per system x order, every MDA x direct / adjoint with all-affine outputs (640 configurations; the assumed-y* variant only on the systems without weak couplings); "
                 "weak_adjoint: every acyclic system x order x 3 MDA / mode settings",
    ),
    outside=[
        "BiLevel and the other bi-level formulations; running an optimizer to compare optima (the claim is about the functions the optimizer would see)",
        "MDF total derivatives on strongly coupled systems: claimed only through the contract stubs of C07 (value-preserving dense storage for scipy.sparse, exact linear "
        "solves for SuperLU / the Krylov solvers): solver numerics (tolerances, non-convergence, fall-backs, ill-conditioning) and storage formats are outside; coupled "
        "dimension > 5, variable sizes > 2, more than 5 disciplines; strong couplings that are not affine (the partial derivatives of the strong couplings are concrete "
        "numbers; those of every other output are arbitrary - uninterpreted)",
        "MDF away from a warm start at the solution (the MDA then iterates a data-dependent number of sweeps: C06): every MDA is started at y*(x) and stops at its first "
        "convergence check, so the Newton step of MDANewtonRaphson is never taken and a change that only matters when the MDA input couplings differ from the converged "
        "ones (e.g. disciplines linearized at the MDA inputs instead of the converged data) is NOT detected; MDAQuasiNewton / MDAGSNewton / MDASequential as main MDA; "
        "single-class MDAs (MDAGaussSeidel / MDAJacobi over all the disciplines) on acyclic systems with uninterpreted disciplines (convergence within the tolerance is not "
        "exact equality)",
        "IDF with n_processes > 1 (MDOParallelChain on threads); IDF(start_at_equilibrium=True) with the default MDA settings (inner MDAJacobi on threads) "
        "and from initial targets for which the MDA needs a data-dependent number of sweeps (the MDA starts from the design-space values: targets produced inside "
        "a cycle start at a symbolic solution y*, except in the numerically triangular cycle where they are arbitrary)",
        "differentiated_input_names_substitute, observables and maximisation for IDF alone and for DisciplinaryOpt (covered for MDF, and for IDF only as the reference of "
        "the MDF comparison in mdf_jac); observables with eval_obs_jac / new-iteration observables; linear disciplines turned into MDOLinearFunction (is_linear)",
        "differentiated_input_names_substitute together with a normalized design space: gemseo scales the columns of the returned matrix position-wise by the "
        "ranges of the design variables in design-space order, whatever the substitute (a permutation gets the ranges of other variables, see "
        "tools/repro_C17_substitute_normalized.py); the documentation of the substitute is silent about normalisation, so nothing is asserted",
        "sub-scenarios as disciplines, sparse / operator partial derivatives of the leaf disciplines; self-coupled disciplines outside the harness mdf_jac",
        "normalisation of the design vector (preprocess_functions) on the IDF side and with integer variables / a database (C01); only the MDF problem is preprocessed, "
        "with use_database=False, and its Jacobian compared with the physical total derivative scaled by the concrete ranges (ub - lb)",
        "DisciplinaryOpt with the disciplines listed in an order that is not an execution (topological) order",
        "a change confined to BiLevel, to the iteration of the Newton-type MDAs, to the linear-solver selection (any solver called with the same matrix and right-hand "
        "side satisfies the contract), or to scenario / driver code is NOT detected",
        "the shape of a Jacobian with a single output component ((n,) and (1, n) are both accepted), whether IDF keeps a design variable that no discipline reads (it does)",
    ],
    stubs=[
        "gemseo.core.mdo_functions.discipline_adapter.empty -> object-dtype array of exact zeros of the same shape (symbolic mode only; every entry is overwritten)",
        "gemseo.core.discipline.discipline.csr_array -> dense object-dtype zeros of the same shape (symbolic mode only; value-preserving; chains only)",
        "module global float() in gemseo.mda.base_mda_solver -> identity on symbolic reals (MDF harness only)",
        "harness disciplines use SimpleGrammar and no cache; every MDA / parallel chain runs with n_processes=1 (z3 is not thread-safe)",
        "harnesses mdf_jac and weak_adjoint (symbolic mode only; concrete replays and the differential self-test run the real scipy.sparse / SuperLU / LGMRES): the "
        "contract stubs of harness/C07.py, imported not duplicated - jacobian_assembly.csr_matrix / csc_matrix -> DenseSparse (the same values in a dense 2-D object "
        "array), bmat -> dense placement of the given blocks, eye -> numpy.eye, empty -> exact zeros, factorized(A) and every entry of "
        "ScipyLinalgAlgos.__NAMES_TO_FUNCTIONS -> the exact solution of A x = b (adj(A) b / det(A); a LinearOperator is probed with the unit vectors through gemseo's "
        "_matvec / _rmatvec), every call re-stating the contract as obligations 'A x == b'; scipy_linalg.issparse also true for DenseSparse; jacobian_assembly.norm "
        "(log-message diagnostic of the LU modes) -> an opaque value never above the tolerance.  The behaviour of SciPy itself is outside the claim",
        "gemseo.formulations.base_formulation.zeros -> SymArray of exact zeros (symbolic mode only; unmask_x_swap_order allocates zeros(shape, dtype=object), a plain "
        "ndarray that DesignSpace.normalize_grad would cast to float64)",
    ],
    assumptions=[
        "leaf outputs are uninterpreted functions of the flattened inputs, their partial derivatives independent uninterpreted functions of the same point",
        "MDF on strongly coupled systems: coupling outputs affine with a concrete rational contraction (infinity norm < 1); the disciplines' default coupling inputs "
        "are a symbolic consistent point y* = Y(x, y*) of the evaluated design point x; the design space has no current value (MDF would overwrite the warm start)",
        "IDF normalisation as documented in IDF._get_normalization_factor: component-wise |ub - lb| of the coupling variable in the design space "
        "(ranges are powers of two in the harness, so float64 division by them is exact), 1 for a component without finite range; "
        "'vanishes only at a consistent point' is asserted for every component",
        "the layout of a function's output follows its output_names, the layout of its input vector follows design_space.variable_names",
        "equilibrium harness: the symbolic current values are installed with the public DesignSpace.set_current_variable (which does not validate, so no "
        "stub is needed); they are not constrained to lie inside the bounds",
        "a user constraint c(x) <= a (>= a when positive) is exposed in the standard form c - a <= 0 (a - c <= 0)",
        "mdf_jac: well-posed system = the residual Jacobian I - dY/dU over all coupling components is regular (true by construction: concrete contraction on the strong "
        "couplings, weak couplings triangular); 'consistent total derivatives' is read as (a) the MDF Jacobian equals dF/dx + dF/dU (I - dY/dU)^-1 dY/dx built from the "
        "disciplines' partial derivatives at (x, y*) and (b) it equals df/dx - df/dy_t (dc/dy_t)^-1 dc/dx built from the Jacobians that the IDF objective / constraint / "
        "observable and consistency constraints return at (x, y*) (Cramer's rule in the harness; dc/dy_t regular is asserted - it is the precondition of the statement)",
        "mdf_jac: minimize_objective=False exposes -f (documented: 'changes the objective function sign'); with differentiated_input_names_substitute the returned "
        "matrix holds the total derivatives w.r.t. the substitute inputs in the order of the substitute (documented in BaseFormulationSettings); with "
        "is_function_input_normalized=True the design symbols are the normalized coordinates in [0, 1] and the Jacobian is the physical one times (ub - lb) per column",
    ],
)

EXPLORER_OPTS = {"quick": dict(wall_budget_s=200.0), "thorough": dict(wall_budget_s=1500.0)}


# ------------------------------------------------------------------------------------------------
# systems: disciplines in listing order (a topological order for the acyclic ones)
#   disc = (name, {input: size}, {output: size}); lin = {output: ({input: matrix}, None)} concrete rational coefficients (MDF harness only)
#   design = design variables (not couplings); params = discipline inputs that are NOT in the design space (default value used)
# ------------------------------------------------------------------------------------------------
def _F(a, b=1):
    return Fr(a, b)


SYSTEMS = {
    "sellar": dict(
        discs=[("d1", {"x": 1, "z": 2, "y2": 1}, {"y1": 1}), ("d2", {"z": 2, "y1": 1}, {"y2": 1}),
               ("d3", {"x": 1, "z": 2, "y1": 1, "y2": 1}, {"f": 1, "g": 2})],
        lin={"d1": {"y1": {"x": [[_F(1)]], "y2": [[_F(1, 2)]], "z": [[_F(1), _F(0)]]}}, "d2": {"y2": {"y1": [[_F(-1, 3)]], "z": [[_F(0), _F(1)]]}}},
        design=["x", "z"], params=[], objective="f", constraint="g", acyclic=False,
        orders=[["x", "z", "y1", "y2"], ["y2", "x", "y1", "z"], ["y1", "u", "y2", "z", "x"]],
    ),
    "vec": dict(
        discs=[("d1", {"x": 1, "b": 2, "p": 1}, {"a": 2}), ("d2", {"a": 2, "z": 1}, {"b": 2, "c": 1}), ("d3", {"a": 2, "c": 1, "x": 1}, {"f": 1, "g": 1})],
        lin={"d1": {"a": {"b": [[_F(1, 4), _F(0)], [_F(1, 8), _F(-1, 4)]], "x": [[_F(1)], [_F(1)]], "p": [[_F(1)], [_F(0)]]}},
             "d2": {"b": {"a": [[_F(0), _F(1, 2)], [_F(-1, 3), _F(0)]], "z": [[_F(1)], [_F(-1)]]}}},
        design=["x", "z"], params=["p"], objective="f", constraint="g", acyclic=False,
        orders=[["x", "z", "a", "b", "c"], ["c", "x", "b", "a", "z"], ["b", "c", "u", "z", "a", "x"]],
    ),
    "ring3": dict(
        discs=[("d1", {"x": 1, "y3": 1}, {"y1": 1}), ("d2", {"y1": 1}, {"y2": 1}), ("d3", {"y2": 1, "z": 1}, {"y3": 1, "f": 1, "g": 1})],
        lin={"d1": {"y1": {"x": [[_F(1)]], "y3": [[_F(1, 2)]]}}, "d2": {"y2": {"y1": [[_F(1, 3)]]}}, "d3": {"y3": {"y2": [[_F(-1, 2)]], "z": [[_F(1)]]}}},
        design=["x", "z"], params=[], objective="f", constraint="g", acyclic=False,
        orders=[["x", "z", "y1", "y2", "y3"], ["y3", "z", "y1", "x", "y2"]],
    ),
    "chain": dict(
        discs=[("d1", {"x": 2}, {"a": 1}), ("d2", {"a": 1, "z": 1}, {"b": 2}), ("d3", {"x": 2, "a": 1, "b": 2, "p": 1}, {"f": 1, "g": 1})],
        lin={}, design=["x", "z"], params=["p"], objective="f", constraint="g", acyclic=True,
        orders=[["x", "z", "a", "b"], ["b", "x", "u", "a", "z"]],
    ),
    "fan": dict(
        discs=[("d1", {"x": 1}, {"a": 2}), ("d2", {"z": 1}, {"b": 1}), ("d3", {"a": 2, "b": 1, "z": 1}, {"f": 1, "g": 2})],
        lin={}, design=["x", "z"], params=[], objective="f", constraint="g", acyclic=True,
        orders=[["z", "x", "a", "b"], ["a", "z", "b", "x"]],
    ),
    # the objective is computed by the first discipline, the constraint by the last one
    "mid": dict(
        discs=[("d1", {"x": 1, "z": 1}, {"a": 1, "f": 1}), ("d2", {"a": 1, "z": 1}, {"b": 1}), ("d3", {"b": 1, "a": 1}, {"g": 1})],
        lin={}, design=["x", "z"], params=[], objective="f", constraint="g", acyclic=True,
        orders=[["x", "a", "z", "b"], ["b", "a", "u", "z", "x"]],
    ),
}

# concrete bounds per component; couplings have a different range per component.  Every range |ub - lb| is a power of two, so that the
# float64 divisions by the normalisation factor done on concrete entries (e.g. -1.0 / factor) are exact, as the real-arithmetic model assumes
BOUNDS = {
    "x": [(0.0, 1.0), (-1.0, 1.0)], "z": [(-1.0, 3.0), (0.0, 2.0)], "u": [(0.0, 1.0)],
    "y1": [(-3.0, 5.0)], "y2": [(-1.0, 1.0)], "y3": [(0.5, 4.5)],
    "a": [(-1.0, 3.0), (0.5, 2.5)], "b": [(-2.0, 2.0), (0.0, 8.0)], "c": [(-0.25, 0.25)],
    "h": [(-2.0, 2.0)], "w": [(-4.0, 4.0), (1.0, 3.0)],
}

CONSTRAINTS = {  # user constraint on the output g: (constraint_type, value, positive)
    "ineq": ("ineq", 0.0, False), "eq": ("eq", 0.0, False), "ineq_val": ("ineq", 0.25, False), "ineq_pos": ("ineq", 0.25, True), "none": None,
}


# ------------------------------------------------------------------------------------------------
# oracle side: structure of a system (never touches gemseo)
# ------------------------------------------------------------------------------------------------
def with_roles(system, cfg):
    """The system with objective and constraint outputs exchanged when cfg['swap'] (e.g. a vector objective)."""
    if cfg.get("swap", False):
        system = dict(system, objective=system["constraint"], constraint=system["objective"])
    return system


def sizes_of(system):
    s = {"u": 1}
    for (_, ins, outs) in system["discs"]:
        s.update(ins)
        s.update(outs)
    return s


def couplings_of(discs):
    """Names that are an output of one discipline and an input of one discipline (sorted)."""
    ins, outs = set(), set()
    for (_, i, o) in discs:
        ins |= set(i)
        outs |= set(o)
    return sorted(ins & outs)


def strong_couplings_of(discs):
    """Couplings produced and consumed inside a cycle of the discipline graph (explicit reachability; n <= 5)."""
    n = len(discs)
    reach = [[False] * n for _ in range(n)]
    for i, (_, _, oi) in enumerate(discs):
        for j, (_, ij, _) in enumerate(discs):
            if set(oi) & set(ij):
                reach[i][j] = True
    for k in range(n):
        for i in range(n):
            for j in range(n):
                if reach[i][k] and reach[k][j]:
                    reach[i][j] = True
    strong = set()
    for i, (_, _, oi) in enumerate(discs):
        for j, (_, ij, _) in enumerate(discs):
            for y in set(oi) & set(ij):
                if i == j or reach[j][i]:
                    strong.add(y)
    return sorted(strong)


def producer_of(discs, name):
    for d in discs:
        if name in d[2]:
            return d
    return None


def all_inputs(discs):
    s = set()
    for (_, i, _) in discs:
        s |= set(i)
    return s


def chain_inputs(discs):
    """Inputs of the sequential composition: inputs that no upstream discipline produces."""
    produced, ins = set(), []
    for (_, i, o) in discs:
        for n in i:
            if n not in produced and n not in ins:
                ins.append(n)
        produced |= set(o)
    return ins


# ------------------------------------------------------------------------------------------------
# real objects
# ------------------------------------------------------------------------------------------------
def _install_stubs(ctx, mda=False):
    if not ctx.symbolic:
        return
    import gemseo.core.discipline.discipline as dmod
    import gemseo.core.mdo_functions.discipline_adapter as da
    from symgem.core import SymArray, SymReal

    def zeros_obj(shape, *a, **k):
        z = np.empty(shape, dtype=object)
        z[...] = 0.0
        return SymArray(z)

    ctx.patch(da, "empty", zeros_obj)
    ctx.patch(dmod, "csr_array", zeros_obj)
    if mda:
        import gemseo.mda.base_mda_solver as bms

        ctx.patch(bms, "float", lambda v: v if isinstance(v, SymReal) else float(v))


def _lin_spec(ctx, system, dname):
    """``linear=`` argument of make_discipline: exact rational coefficients (floats when replaying)."""
    spec = system["lin"].get(dname)
    if not spec:
        return None
    out = {}
    for o, coeffs in spec.items():
        out[o] = ({i: [[exact_const(ctx, c) if c != 0 else 0.0 for c in row] for row in m] for i, m in coeffs.items()}, None)
    return out


def build_disciplines(ctx, system, params, linear=False, defaults=None, jac_mode="all", listing=None, no_defaults_for=()):
    """Fresh real disciplines of ``system`` (same symbol names on every call, hence the same uninterpreted functions)."""
    discs = []
    for (name, ins, outs) in system["discs"]:
        dfl = {p: ctx.array(list(v)) for p, v in params.items() if p in ins}
        for n, v in (defaults or {}).items():
            if n in ins and name not in no_defaults_for:
                dfl[n] = ctx.array(list(v))
        discs.append(make_discipline(ctx, name, ins, outs, linear=_lin_spec(ctx, system, name) if linear else None, defaults=dfl, jac_mode=jac_mode))
    if listing:
        return [discs[k] for k in listing]
    return discs


def build_symbols(ctx, system, linear=False):
    return {name: make_symbols(ctx, name, ins, outs, linear=_lin_spec(ctx, system, name) if linear else None) for (name, ins, outs) in system["discs"]}


def build_space(system, order, cbounds="finite", current=False):
    """A real DesignSpace with concrete bounds; variables in ``order``."""
    from gemseo.algos.design_space import DesignSpace

    sizes = sizes_of(system)
    cpl = couplings_of(system["discs"])
    ds = DesignSpace()
    for name in order:
        n = sizes[name]
        lb = np.array([BOUNDS[name][k][0] for k in range(n)])
        ub = np.array([BOUNDS[name][k][1] for k in range(n)])
        if name in cpl and cbounds == "unbounded":
            lb, ub = np.full(n, -INF), np.full(n, INF)
        elif name in cpl and cbounds == "lower":
            ub = np.full(n, INF)
        elif name in cpl and cbounds == "equal":
            ub = lb.copy()
        value = np.array([(BOUNDS[name][k][0] + BOUNDS[name][k][1]) / 2 + 0.125 for k in range(n)]) if current else None
        if value is not None and name in cpl and cbounds == "equal":
            value = lb.copy()
        ds.add_variable(name, size=n, lower_bound=lb, upper_bound=ub, value=value)
    return ds


def norm_factor(name, k, cbounds):
    if cbounds in ("unbounded", "lower", "equal"):
        return 1.0  # documented: the factor of a component that is unbounded (or whose bounds are equal) is 1
    lo, up = BOUNDS[name][k]
    return abs(up - lo)


def add_user_constraint(formulation, system, cfg):
    spec = CONSTRAINTS[cfg.get("constraint", "ineq")]
    if spec is None or system["constraint"] is None:
        return None
    ctype, value, positive = spec
    formulation.add_constraint(system["constraint"], constraint_type=ctype, value=value, positive=positive)
    return spec


# ------------------------------------------------------------------------------------------------
# generic checks of one function of the problem against expected scalars
# ------------------------------------------------------------------------------------------------
def obs(ctx, v):
    """Flat array of a returned scalar / array / sparse matrix, for ctx.observe."""
    if hasattr(v, "toarray"):
        v = v.toarray()
    return ctx.array(to_list(v) if isinstance(v, (np.ndarray, list, tuple)) else [_py(v)])


def check_values(ctx, label, got, exp):
    gl = to_list(got) if isinstance(got, (np.ndarray, list, tuple)) else [_py(got)]
    if len(gl) != len(exp):
        ctx.check(f"{label}: {len(gl)} components instead of {len(exp)}", ctx.false())
        return None
    for k, (g, e) in enumerate(zip(gl, exp)):
        if e is not None:
            ctx.check(f"{label}[{k}]", ctx.eq(g, e))
    return gl


def jac_rows(got, m, n):
    """The Jacobian as m rows of n python scalars, or None when the shape is not (m, n) (or (n,) for m == 1)."""
    if hasattr(got, "toarray"):
        got = got.toarray()
    shp = tuple(np.shape(got))
    ok = shp == (m, n) or (m == 1 and shp == (n,))
    if not ok:
        return None
    flat = to_list(np.asarray(_plain(got) if isinstance(got, np.ndarray) else got, dtype=object))
    return [flat[r * n:(r + 1) * n] for r in range(m)]


def check_jac(ctx, label, got, exp):
    m, n = len(exp), len(exp[0])
    rows = jac_rows(got, m, n)
    if rows is None:
        ctx.check(f"{label}: Jacobian shape {tuple(np.shape(got))} instead of {(m, n)}", ctx.false())
        return None
    ok = True
    for r in range(m):
        for c in range(n):
            if exp[r][c] is not None:
                ok = (ctx.check(f"{label}[{r},{c}]", ctx.eq(rows[r][c], exp[r][c])) is True) and ok
    return rows if ok else None  # identities derived from the rows are only stated for rows that are the expected partials


def find_function(ctx, problem, label, output_names, among):
    """The unique function of ``among`` whose output_names are ``output_names`` (as a set)."""
    hits = [f for f in among if set(f.output_names) == set(output_names)]
    ctx.check(f"{label}: exactly one function computes {sorted(output_names)} (found {len(hits)})", ctx.true() if len(hits) == 1 else ctx.false())
    return hits[0] if len(hits) == 1 else None


class Layout:
    """Columns of the design vector of a problem: variables in design-space order."""

    def __init__(self, problem, sizes):
        self.names = list(problem.design_space.variable_names)
        self.sizes = sizes
        self.cols = [(n, k) for n in self.names for k in range(sizes[n])]

    def vector(self, ctx, point):
        return ctx.array([point[n][k] for (n, k) in self.cols])


def scaled(v, factor):
    return v / factor


def function_oracle(sym, out_names, values, layout, sign=1.0, shift=0.0):
    """Expected value / Jacobian rows of the function computing ``out_names`` of the discipline ``sym`` at ``values``."""
    vals, rows = [], []
    for o in out_names:
        for k in range(sym.out_sizes[o]):
            v = sym.value(o, k, values)
            vals.append(sign * (v - shift) if (sign != 1.0 or shift != 0.0) else v)
            row = []
            for (n, j) in layout.cols:
                d = sym.partial(o, k, n, j, values) if n in sym.in_sizes else 0.0
                row.append(sign * d if sign != 1.0 else d)
            rows.append(row)
    return vals, rows


def consistency_oracle(sym, out_names, values, target, layout, normalize, cbounds):
    vals, rows, comps = [], [], []
    for o in out_names:
        for k in range(sym.out_sizes[o]):
            fac = norm_factor(o, k, cbounds) if normalize else 1.0
            y = sym.value(o, k, values)
            vals.append(scaled(y - target[o][k], fac))
            row = []
            for (n, j) in layout.cols:
                d = sym.partial(o, k, n, j, values) if n in sym.in_sizes else 0.0
                if n == o and j == k:
                    d = d - 1.0
                row.append(scaled(d, fac))
            rows.append(row)
            comps.append((o, k, y, fac))
    return vals, rows, comps


def disc_values(ins, point, params):
    return {i: (point[i] if i in point else params[i]) for i in ins}


def check_names(ctx, label, got, exp):
    ctx.check(f"{label}: {sorted(got)} == {sorted(exp)}", ctx.true() if set(got) == set(exp) and len(list(got)) == len(list(exp)) else ctx.false())


def sym_point(ctx, prefix, names, sizes):
    return {n: [ctx.real(f"{prefix}{n}{k}") for k in range(sizes[n])] for n in names}


def check_untouched(ctx, label, vec, orig):
    now = to_list(vec)
    for k, (a, b) in enumerate(zip(now, orig)):
        ctx.check(f"{label}: design vector component {k} untouched", ctx.eq(a, b))


# ------------------------------------------------------------------------------------------------
# IDF: values and partial derivatives of every function; consistency constraints vanish exactly at consistent points
# ------------------------------------------------------------------------------------------------
def check_idf_functions(ctx, pre, problem, system, syms, layout, point, params, cfg, user, order_jac_first=False, observe=True, xvec=None):
    """All functions of an IDF problem at ``point`` = {variable: [scalars]} against the oracle.  Returns {label: (values, rows)}.
    ``xvec``: the vector actually passed to the functions (default: ``point`` laid out in design-space order)."""
    discs = system["discs"]
    cpl = couplings_of(discs)
    xvec = layout.vector(ctx, point) if xvec is None else xvec
    orig = to_list(xvec)
    res = {}
    todo = []
    # objective
    d = producer_of(discs, system["objective"])
    vals, rows = function_oracle(syms[d[0]], [system["objective"]], disc_values(d[1], point, params), layout)
    todo.append(("objective", problem.objective, vals, rows, None))
    # consistency constraints: one per discipline that produces couplings, equality type
    cons = list(problem.constraints)
    n_cc = 0
    for (name, ins, outs) in discs:
        oc = [o for o in outs if o in cpl]
        if not oc:
            continue
        n_cc += 1
        f = find_function(ctx, problem, pre + f"consistency constraint of {name}", oc, cons)
        if f is None:
            continue
        ctx.check(pre + f"consistency constraint of {name} is an equality constraint", ctx.true() if str(f.f_type) == "eq" else ctx.false())
        vals, rows, comps = consistency_oracle(syms[name], list(f.output_names), disc_values(ins, point, params), point, layout, cfg["norm"], cfg.get("cbounds", "finite"))
        todo.append((f"consistency {'+'.join(f.output_names)}", f, vals, rows, comps))
    n_user = 0
    if user is not None:
        n_user = 1
        ctype, value, positive = user
        g = system["constraint"]
        f = find_function(ctx, problem, pre + "user constraint", [g], cons)
        if f is not None:
            ctx.check(pre + f"user constraint type {f.f_type} == {ctype}", ctx.true() if str(f.f_type) == ctype else ctx.false())
            d = producer_of(discs, g)
            vals, rows = function_oracle(syms[d[0]], [g], disc_values(d[1], point, params), layout, sign=-1.0 if positive else 1.0, shift=value)
            todo.append(("constraint " + g, f, vals, rows, None))
    ctx.check(pre + f"{len(cons)} constraints == {n_cc} consistency + {n_user} user", ctx.true() if len(cons) == n_cc + n_user else ctx.false())

    for (lab, f, vals, rows, comps) in todo:
        if order_jac_first:
            J = f.jac(xvec)
            J = J.copy() if isinstance(J, np.ndarray) else J
            v = f.evaluate(xvec)
        else:
            v = f.evaluate(xvec)
            v = v.copy() if isinstance(v, np.ndarray) else v
            J = f.jac(xvec)
        if observe:
            ctx.observe(pre + lab, obs(ctx, v))
            ctx.observe(pre + lab + " jac", obs(ctx, J))
        gv = check_values(ctx, pre + lab, v, vals)
        gr = check_jac(ctx, pre + lab + " jac", J, rows)
        res[lab] = (gv, gr)
        if comps is not None and gv is not None:
            # documented: "equal to zero if the disciplines are at equilibrium"; the property: and only there
            for (c, (o, k, y, fac)) in zip(gv, comps):
                consistent = ctx.eq(point[o][k], y)
                ctx.check(pre + f"{lab}: {o}[{k}] consistent => constraint component is zero", ctx.implies(consistent, ctx.eq(c, 0.0)))
                if fac != 0.0:
                    ctx.check(pre + f"{lab}: constraint component of {o}[{k}] is zero only at a consistent point", ctx.implies(ctx.eq(c, 0.0), consistent))
    check_untouched(ctx, pre + "IDF", xvec, orig)
    return res


def h_idf(ctx, cfg):
    from gemseo.formulations.idf import IDF

    _install_stubs(ctx)
    system = with_roles(SYSTEMS[cfg["system"]], cfg)
    pre = f"{cfg['system']}: "
    sizes = sizes_of(system)
    order = system["orders"][cfg["order"]]
    cpl = couplings_of(system["discs"])
    params = sym_point(ctx, "p_", system["params"], sizes)
    discs = build_disciplines(ctx, system, params, jac_mode=cfg.get("jac_mode", "all"), listing=cfg.get("listing"))
    syms = build_symbols(ctx, system)
    ds = build_space(system, order, cfg.get("cbounds", "finite"), cfg.get("current", False))
    idf = IDF(discs, system["objective"], ds, normalize_constraints=cfg["norm"])
    user = add_user_constraint(idf, system, cfg)
    problem = idf.optimization_problem

    # the design space keeps all the couplings and all the design variables the disciplines read (whether it keeps a variable that no
    # discipline reads is not asserted)
    names = list(problem.design_space.variable_names)
    used = [n for n in order if n in all_inputs(system["discs"])]
    ctx.check(pre + f"IDF design space holds all couplings {cpl}: {names}", ctx.true() if set(cpl) <= set(names) else ctx.false())
    ctx.check(pre + f"IDF design space {names} holds the variables {used} and nothing but the given ones", ctx.true() if set(used) <= set(names) <= set(order) and len(set(names)) == len(names) else ctx.false())
    layout = Layout(problem, sizes)

    p1 = sym_point(ctx, "v_", names, sizes)
    check_idf_functions(ctx, pre + "p1 ", problem, system, syms, layout, p1, params, cfg, user)
    if cfg.get("second", False):
        p2 = sym_point(ctx, "w_", names, sizes)
        check_idf_functions(ctx, pre + "p2 ", problem, system, syms, layout, p2, params, cfg, user, order_jac_first=True, observe=False)


# ------------------------------------------------------------------------------------------------
# MDF on strongly coupled linear systems warm-started at a consistent point == IDF at that point
# ------------------------------------------------------------------------------------------------
MDAS = {
    "chain_gs": dict(main_mda_name="MDAChain", main_mda_settings=dict(inner_mda_name="MDAGaussSeidel", n_processes=1)),
    "chain_jacobi": dict(main_mda_name="MDAChain", main_mda_settings=dict(inner_mda_name="MDAJacobi", inner_mda_settings=dict(n_processes=1), n_processes=1)),
    "gs": dict(main_mda_name="MDAGaussSeidel"),
    "jacobi": dict(main_mda_name="MDAJacobi", main_mda_settings=dict(n_processes=1)),
    "chain_lin": dict(main_mda_name="MDAChain", main_mda_settings=dict(chain_linearize=True, inner_mda_name="MDAGaussSeidel", n_processes=1)),
}


def check_plain_functions(ctx, pre, problem, system, syms, layout, xpoint, full_point, params, user, totals=None, observe=True, jac=False):
    """Objective and user constraint of an MDF / DisciplinaryOpt problem at ``xpoint``: values are the discipline outputs at the
    multidisciplinary point ``full_point``; Jacobians (when ``jac``) are the total derivatives ``totals`` = {output: {root: block}}."""
    discs = system["discs"]
    extra = [n for n in layout.names if n not in xpoint or (jac and n not in totals[system["objective"]])]
    if extra:
        ctx.check(pre + f"unexpected design variables {extra}: the functions cannot be evaluated on the design variables alone", ctx.false())
        return {}
    xvec = layout.vector(ctx, xpoint)
    orig = to_list(xvec)
    todo = [("objective", problem.objective, system["objective"], 1.0, 0.0)]
    cons = list(problem.constraints)
    if user is not None:
        ctype, value, positive = user
        f = find_function(ctx, problem, pre + "user constraint", [system["constraint"]], cons)
        if f is not None:
            ctx.check(pre + f"user constraint type {f.f_type} == {ctype}", ctx.true() if str(f.f_type) == ctype else ctx.false())
            todo.append(("constraint " + system["constraint"], f, system["constraint"], -1.0 if positive else 1.0, value))
    ctx.check(pre + f"{len(cons)} constraints == {0 if user is None else 1} (no consistency constraint)", ctx.true() if len(cons) == (0 if user is None else 1) else ctx.false())
    res = {}
    for (lab, f, out, sign, shift) in todo:
        d = producer_of(discs, out)
        sym = syms[d[0]]
        values = disc_values(d[1], full_point, params)
        exp = [sign * (sym.value(out, k, values) - shift) if (sign != 1.0 or shift != 0.0) else sym.value(out, k, values) for k in range(sym.out_sizes[out])]
        v = f.evaluate(xvec)
        v = v.copy() if isinstance(v, np.ndarray) else v
        if observe:
            ctx.observe(pre + lab, obs(ctx, v))
        gv = check_values(ctx, pre + lab, v, exp)
        gr = None
        if jac:
            J = f.jac(xvec)
            if observe:
                ctx.observe(pre + lab + " jac", obs(ctx, J))
            rows = []
            for k in range(sym.out_sizes[out]):
                rows.append([(sign * totals[out][n][k][j] if sign != 1.0 else totals[out][n][k][j]) for (n, j) in layout.cols])
            gr = check_jac(ctx, pre + lab + " total derivative", J, rows)
        res[lab] = (gv, gr)
    check_untouched(ctx, pre, xvec, orig)
    return res


def expected_mdf_space(system, order):
    cpl = couplings_of(system["discs"])
    used = all_inputs(system["discs"])
    return [n for n in order if n not in cpl and n in used]


def h_mdf(ctx, cfg):
    from gemseo.formulations.idf import IDF
    from gemseo.formulations.mdf import MDF

    _install_stubs(ctx, mda=True)
    system = with_roles(SYSTEMS[cfg["system"]], cfg)
    pre = f"{cfg['system']}/{cfg['mda']}: "
    sizes = sizes_of(system)
    order = system["orders"][cfg["order"]]
    cpl = couplings_of(system["discs"])
    strong = strong_couplings_of(system["discs"])
    params = sym_point(ctx, "p_", system["params"], sizes)
    syms = build_symbols(ctx, system, linear=True)

    # symbolic design point and symbolic consistent couplings y* = Y(x, y*)
    design = [n for n in order if n not in cpl]
    xp = sym_point(ctx, "v_", design, sizes)
    ystar = sym_point(ctx, "ys_", cpl, sizes)
    full = dict(xp)
    full.update(ystar)
    for (name, ins, outs) in system["discs"]:
        values = disc_values(ins, full, params)
        for o in outs:
            if o in cpl:
                for k in range(sizes[o]):
                    ctx.assume(ctx.eq(ystar[o][k], syms[name].value(o, k, values)))

    # MDF: the MDA starts from the disciplines' default couplings
    # (a discipline downstream of the coupled ones keeps zero default couplings under MDAChain: its inputs must come from the MDA)
    downstream = [d[0] for d in system["discs"] if not (set(d[2]) & set(cpl))] if cfg["mda"].startswith("chain") else []
    discs = build_disciplines(ctx, system, params, linear=True, defaults=ystar, listing=cfg.get("listing"), no_defaults_for=downstream)
    ds = build_space(system, order)
    mdf = MDF(discs, system["objective"], ds, **MDAS[cfg["mda"]])
    user = add_user_constraint(mdf, system, cfg)
    problem = mdf.optimization_problem
    names = list(problem.design_space.variable_names)
    exp_names = expected_mdf_space(system, order)
    ctx.check(pre + f"MDF design space has no strong coupling {strong}: {names}", ctx.true() if not (set(names) & set(strong)) else ctx.false())
    check_names(ctx, pre + "MDF design space = design variables read by the disciplines, no coupling", names, exp_names)
    layout = Layout(problem, sizes)
    r_mdf = check_plain_functions(ctx, pre + "MDF ", problem, system, syms, layout, xp, full, params, user)
    if cfg.get("twice", False):  # a second evaluation at the same point (the MDA restarts from the defaults: warm_start is off)
        check_plain_functions(ctx, pre + "MDF again ", problem, system, syms, layout, xp, full, params, user, observe=False)

    # IDF on fresh disciplines at (x, y*): same values, consistency constraints all zero
    discs_i = build_disciplines(ctx, system, params, linear=True)
    ds_i = build_space(system, order, current=cfg.get("current", False))
    idf = IDF(discs_i, system["objective"], ds_i, normalize_constraints=cfg.get("norm", True))
    user_i = add_user_constraint(idf, system, cfg)
    problem_i = idf.optimization_problem
    layout_i = Layout(problem_i, sizes)
    ctx.check(pre + f"IDF design space holds all couplings {cpl}", ctx.true() if set(cpl) <= set(layout_i.names) else ctx.false())
    point_i = {n: (full[n] if n in full else [ctx.real(f"v_{n}{k}") for k in range(sizes[n])]) for n in layout_i.names}
    r_idf = check_idf_functions(ctx, pre + "IDF ", problem_i, system, syms, layout_i, point_i, params, dict(cfg, norm=cfg.get("norm", True)), user_i, observe=False)
    for lab, (gv, _) in r_idf.items():
        if lab.startswith("consistency") and gv is not None:
            for k, c in enumerate(gv):
                ctx.check(pre + f"IDF {lab}[{k}] vanishes at the multidisciplinary solution", ctx.eq(c, 0.0))
        elif lab in r_mdf and gv is not None and r_mdf[lab][0] is not None:
            for k, (a, b) in enumerate(zip(r_mdf[lab][0], gv)):
                ctx.check(pre + f"MDF {lab}[{k}] == IDF {lab}[{k}] at the consistent point", ctx.eq(a, b))


# ------------------------------------------------------------------------------------------------
# acyclic systems: DisciplinaryOpt, MDF and IDF agree on values; total derivatives are the chain rule; IDF partials are consistent
# ------------------------------------------------------------------------------------------------
def _zeros(m, n):
    return [[0.0] * n for _ in range(m)]


def _is_zero(v):
    return isinstance(v, (int, float)) and v == 0


def forward(system, syms, xp, params, roots):
    """Forward evaluation + accumulation: {name: (values, {root: d name / d root})} for every variable of an acyclic system."""
    sizes = sizes_of(system)
    env = {}
    for r in roots:
        D = {q: _zeros(sizes[r], sizes[q]) for q in roots}
        for k in range(sizes[r]):
            D[r][k][k] = 1.0
        env[r] = (list(xp[r]), D)
    for p, v in params.items():
        env[p] = (list(v), {q: _zeros(sizes[p], sizes[q]) for q in roots})
    for (name, ins, outs) in system["discs"]:
        sym = syms[name]
        values = {i: env[i][0] for i in ins}
        for o, so in outs.items():
            vals = [sym.value(o, k, values) for k in range(so)]
            D = {}
            for r in roots:
                acc = _zeros(so, sizes[r])
                for i in ins:
                    B = sym.block(o, i, values)
                    Di = env[i][1][r]
                    for k in range(so):
                        for j in range(sizes[i]):
                            if _is_zero(B[k][j]):
                                continue
                            for c in range(sizes[r]):
                                if _is_zero(Di[j][c]):
                                    continue
                                acc[k][c] = acc[k][c] + B[k][j] * Di[j][c]
                D[r] = acc
            env[o] = (vals, D)
    return env


def h_weak(ctx, cfg):
    from gemseo.formulations.disciplinary_opt import DisciplinaryOpt
    from gemseo.formulations.idf import IDF
    from gemseo.formulations.mdf import MDF

    # cfg["mdf_mda"] (harness weak_adjoint): MDF differentiates through the coupled adjoint (MDAChain with the default chain_linearize=False, or a
    # single MDA class) instead of the chain rule of its MDOChain; needs the contract stubs of C07
    if cfg.get("mdf_mda"):
        _install_jac_stubs(ctx)
    else:
        _install_stubs(ctx, mda=True)
    system = with_roles(SYSTEMS[cfg["system"]], cfg)
    pre = f"{cfg['system']}: "
    sizes = sizes_of(system)
    order = system["orders"][cfg["order"]]
    cpl = couplings_of(system["discs"])
    params = sym_point(ctx, "p_", system["params"], sizes)
    syms = build_symbols(ctx, system)
    roots = [n for n in order if n not in cpl and n in all_inputs(system["discs"])]
    xp = sym_point(ctx, "v_", [n for n in order if n not in cpl], sizes)
    env = forward(system, syms, xp, params, roots)
    full = {n: env[n][0] for n in env if n not in params}
    for n in xp:
        full.setdefault(n, xp[n])
    totals = {o: env[o][1] for o in (system["objective"], system["constraint"])}
    jm = cfg.get("jac_mode", "all")
    results = {}

    for which in cfg["formulations"]:
        if which == "idf":
            continue
        discs = build_disciplines(ctx, system, params, jac_mode=jm, listing=cfg.get("listing") if which == "mdf" else None)
        ds = build_space(system, order, current=cfg.get("current", False))
        if which == "dopt":
            fo = DisciplinaryOpt(discs, system["objective"], ds)
            exp_names = [n for n in order if n in chain_inputs(system["discs"])]
        else:
            fo = MDF(discs, system["objective"], ds, **MDAS[cfg.get("mdf_mda", "chain_lin")])
            if cfg.get("mode"):
                fo.mda.linearization_mode = cfg["mode"]
            exp_names = expected_mdf_space(system, order)
        user = add_user_constraint(fo, system, cfg)
        problem = fo.optimization_problem
        names = list(problem.design_space.variable_names)
        lab = {"dopt": "DisciplinaryOpt", "mdf": "MDF"}[which]
        ctx.check(pre + f"{lab} design space has no coupling {cpl}: {names}", ctx.true() if not (set(names) & set(cpl)) else ctx.false())
        check_names(ctx, pre + f"{lab} design space = design variables read by the disciplines", names, exp_names)
        layout = Layout(problem, sizes)
        results[which] = check_plain_functions(ctx, pre + lab + " ", problem, system, syms, layout, xp, full, params, user, totals=totals, jac=True)

    if "idf" in cfg["formulations"]:
        discs = build_disciplines(ctx, system, params, jac_mode=jm, listing=cfg.get("listing"))
        ds = build_space(system, order, current=cfg.get("current", False))
        idf = IDF(discs, system["objective"], ds, normalize_constraints=cfg.get("norm", True))
        user = add_user_constraint(idf, system, cfg)
        problem = idf.optimization_problem
        layout = Layout(problem, sizes)
        ctx.check(pre + f"IDF design space holds all couplings {cpl}", ctx.true() if set(cpl) <= set(layout.names) else ctx.false())
        # IDF at the consistent point: target couplings = the couplings of the forward evaluation
        point = {n: (full[n] if n in full else [ctx.real(f"v_{n}{k}") for k in range(sizes[n])]) for n in layout.names}
        r_idf = check_idf_functions(ctx, pre + "IDF ", problem, system, syms, layout, point, params, dict(cfg, norm=cfg.get("norm", True)), user, observe=False)
        col = {c: i for i, c in enumerate(layout.cols)}
        for lab, (gv, gr) in r_idf.items():
            if lab.startswith("consistency"):
                if gv is not None:
                    for k, c in enumerate(gv):
                        ctx.check(pre + f"IDF {lab}[{k}] vanishes at the multidisciplinary solution", ctx.eq(c, 0.0))
                exp_total = None
            else:
                out = system["objective"] if lab == "objective" else system["constraint"]
                sign = -1.0 if (lab != "objective" and user is not None and user[2]) else 1.0
                exp_total = {(k, r, j): (sign * totals[out][r][k][j] if sign != 1.0 else totals[out][r][k][j]) for k in range(sizes[out]) for r in roots for j in range(sizes[r])}
                for other in ("dopt", "mdf"):
                    if other in results and lab in results[other] and gv is not None and results[other][lab][0] is not None:
                        for k, (a, b) in enumerate(zip(results[other][lab][0], gv)):
                            ctx.check(pre + f"{other} {lab}[{k}] == IDF {lab}[{k}] at the consistent point", ctx.eq(a, b))
            if gr is None:
                continue
            # total derivative from IDF's partials: d/dx + sum_y d/dy * dy/dx  (= 0 for the consistency constraints)
            for k, row in enumerate(gr):
                for r in roots:
                    for j in range(sizes[r]):
                        acc = row[col[(r, j)]]
                        for y in cpl:
                            for m in range(sizes[y]):
                                dy = env[y][1][r][m][j]
                                if _is_zero(dy) or _is_zero(row[col[(y, m)]]):
                                    continue
                                acc = acc + row[col[(y, m)]] * dy
                        target = 0.0 if exp_total is None else exp_total[(k, r, j)]
                        ctx.check(pre + f"IDF {lab}[{k}]: partial + d/dy . dy/d{r}[{j}] == total derivative", ctx.eq(acc, target))


# ------------------------------------------------------------------------------------------------
# IDF(start_at_equilibrium=True): every coupling target of the design space starts at the multidisciplinary solution
# ------------------------------------------------------------------------------------------------
EQ_SYSTEMS = {
    # strongly coupled affine pair followed by a feed-forward tail (w = Post(y1, y2, z)) and the objective discipline
    "pair_tail": dict(
        discs=[("d1", {"x": 1, "z": 2, "y2": 1}, {"y1": 1}), ("d2", {"z": 2, "y1": 1}, {"y2": 1}), ("post", {"y1": 1, "y2": 1, "z": 2}, {"w": 2}),
               ("obj", {"w": 2, "x": 1}, {"f": 1, "g": 1})],
        lin=SYSTEMS["sellar"]["lin"], design=["x", "z"], params=[], objective="f", constraint="g", acyclic=False,
        orders=[["x", "z", "y1", "y2", "w"], ["w", "y2", "x", "y1", "z"]],
    ),
    # ... preceded by a head discipline (h = Head(x)) feeding the pair
    "head_pair_tail": dict(
        discs=[("head", {"x": 1, "p": 1}, {"h": 1}), ("d1", {"h": 1, "y2": 1}, {"y1": 1}), ("d2", {"y1": 1, "z": 2}, {"y2": 1}), ("post", {"y1": 1, "y2": 1}, {"w": 2}),
               ("obj", {"w": 2, "h": 1, "z": 2}, {"f": 1, "g": 1})],
        lin={"d1": {"y1": {"h": [[_F(1)]], "y2": [[_F(1, 2)]]}}, "d2": {"y2": {"y1": [[_F(-1, 4)]], "z": [[_F(1), _F(-1)]]}}},
        design=["x", "z"], params=["p"], objective="f", constraint="g", acyclic=False,
        orders=[["x", "z", "h", "y1", "y2", "w"], ["w", "y1", "z", "h", "u", "y2", "x"]],
    ),
    # a cycle of the coupling graph whose feedback coefficient is 0 (y1 does not depend on y2 numerically): Gauss-Seidel reaches the exact
    # solution in one sweep from ANY start, so the initial coupling targets of the cycle can be arbitrary symbols as well
    "tri_tail": dict(
        discs=[("d1", {"x": 1, "y2": 1}, {"y1": 1}), ("d2", {"y1": 1, "z": 2}, {"y2": 1}), ("post", {"y1": 1, "y2": 1}, {"w": 2}), ("obj", {"w": 2, "x": 1}, {"f": 1, "g": 1})],
        lin={"d1": {"y1": {"x": [[_F(2)]], "y2": [[_F(0)]]}}, "d2": {"y2": {"y1": [[_F(1, 2)]], "z": [[_F(1), _F(1)]]}}},
        design=["x", "z"], params=[], objective="f", constraint="g", acyclic=False,
        orders=[["x", "z", "y1", "y2", "w"], ["y2", "w", "x", "y1", "z"]],
    ),
    "chain": SYSTEMS["chain"], "fan": SYSTEMS["fan"], "mid": SYSTEMS["mid"],
}

EQ_MDAS = {  # settings of the MDAChain run by IDF (the default inner MDA is a threaded MDAJacobi: z3 is not thread-safe)
    "gs": dict(inner_mda_name="MDAGaussSeidel", n_processes=1),
    "jacobi": dict(inner_mda_name="MDAJacobi", inner_mda_settings=dict(n_processes=1), n_processes=1),
}


def solution_oracle(ctx, system, syms, xp, params, start):
    """The multidisciplinary solution at the design point ``xp``: {variable: [scalars]} for every variable.

    Couplings produced inside a cycle: symbols y* assumed consistent (y* = Y(x, y*)), or - when ``start`` is None (cold start of a
    numerically triangular cycle) - their explicit forward values; every other output: forward evaluation in listing order."""
    sizes = sizes_of(system)
    discs = system["discs"]
    strong = strong_couplings_of(discs)
    full = dict(xp)
    if start is not None:
        for y in strong:
            full[y] = list(start[y])
    for (name, ins, outs) in discs:
        for o in outs:
            if o in strong and start is not None:
                continue
            values = {i: (full[i] if i in full else (params[i] if i in params else [0.0] * sizes[i])) for i in ins}  # (zero: a coefficient-0 feedback)
            full[o] = [syms[name].value(o, k, values) for k in range(sizes[o])]
    if start is not None:
        for (name, ins, outs) in discs:
            for o in outs:
                if o in strong:
                    values = disc_values(ins, full, params)
                    for k in range(sizes[o]):
                        ctx.assume(ctx.eq(full[o][k], syms[name].value(o, k, values)))
    return full


def h_equilibrium(ctx, cfg):
    from gemseo.formulations.idf import IDF
    from gemseo.formulations.mdf import MDF

    _install_stubs(ctx, mda=True)
    system = with_roles(EQ_SYSTEMS[cfg["system"]], cfg)
    pre = f"{cfg['system']}: "
    sizes = sizes_of(system)
    order = system["orders"][cfg["order"]]
    discs_t = system["discs"]
    cpl = couplings_of(discs_t)
    strong = strong_couplings_of(discs_t)
    linear = bool(system["lin"])
    params = sym_point(ctx, "p_", system["params"], sizes)
    syms = build_symbols(ctx, system, linear=linear)
    at_eq = cfg.get("start_at_equilibrium", True)

    # initial design-space values: symbolic design point; symbolic, generally NON-equilibrium coupling targets t0.  With cfg["start"] ==
    # "warm" the targets of the couplings produced inside a cycle start at a symbolic consistent y* (the MDA run by IDF starts from the
    # design-space values, not from the disciplines' defaults, and must stop at once to stay decidable); all other targets are free.
    design = [n for n in order if n not in cpl]
    xp = sym_point(ctx, "v_", design, sizes)
    t0 = sym_point(ctx, "t_", cpl, sizes)
    warm = cfg.get("start", "warm") == "warm" and bool(strong)
    sol = solution_oracle(ctx, system, syms, xp, params, {y: t0[y] for y in strong} if warm else None)

    def space():
        ds = build_space(system, order, current=True)
        for n in order:  # public API, no validation of the value: symbols are accepted
            ds.set_current_variable(n, ctx.array(list(xp[n] if n in xp else t0[n])))
        return ds

    discs = build_disciplines(ctx, system, params, linear=linear, jac_mode=cfg.get("jac_mode", "all"), listing=cfg.get("listing"))
    kw = dict(start_at_equilibrium=True, mda_chain_settings_for_start_at_equilibrium=EQ_MDAS[cfg.get("mda", "gs")]) if at_eq else {}
    idf = IDF(discs, system["objective"], space(), normalize_constraints=cfg["norm"], **kw)
    user = add_user_constraint(idf, system, cfg)
    problem = idf.optimization_problem
    layout = Layout(problem, sizes)
    ctx.check(pre + f"IDF design space holds all couplings {cpl}", ctx.true() if set(cpl) <= set(layout.names) else ctx.false())
    current = problem.design_space.get_current_value(as_dict=True)
    for n in layout.names:
        got = to_list(current[n])
        ctx.observe(pre + f"current {n}", obs(ctx, current[n]))
        if n in cpl and at_eq:
            exp, what = sol[n], "starts at the multidisciplinary solution"
        elif n in cpl:
            exp, what = t0[n], "initial target left untouched (start_at_equilibrium=False)"
        else:
            exp, what = xp[n], "design variable keeps its value"
        if len(got) != sizes[n]:
            ctx.check(pre + f"current value of {n}: size {len(got)} != {sizes[n]}", ctx.false())
            continue
        for k in range(sizes[n]):
            ctx.check(pre + f"{n}[{k}]: {what}", ctx.eq(got[k], exp[k]))
    if not at_eq:
        return

    # at the initial point of the design space: the consistency constraints vanish, objective / constraint are MDF's at the same design point
    x0 = problem.design_space.get_current_value()
    point = {n: (sol[n] if n in sol else xp[n]) for n in layout.names}
    r_idf = check_idf_functions(ctx, pre + "IDF at the initial point: ", problem, system, syms, layout, point, params, cfg, user, observe=False, xvec=x0)
    for lab, (gv, _) in r_idf.items():
        if lab.startswith("consistency") and gv is not None:
            for k, c in enumerate(gv):
                ctx.check(pre + f"IDF {lab}[{k}] vanishes at the initial point", ctx.eq(c, 0.0))
    # MDF on fresh disciplines (MDA warm-started at the solution through the default inputs, as in the mdf harness)
    downstream = [d[0] for d in discs_t if not (set(d[2]) & set(strong))]
    discs_m = build_disciplines(ctx, system, params, linear=linear, defaults={y: sol[y] for y in strong}, no_defaults_for=downstream)
    mdf = MDF(discs_m, system["objective"], build_space(system, order), **MDAS["chain_gs"])
    user_m = add_user_constraint(mdf, system, cfg)
    layout_m = Layout(mdf.optimization_problem, sizes)
    r_mdf = check_plain_functions(ctx, pre + "MDF ", mdf.optimization_problem, system, syms, layout_m, xp, sol, params, user_m, observe=False)
    for lab, (gv, _) in r_idf.items():
        if lab in r_mdf and gv is not None and r_mdf[lab][0] is not None:
            for k, (a, b) in enumerate(zip(r_mdf[lab][0], gv)):
                ctx.check(pre + f"MDF {lab}[{k}] == IDF {lab}[{k}] at the initial point", ctx.eq(a, b))


# ------------------------------------------------------------------------------------------------
# design-space variable sets on several coupling graphs (concrete)
# ------------------------------------------------------------------------------------------------
GRAPHS = {
    "sellar": SYSTEMS["sellar"], "vec": SYSTEMS["vec"], "ring3": SYSTEMS["ring3"], "chain": SYSTEMS["chain"], "fan": SYSTEMS["fan"], "mid": SYSTEMS["mid"],
    # two strongly connected components and a weakly coupled tail
    "two_scc": dict(
        discs=[("d1", {"x": 1, "y2": 1}, {"y1": 1}), ("d2", {"y1": 1}, {"y2": 1}), ("d3", {"y2": 1, "y3": 1, "z": 1}, {"a": 1}), ("d4", {"a": 1}, {"y3": 1}),
               ("d5", {"y3": 1, "x": 1}, {"f": 1, "g": 1})],
        lin={}, design=["x", "z"], params=[], objective="f", constraint="g", acyclic=False, orders=[["x", "y1", "u", "y2", "z", "y3", "a"]],
    ),
}


def h_spaces(ctx, cfg):
    from gemseo.formulations.disciplinary_opt import DisciplinaryOpt
    from gemseo.formulations.idf import IDF
    from gemseo.formulations.mdf import MDF

    system = GRAPHS[cfg["graph"]]
    pre = f"{cfg['graph']}: "
    order = system["orders"][-1]
    cpl = couplings_of(system["discs"])
    strong = strong_couplings_of(system["discs"])
    params = {p: [0.5] * sizes_of(system)[p] for p in system["params"]}

    def fresh():
        return build_disciplines(ctx, system, params)

    idf = IDF(fresh(), system["objective"], build_space(system, order))
    names = list(idf.optimization_problem.design_space.variable_names)
    ctx.check(pre + f"IDF keeps all couplings {cpl}: {names}", ctx.true() if set(cpl) <= set(names) else ctx.false())
    ctx.check(pre + f"IDF keeps all design variables {system['design']}: {names}", ctx.true() if set(system["design"]) <= set(names) else ctx.false())
    ctx.check(pre + f"IDF has one consistency constraint per coupling-producing discipline", ctx.true() if
              sorted(sorted(c.output_names) for c in idf.optimization_problem.constraints) == sorted(sorted(o for o in d[2] if o in cpl) for d in system["discs"] if set(d[2]) & set(cpl))
              else ctx.false())
    # a missing coupling variable is refused (couplings are required)
    for missing in cpl:
        try:
            IDF(fresh(), system["objective"], build_space(system, [n for n in order if n != missing]))
            ok = False
        except ValueError:
            ok = True
        ctx.check(pre + f"IDF without the coupling {missing} in the design space is refused", ctx.true() if ok else ctx.false())
    for key in ("chain_gs", "gs", "jacobi"):
        mdf = MDF(fresh(), system["objective"], build_space(system, order), **MDAS[key])
        names = list(mdf.optimization_problem.design_space.variable_names)
        ctx.check(pre + f"MDF/{key} design space has no strong coupling {strong}: {names}", ctx.true() if not (set(names) & set(strong)) else ctx.false())
        check_names(ctx, pre + f"MDF/{key} design space = design variables read by the disciplines, no coupling", names, expected_mdf_space(system, order))
        ctx.check(pre + f"MDF/{key} has no constraint of its own", ctx.true() if len(mdf.optimization_problem.constraints) == 0 else ctx.false())
    if system["acyclic"]:
        do = DisciplinaryOpt(fresh(), system["objective"], build_space(system, order))
        names = list(do.optimization_problem.design_space.variable_names)
        check_names(ctx, pre + "DisciplinaryOpt design space = inputs of the chain among the given variables", names, [n for n in order if n in chain_inputs(system["discs"])])
    ctx.observe("done", [1.0])


# ------------------------------------------------------------------------------------------------
# MDF total derivatives on STRONGLY coupled systems (coupled adjoint, with the contract stubs of C07) == implicit-function closed form
# == the reduced derivative computed from the Jacobian blocks that the real IDF problem returns at (x, y*)
# ------------------------------------------------------------------------------------------------
JAC_SYSTEMS = {
    "sellar": SYSTEMS["sellar"], "vec": SYSTEMS["vec"], "ring3": SYSTEMS["ring3"],
    "pair_tail": EQ_SYSTEMS["pair_tail"], "head_pair_tail": EQ_SYSTEMS["head_pair_tail"],
    # a self-coupled discipline (y1 is an input and an output of d1) inside a cycle with d2
    "selfc": dict(
        discs=[("d1", {"x": 1, "y1": 1, "y2": 1}, {"y1": 1}), ("d2", {"y1": 1, "z": 2}, {"y2": 1, "f": 1, "g": 1})],
        lin={"d1": {"y1": {"x": [[_F(1)]], "y1": [[_F(1, 4)]], "y2": [[_F(1, 2)]]}}, "d2": {"y2": {"y1": [[_F(-1, 2)]], "z": [[_F(1), _F(1, 2)]]}}},
        design=["x", "z"], params=[], objective="f", constraint="g", acyclic=False,
        orders=[["x", "z", "y1", "y2"], ["y2", "z", "u", "y1", "x"]],
    ),
    # a self-coupled discipline alone, followed by the objective discipline
    "self1": dict(
        discs=[("d1", {"x": 1, "y1": 1, "z": 2}, {"y1": 1}), ("d3", {"y1": 1, "x": 1}, {"f": 1, "g": 2})],
        lin={"d1": {"y1": {"x": [[_F(2)]], "y1": [[_F(-1, 2)]], "z": [[_F(1), _F(-1)]]}}},
        design=["x", "z"], params=[], objective="f", constraint="g", acyclic=False,
        orders=[["x", "z", "y1"], ["y1", "z", "x"]],
    ),
    # two strongly connected components in sequence ((d1, d2) then (d3, d4)) and a weakly coupled tail
    "two_scc": dict(
        discs=[("d1", {"x": 1, "y2": 1}, {"y1": 1}), ("d2", {"y1": 1, "z": 2}, {"y2": 1}), ("d3", {"y2": 1, "y3": 1, "z": 2}, {"a": 1}), ("d4", {"a": 1, "x": 1}, {"y3": 1}),
               ("d5", {"y3": 1, "y1": 1, "x": 1}, {"f": 1, "g": 1})],
        lin={"d1": {"y1": {"x": [[_F(1)]], "y2": [[_F(1, 2)]]}}, "d2": {"y2": {"y1": [[_F(-1, 4)]], "z": [[_F(1), _F(0)]]}},
             "d3": {"a": {"y2": [[_F(1)]], "y3": [[_F(1, 2)]], "z": [[_F(0), _F(1)]]}}, "d4": {"y3": {"a": [[_F(1, 2)]], "x": [[_F(-1)]]}}},
        design=["x", "z"], params=[], objective="f", constraint="g", acyclic=False,
        orders=[["x", "z", "y1", "y2", "y3", "a"], ["a", "y3", "z", "y2", "x", "y1"]],
    ),
}

JAC_MDAS = dict(
    MDAS,
    chain_newton=dict(main_mda_name="MDAChain", main_mda_settings=dict(inner_mda_name="MDANewtonRaphson", inner_mda_settings=dict(n_processes=1), n_processes=1)),
    newton=dict(main_mda_name="MDANewtonRaphson", main_mda_settings=dict(n_processes=1)),  # (refuses weakly coupled disciplines: ring3 / selfc only)
)


def explicit_solution(ctx, system, xp, params, syms):
    """The multidisciplinary solution at the design point ``xp`` with the strong couplings as EXPLICIT exact linear combinations of the other
    inputs of their (affine, concrete rational) disciplines - rational Gauss-Jordan elimination in the harness, as C07.consistent_point -
    instead of symbols constrained by assumptions: the arguments of the uninterpreted outputs / partial derivatives are then plain linear
    terms of the inputs, which the simplifier normalises (no congruence reasoning under hypotheses is needed).
    Weak couplings: forward evaluation.  (Systems where a weak coupling read by a strongly coupled discipline depends itself on a strong coupling
    are not handled.)"""
    discs = system["discs"]
    sizes = sizes_of(system)
    strong = strong_couplings_of(discs)
    full = {n: list(v) for n, v in xp.items()}
    full.update({n: list(v) for n, v in params.items()})

    def forward():
        for (name, ins, outs) in discs:
            for o in outs:
                if o not in strong and o not in full and all(i in full for i in ins):
                    full[o] = [syms[name].value(o, k, {i: full[i] for i in ins}) for k in range(sizes[o])]

    forward()
    unknowns = [(y, k) for y in strong for k in range(sizes[y])]
    nu = len(unknowns)
    terms = []   # the scalar terms (design variables, parameters, upstream weak couplings) the strong couplings depend on
    M = [[Fr(int(r == c)) for c in range(nu)] for r in range(nu)]
    B = [dict() for _ in range(nu)]
    for r, (o, k) in enumerate(unknowns):
        d = producer_of(discs, o)
        coeffs = system["lin"][d[0]][o]
        for i, mat in coeffs.items():
            for j in range(sizes[i]):
                c = Fr(mat[k][j])
                if c == 0:
                    continue
                if (i, j) in unknowns:
                    M[r][unknowns.index((i, j))] -= c
                else:
                    if i not in full:
                        raise ValueError(f"explicit_solution: input {i} of {d[0]} is not available before the strong couplings")
                    if (i, j) not in terms:
                        terms.append((i, j))
                    B[r][(i, j)] = B[r].get((i, j), Fr(0)) + c
    rows = [M[r] + [B[r].get(t, Fr(0)) for t in terms] for r in range(nu)]
    for c in range(nu):  # Gauss-Jordan with exact fractions
        piv = next(r for r in range(c, nu) if rows[r][c] != 0)
        rows[c], rows[piv] = rows[piv], rows[c]
        rows[c] = [v / rows[c][c] for v in rows[c]]
        for r in range(nu):
            if r != c and rows[r][c] != 0:
                f = rows[r][c]
                rows[r] = [a - f * b for a, b in zip(rows[r], rows[c])]
    for r, (o, k) in enumerate(unknowns):
        acc = 0.0
        for q, (i, j) in enumerate(terms):
            c = rows[r][nu + q]
            if c != 0:
                acc = acc + exact_const(ctx, c) * full[i][j]
        full.setdefault(o, []).append(acc)
    forward()
    forward()
    missing = [n for n in sizes if n != "u" and n not in full]
    if missing:
        raise ValueError(f"explicit_solution: {missing} not computed")
    return {n: v for n, v in full.items() if n not in params}


def with_affine_outputs(system):
    """The system with ALL outputs affine (concrete dyadic coefficients for the objective / constraint / weak-coupling outputs as well): every
    partial derivative is then a concrete non-zero number, so that the float64 self-test (real scipy.sparse / SuperLU / LGMRES, no stub) solves
    non-trivial linear systems with non-trivial right-hand sides on the very same code path."""
    lin = {d: dict(v) for d, v in system["lin"].items()}
    for (name, ins, outs) in system["discs"]:
        for o, so in outs.items():
            if o in lin.get(name, {}):
                continue
            lin.setdefault(name, {})[o] = {i: [[_F(((3 * k + 5 * j + 2 * len(i) + ord(o[0]) + len(name)) % 7) - 3 or 2, 4) for j in range(si)] for k in range(so)] for i, si in ins.items()}
    return dict(system, lin=lin)


def _install_jac_stubs(ctx):
    """The float64-constructor stubs of this module plus the contract stubs of C07 (scipy.sparse containers, bmat, exact linear solves)."""
    from harness.C07 import install_stubs

    _install_stubs(ctx, mda=True)
    install_stubs(ctx)
    if ctx.symbolic:
        import gemseo.formulations.base_formulation as bf
        from symgem.core import SymArray

        def zeros_sym(shape, *a, **k):  # unmask_x_swap_order: zeros(shape, dtype=object) is a plain ndarray, which DesignSpace.normalize_grad would cast to float64
            z = np.empty(shape, dtype=object)
            z[...] = 0.0
            return SymArray(z)

        ctx.patch(bf, "zeros", zeros_sym)


def _cz(v):
    """A symbolic constant that is exactly zero -> the python 0.0 (structural zero of the Laplace expansions)."""
    from harness.C07 import _const0

    return _const0(v)


def implicit_totals(ctx, label, system, syms, sol, params, roots, outs):
    """Oracle (a), never touches gemseo: {output: {root: nested list}} = dF/dx + dF/dU . dU/dx with (I - dY/dU) dU/dx = dY/dx over ALL coupling
    components U (R = U - Y(x, U)), solved by Cramer's rule (Laplace expansion of C07's oracle) on the partial derivatives of the disciplines
    at the multidisciplinary point ``sol``."""
    from harness.C07 import _det

    discs = system["discs"]
    sizes = sizes_of(system)
    cpl = couplings_of(discs)
    unknowns = [(y, k) for y in cpl for k in range(sizes[y])]
    nu = len(unknowns)

    def part(o, k, v, j):
        d = producer_of(discs, o)
        if v not in d[1]:
            return 0.0
        return _cz(syms[d[0]].partial(o, k, v, j, disc_values(d[1], sol, params)))

    A = [[0.0] * nu for _ in range(nu)]
    for r, (o, k) in enumerate(unknowns):
        for c, (v, j) in enumerate(unknowns):
            p = part(o, k, v, j)
            if r == c:
                A[r][c] = 1.0 if _is_zero(p) else 1.0 - p
            else:
                A[r][c] = 0.0 if _is_zero(p) else -p
    det = _det(A)
    # well-posed system: the residual Jacobian is regular (true by construction of the systems: a concrete contraction on the strong couplings)
    ctx.assume(ctx.not_(ctx.eq(det, 0.0)))
    dU = {}
    for x in roots:
        for j in range(sizes[x]):
            rhs = [part(o, k, x, j) for (o, k) in unknowns]
            for c in range(nu):
                if all(_is_zero(v) for v in rhs):
                    dU[(unknowns[c], x, j)] = 0.0
                    continue
                Ac = [[rhs[r] if q == c else A[r][q] for q in range(nu)] for r in range(nu)]
                dU[(unknowns[c], x, j)] = _det(Ac) / det
    tot = {}
    for o in outs:
        tot[o] = {}
        for x in roots:
            rows = []
            for k in range(sizes[o]):
                row = []
                for j in range(sizes[x]):
                    if o in cpl:
                        row.append(dU[((o, k), x, j)])
                        continue
                    acc = part(o, k, x, j)
                    for (v, q) in unknowns:
                        b = part(o, k, v, q)
                        if _is_zero(b) or _is_zero(dU[((v, q), x, j)]):
                            continue
                        acc = acc + b * dU[((v, q), x, j)]
                    row.append(acc)
                rows.append(row)
            tot[o][x] = rows
    return tot


def reduced_idf_rows(ctx, label, Jf, Jc, xcols, ycols):
    """Obligation (b), from the blocks the REAL IDF returned: rows of  df/dx - df/dy_t (dc/dy_t)^-1 dc/dx  (Cramer's rule), one column per
    entry of ``xcols``; ``Jf`` / ``Jc`` are lists of rows over the IDF design vector, ``ycols`` the columns of the coupling targets.
    Returns None when dc/dy_t is not square or singular (reported)."""
    from harness.C07 import _det

    ny = len(ycols)
    if len(Jc) != ny:
        ctx.check(label + f": {len(Jc)} consistency constraint components for {ny} coupling target components", ctx.false())
        return None
    A = [[_cz(Jc[r][c]) for c in ycols] for r in range(ny)]
    det = _det(A)
    if ctx.check(label + ": the Jacobian of the IDF consistency constraints w.r.t. the coupling targets is regular at the solution of a well-posed system",
                 ctx.not_(ctx.eq(det, 0.0))) is not True:
        return None
    rows = []
    for k in range(len(Jf)):
        row = []
        for xc in xcols:
            rhs = [_cz(Jc[r][xc]) for r in range(ny)]
            acc = Jf[k][xc]
            if not all(_is_zero(v) for v in rhs):
                for m, yc in enumerate(ycols):
                    b = _cz(Jf[k][yc])
                    if _is_zero(b):
                        continue
                    Am = [[rhs[r] if q == m else A[r][q] for q in range(ny)] for r in range(ny)]
                    dm = _det(Am)
                    if _is_zero(dm):
                        continue
                    acc = acc - b * (dm / det)
            row.append(acc)
        rows.append(row)
    return rows


def _functions_of(ctx, pre, problem, roles):
    """[(label, function, output name, sign, shift)] of a problem for the roles {objective: (name, sign), constraint: (name, spec), observable: name}."""
    todo = [("objective", problem.objective, roles["objective"][0], roles["objective"][1], 0.0)]
    if roles.get("constraint"):
        g, (ctype, value, positive) = roles["constraint"]
        f = find_function(ctx, problem, pre + "user constraint", [g], list(problem.constraints))
        if f is not None:
            todo.append(("constraint " + g, f, g, -1.0 if positive else 1.0, value))
    if roles.get("observable"):
        o = roles["observable"]
        f = find_function(ctx, problem, pre + "observable", [o], list(problem.observables))
        if f is not None:
            todo.append(("observable " + o, f, o, 1.0, 0.0))
    return todo


def _signed(v, sign, shift=0.0):
    if shift != 0.0:
        v = v - shift
    return sign * v if sign != 1.0 else v


def h_mdf_jac(ctx, cfg):
    from gemseo.formulations.idf import IDF
    from gemseo.formulations.mdf import MDF

    _install_jac_stubs(ctx)
    system = dict(with_roles(JAC_SYSTEMS[cfg["system"]], cfg))
    for role in ("objective", "constraint"):  # output choices: cfg["objective_name"] / cfg["constraint_name"] override the system's
        if cfg.get(role + "_name"):
            system[role] = cfg[role + "_name"]
    if cfg.get("affine_outputs", False):
        system = with_affine_outputs(system)
    pre = f"{cfg['system']}/{cfg['mda']}: "
    sizes = sizes_of(system)
    order = system["orders"][cfg["order"]]
    discs_t = system["discs"]
    cpl = couplings_of(discs_t)
    strong = strong_couplings_of(discs_t)
    params = sym_point(ctx, "p_", system["params"], sizes)
    syms = build_symbols(ctx, system, linear=True)
    normalized = cfg.get("normalized", False)
    maximize = cfg.get("maximize", False)
    substitute = cfg.get("substitute")

    # symbolic design point (physical; with cfg["normalized"] the symbols are the normalized coordinates in [0, 1] and the physical point is
    # lb + xn (ub - lb) with the concrete bounds); strong couplings: symbolic consistent y* (assumed), weak couplings: forward values
    design = [n for n in order if n not in cpl]
    if normalized:
        xn = sym_point(ctx, "n_", design, sizes)
        xp = {}
        for n in design:
            xp[n] = []
            for k in range(sizes[n]):
                lo, up = BOUNDS[n][k]
                ctx.assume(ctx.and_(ctx.le(0.0, xn[n][k]), ctx.le(xn[n][k], 1.0)))
                xp[n].append(lo + xn[n][k] * (up - lo))
    else:
        xn = None
        xp = sym_point(ctx, "v_", design, sizes)
    sol = explicit_solution(ctx, system, xp, params, syms)
    if cfg.get("ystar", "explicit") == "assumed":  # free symbols y* constrained by the hypotheses y* = Y(x, y*) (as the harness 'mdf'), a cross-check of the explicit y*
        ystar = sym_point(ctx, "ys_", strong, sizes)
        sol = solution_oracle(ctx, system, syms, xp, params, ystar)

    # ---- MDF: the MDA starts from the disciplines' default couplings = the solution ------------------------------------------------------------
    chain = cfg["mda"].startswith("chain")
    downstream = [d[0] for d in discs_t if not (set(d[2]) & set(strong))] if chain else []
    discs = build_disciplines(ctx, system, params, linear=True, defaults={y: sol[y] for y in (strong if chain else cpl)}, jac_mode=cfg.get("jac_mode", "all"),
                              listing=cfg.get("listing"), no_defaults_for=downstream)
    mda_kw = {k: (dict(v) if isinstance(v, dict) else v) for k, v in JAC_MDAS[cfg["mda"]].items()}
    if cfg.get("lu"):
        mda_kw.setdefault("main_mda_settings", {})["use_lu_fact"] = True
    kw = dict(differentiated_input_names_substitute=tuple(substitute)) if substitute else {}
    mdf = MDF(discs, system["objective"], build_space(system, order), **mda_kw, **kw)
    if cfg.get("mode"):
        mdf.mda.linearization_mode = cfg["mode"]
    if cfg.get("matrix"):
        mdf.mda.matrix_type = cfg["matrix"]
    user = add_user_constraint(mdf, system, cfg)
    if cfg.get("observable"):
        mdf.add_observable(cfg["observable"])
    problem = mdf.optimization_problem
    if maximize:
        problem.minimize_objective = False
    names = list(problem.design_space.variable_names)
    check_names(ctx, pre + "MDF design space = design variables read by the disciplines, no coupling", names, expected_mdf_space(system, order))
    if set(names) != set(expected_mdf_space(system, order)):
        return
    layout = Layout(problem, sizes)
    roles = dict(objective=(system["objective"], -1.0 if maximize else 1.0), constraint=(system["constraint"], user) if user is not None else None,
                 observable=cfg.get("observable"))
    dcols = layout.cols if not substitute else [(n, k) for n in substitute for k in range(sizes[n])]   # columns of the returned Jacobians
    scale = {(n, k): ((BOUNDS[n][k][1] - BOUNDS[n][k][0]) if normalized else 1.0) for (n, k) in layout.cols}
    if normalized:
        problem.preprocess_functions(is_function_input_normalized=True, use_database=False, round_ints=False)
    xvec = layout.vector(ctx, xn if normalized else xp)
    orig = to_list(xvec)

    # oracle (a): implicit-function closed form from the disciplines' partial derivatives
    outs = [t for t in (system["objective"], system["constraint"] if user is not None else None, cfg.get("observable")) if t]
    roots = sorted({n for (n, _) in dcols})
    tot = implicit_totals(ctx, pre, system, syms, sol, params, roots, outs)

    r_mdf = {}
    for (lab, f, out, sign, shift) in _functions_of(ctx, pre + "MDF ", problem, roles):
        d = producer_of(discs_t, out)
        values = disc_values(d[1], sol, params)
        exp = [_signed(syms[d[0]].value(out, k, values), sign, shift) for k in range(sizes[out])]
        if cfg.get("jac_first", False):
            J = f.jac(xvec)
            J = J.copy() if isinstance(J, np.ndarray) else J
            v = f.evaluate(xvec)
        else:
            v = f.evaluate(xvec)
            v = v.copy() if isinstance(v, np.ndarray) else v
            J = f.jac(xvec)
        ctx.observe(pre + "MDF " + lab, obs(ctx, v))
        ctx.observe(pre + "MDF " + lab + " jac", obs(ctx, J))
        gv = check_values(ctx, pre + "MDF " + lab, v, exp)
        rows = [[_signed(tot[out][n][k][j], sign) * scale.get((n, j), 1.0) if scale.get((n, j), 1.0) != 1.0 else _signed(tot[out][n][k][j], sign)
                 for (n, j) in dcols] for k in range(sizes[out])]
        m, ncol = len(rows), len(dcols)
        got = jac_rows(J, m, ncol)
        if got is None:
            ctx.check(pre + f"MDF {lab}: Jacobian shape {tuple(np.shape(J))} instead of {(m, ncol)}", ctx.false())
        else:
            for k in range(m):
                for c, (n, j) in enumerate(dcols):
                    ctx.check(pre + f"MDF d {lab}[{k}] / d {n}[{j}] == implicit-function total derivative", ctx.eq(got[k][c], rows[k][c]))
        if cfg.get("twice", False) and got is not None:
            J2 = jac_rows(f.jac(xvec), m, ncol)
            if J2 is None:
                ctx.check(pre + f"MDF {lab}: second Jacobian has another shape", ctx.false())
            else:
                for k in range(m):
                    for c in range(ncol):
                        ctx.check(pre + f"MDF {lab}: second request of the Jacobian [{k},{c}] unchanged", ctx.eq(J2[k][c], got[k][c]))
        r_mdf[lab] = (gv, got)
    check_untouched(ctx, pre + "MDF", xvec, orig)

    # ---- IDF on fresh disciplines at (x, y*): (b) the reduced derivative built from ITS Jacobian blocks == the MDF total derivative; (c) values ----
    discs_i = build_disciplines(ctx, system, params, linear=True, jac_mode=cfg.get("jac_mode", "all"))
    idf = IDF(discs_i, system["objective"], build_space(system, order, current=cfg.get("current", False)), normalize_constraints=cfg.get("norm", True))
    user_i = add_user_constraint(idf, system, cfg)
    if cfg.get("observable"):
        idf.add_observable(cfg["observable"])
    problem_i = idf.optimization_problem
    if maximize:
        problem_i.minimize_objective = False
    layout_i = Layout(problem_i, sizes)
    if not set(cpl) <= set(layout_i.names):
        ctx.check(pre + f"IDF design space holds all couplings {cpl}: {layout_i.names}", ctx.false())
        return
    point_i = {n: (sol[n] if n in sol else [ctx.real(f"v_{n}{k}") for k in range(sizes[n])]) for n in layout_i.names}
    xvec_i = layout_i.vector(ctx, point_i)
    orig_i = to_list(xvec_i)
    ncol_i = len(layout_i.cols)
    col = {c: i for i, c in enumerate(layout_i.cols)}
    ycols = [col[(y, k)] for y in cpl for k in range(sizes[y])]
    Jc, cvals = [], []
    for f in problem_i.constraints:
        if user_i is not None and set(f.output_names) == {system["constraint"]}:
            continue
        v = f.evaluate(xvec_i)
        vl = to_list(v) if isinstance(v, np.ndarray) else [_py(v)]
        J = jac_rows(f.jac(xvec_i), len(vl), ncol_i)
        if J is None:
            ctx.check(pre + f"IDF consistency constraint {f.name}: Jacobian shape", ctx.false())
            return
        for k, c in enumerate(vl):
            ctx.check(pre + f"IDF consistency constraint {f.name}[{k}] vanishes at the multidisciplinary solution", ctx.eq(c, 0.0))
        cvals += vl
        Jc += J
    roles_i = dict(roles, constraint=(system["constraint"], user_i) if user_i is not None else None)
    for (lab, f, out, sign, shift) in _functions_of(ctx, pre + "IDF ", problem_i, roles_i):
        v = f.evaluate(xvec_i)
        vl = to_list(v) if isinstance(v, np.ndarray) else [_py(v)]
        Jf = jac_rows(f.jac(xvec_i), sizes[out], ncol_i)
        if lab not in r_mdf:
            continue
        gv, got = r_mdf[lab]
        if gv is not None and len(gv) == len(vl):
            for k, (a, b) in enumerate(zip(gv, vl)):
                ctx.check(pre + f"MDF {lab}[{k}] == IDF {lab}[{k}] at the consistent point", ctx.eq(a, b))
        if Jf is None:
            ctx.check(pre + f"IDF {lab}: Jacobian shape {tuple(np.shape(f.jac(xvec_i)))}", ctx.false())
            continue
        if got is None:
            continue
        # (a differentiated_input_names_substitute may name a discipline input that is not a design variable: the IDF problem has no column for it)
        common = [(c, nj) for c, nj in enumerate(dcols) if nj in col]
        red = reduced_idf_rows(ctx, pre + "IDF " + lab, Jf, Jc, [col[nj] for (_, nj) in common], ycols)
        if red is None:
            continue
        for k in range(len(red)):
            for q, (c, (n, j)) in enumerate(common):
                e = red[k][q] * scale.get((n, j), 1.0) if scale.get((n, j), 1.0) != 1.0 else red[k][q]
                ctx.check(pre + f"MDF d {lab}[{k}] / d {n}[{j}] == df/dx - df/dy_t (dc/dy_t)^-1 dc/dx from the IDF Jacobians", ctx.eq(got[k][c], e))
    check_untouched(ctx, pre + "IDF", xvec_i, orig_i)


def jac_configs(quick):
    out = []

    def J(system, order, mda, constraint="ineq", **kw):
        out.append(("mdf_jac", dict(system=system, order=order, mda=mda, constraint=constraint, **kw)))

    linop = dict(matrix="linear_operator")
    if quick:
        # ring of 2 + post-coupling objective discipline (sizes 1 and 2)
        J("sellar", 0, "chain_gs")
        J("sellar", 1, "chain_jacobi", "ineq_pos", mode="adjoint", **linop)
        J("sellar", 2, "gs", "eq", mode="direct")
        J("sellar", 0, "jacobi", "ineq_val", mode="adjoint", lu=True, norm=False)
        J("sellar", 1, "chain_newton", "ineq", mode="direct", lu=True)
        J("sellar", 0, "chain_gs", "ineq_val", normalized=True)
        J("sellar", 2, "chain_jacobi", "eq", normalized=True, mode="direct", swap=True, norm=False)
        J("sellar", 0, "chain_gs", "ineq_pos", maximize=True)
        J("sellar", 1, "gs", "ineq", maximize=True, normalized=True, mode="adjoint", swap=True)
        J("sellar", 0, "chain_gs", "ineq", observable="y1")
        J("sellar", 2, "jacobi", "ineq_val", observable="y2", objective_name="y1", mode="direct", **linop)
        J("sellar", 0, "chain_gs", "ineq", substitute=["z"])
        J("sellar", 1, "gs", "eq", substitute=["z", "x"], mode="adjoint")
        J("sellar", 1, "chain_gs", "ineq_pos", listing=[2, 1, 0], jac_mode="requested", twice=True, jac_first=True)
        J("sellar", 0, "chain_gs", "ineq", ystar="assumed")
        # size-2 strong couplings, a weak coupling output of a coupled discipline, a parameter input
        J("vec", 0, "chain_gs")
        J("vec", 1, "gs", "eq", mode="adjoint", jac_mode="requested")
        J("vec", 2, "jacobi", "ineq_val", mode="direct", observable="c", norm=False)
        J("vec", 0, "chain_jacobi", "ineq_pos", lu=True, objective_name="c", observable="a")
        J("vec", 1, "chain_gs", "ineq", normalized=True, swap=True, mode="adjoint", **linop)
        J("vec", 2, "chain_newton", "eq", substitute=["x"])
        # ring of 3, objective and constraint computed inside the loop
        J("ring3", 0, "chain_gs", swap=True)
        J("ring3", 1, "newton", "eq", mode="adjoint")
        J("ring3", 0, "jacobi", "ineq_pos", mode="adjoint", **linop)
        J("ring3", 1, "gs", "ineq_val", mode="direct", objective_name="y3", observable="y1", listing=[1, 2, 0])
        J("ring3", 0, "chain_jacobi", "ineq", normalized=True, maximize=True, lu=True)
        # self-coupled disciplines
        J("selfc", 0, "chain_gs")
        J("selfc", 1, "newton", "eq", mode="adjoint", lu=True)
        J("selfc", 0, "gs", "ineq_pos", mode="direct", objective_name="y1", norm=False)
        J("selfc", 1, "jacobi", "ineq_val", normalized=True, **linop)
        J("self1", 0, "chain_gs", observable="y1")
        J("self1", 1, "chain_jacobi", "eq", mode="adjoint", swap=True)
        J("self1", 0, "gs", "ineq_pos", mode="direct", maximize=True, jac_first=True)
        # two strongly connected components in sequence
        J("two_scc", 0, "chain_gs")
        J("two_scc", 1, "gs", "eq", mode="direct", lu=True)
        J("two_scc", 0, "chain_jacobi", "ineq_pos", mode="adjoint", observable="a", **linop)
        J("two_scc", 1, "jacobi", "ineq_val", objective_name="y3", normalized=True)
        J("two_scc", 0, "chain_newton", "ineq", swap=True, norm=False)
        # strongly coupled pair with pre / post weakly coupled disciplines
        J("head_pair_tail", 0, "chain_jacobi")
        J("head_pair_tail", 1, "jacobi", "eq", objective_name="w", mode="direct")
        J("head_pair_tail", 0, "gs", "ineq_pos", mode="adjoint", observable="h", jac_mode="requested")
        J("head_pair_tail", 1, "chain_gs", "ineq_val", normalized=True, maximize=True, lu=True)
        J("pair_tail", 1, "chain_gs", "ineq", twice=True, jac_first=True, jac_mode="requested", listing=[3, 2, 1, 0])
        J("pair_tail", 0, "jacobi", "eq", mode="direct", lu=True, observable="w", norm=False)
        J("pair_tail", 0, "chain_newton", "ineq_pos", mode="adjoint", **linop)
        # a substitute naming a discipline input that is not a design variable (the parameter p)
        J("vec", 0, "chain_gs", "ineq", substitute=["p", "x"])
        # every output affine with concrete non-zero coefficients: the float64 self-test then runs the REAL scipy.sparse / SuperLU / LGMRES on
        # non-trivial systems and right-hand sides (with uninterpreted outputs the self-test models set most partial derivatives to 0)
        J("sellar", 0, "chain_gs", "ineq_val", affine_outputs=True, mode="adjoint")
        J("sellar", 2, "jacobi", "ineq_pos", affine_outputs=True, mode="direct", lu=True, normalized=True, maximize=True)
        J("vec", 1, "chain_jacobi", "eq", affine_outputs=True, mode="adjoint", observable="c", **linop)
        J("ring3", 1, "gs", "ineq", affine_outputs=True, mode="direct")
        J("selfc", 0, "newton", "ineq_val", affine_outputs=True, mode="adjoint", lu=True)
        J("self1", 1, "chain_gs", "ineq_pos", affine_outputs=True, mode="direct", **linop)
        J("two_scc", 0, "chain_gs", "eq", affine_outputs=True, mode="adjoint", observable="y3")
        J("head_pair_tail", 1, "chain_jacobi", "ineq", affine_outputs=True, mode="auto", lu=True)
        J("pair_tail", 0, "gs", "ineq_val", affine_outputs=True, mode="adjoint", substitute=["z", "x"])
        return out
    i = 0
    cons = ["ineq", "eq", "ineq_val", "ineq_pos"]
    for sname, system in JAC_SYSTEMS.items():
        mdas = ["chain_gs", "chain_jacobi", "chain_newton", "gs", "jacobi"] + (["newton"] if sname in ("ring3", "selfc") else [])
        cplv = couplings_of(system["discs"])
        for o in range(len(system["orders"])):
            for mda in mdas:
                for mode in ("auto", "direct", "adjoint"):
                    variant = [dict(), dict(lu=True), linop][i % 3]
                    J(sname, o, mda, cons[i % 4], mode=mode, norm=bool(i % 2), swap=(i % 5 == 2), jac_mode="requested" if i % 4 == 3 else "all", **variant)
                    i += 1
            # output choices, maximisation, normalized design space, observables, substitutes
            for k, y in enumerate(cplv):
                J(sname, o, mdas[k % len(mdas)], cons[k % 4], objective_name=y, observable=cplv[(k + 1) % len(cplv)], mode=("direct", "adjoint")[k % 2])
            J(sname, o, "chain_gs", "ineq_val", normalized=True)
            J(sname, o, "jacobi", "ineq_pos", normalized=True, maximize=True, mode="adjoint", swap=True)
            J(sname, o, "gs", "eq", maximize=True, mode="direct", lu=True)
            J(sname, o, "chain_jacobi", "ineq", substitute=["z"], mode="adjoint")
            J(sname, o, "gs", "ineq", substitute=["z", "x"])   # (never together with normalized=True: see META["outside"])
            J(sname, o, "chain_gs", "ineq", twice=True, jac_first=True, listing=list(reversed(range(len(system["discs"])))))
            if set(cplv) == set(strong_couplings_of(system["discs"])):
                # (with weak couplings the hypotheses form needs congruence reasoning under products of uninterpreted partial derivatives: minutes per query)
                J(sname, o, "chain_gs", "eq", ystar="assumed")
            for mda in mdas:
                for mode in ("direct", "adjoint"):
                    variant = [dict(), dict(lu=True), linop][i % 3]
                    J(sname, o, mda, cons[i % 4], affine_outputs=True, mode=mode, normalized=(i % 4 == 1), maximize=(i % 4 == 2), **variant)
                    i += 1
    J("vec", 0, "chain_gs", "ineq", substitute=["p", "x"])
    J("vec", 2, "jacobi", "eq", substitute=["x", "p", "z"], mode="adjoint", affine_outputs=True)
    return out


# ------------------------------------------------------------------------------------------------
def configs(tier):
    out = []
    quick = tier == "quick"
    cons = list(CONSTRAINTS)
    # ---- IDF ---------------------------------------------------------------------------------
    i = 0
    for sname, system in SYSTEMS.items():
        for o in range(len(system["orders"])):
            for norm in (True, False):
                variants = [dict(jac_mode="all", current=False, second=True), dict(jac_mode="requested", current=True, second=False)]
                if not quick:
                    variants += [dict(jac_mode="requested", current=False, second=True), dict(jac_mode="all", current=True, second=False)]
                for var in (variants if not quick else [variants[i % 2]]):
                    out.append(("idf", dict(system=sname, order=o, norm=norm, constraint=cons[i % len(cons)], **var)))
                    i += 1
        # coupling variables without (upper) bounds, default normalisation
        # (harness name idf_unbounded: same function; these configurations exhibited the repaired defect C17-idf-unbounded-coupling-normalization)
        if not quick or sname in ("sellar", "vec", "chain"):
            out.append(("idf_unbounded", dict(system=sname, order=0, norm=True, cbounds="unbounded", constraint="ineq")))
        if not quick or sname in ("sellar", "chain"):
            out.append(("idf_unbounded", dict(system=sname, order=0, norm=True, cbounds="lower", constraint="none")))
            out.append(("idf_unbounded", dict(system=sname, order=0, norm=False, cbounds="unbounded", constraint="none")))
            out.append(("idf_unbounded", dict(system=sname, order=0, norm=True, cbounds="equal", constraint="eq", current=True)))
    # objective and constraint outputs exchanged (vector objective on sellar and fan)
    for k, sname in enumerate(SYSTEMS):
        out.append(("idf", dict(system=sname, order=1, norm=bool(k % 2), swap=True, constraint=cons[k % 4], second=False)))
    # disciplines listed in another order
    out.append(("idf", dict(system="sellar", order=1, norm=True, listing=[2, 1, 0], constraint="ineq_pos", second=True)))
    out.append(("idf", dict(system="vec", order=1, norm=True, listing=[1, 2, 0], constraint="eq", second=True)))
    # ---- MDF == IDF at a consistent point --------------------------------------------------------
    i = 0
    for sname, system in SYSTEMS.items():
        if system["acyclic"]:
            continue
        for o in range(len(system["orders"])):
            for mda in ("chain_gs", "chain_jacobi", "gs", "jacobi"):
                if quick and o > 0 and mda != ("chain_gs", "chain_jacobi", "gs", "jacobi")[(i + o) % 4]:
                    continue
                out.append(("mdf", dict(system=sname, order=o, mda=mda, constraint=cons[i % 4], norm=bool(i % 2), twice=(i % 3 == 0), current=(i % 2 == 1))))
                i += 1
    out.append(("mdf", dict(system="sellar", order=0, mda="chain_gs", listing=[2, 1, 0], constraint="ineq")))
    out.append(("mdf", dict(system="sellar", order=2, mda="chain_gs", swap=True, constraint="ineq_pos", twice=True)))
    out.append(("mdf", dict(system="ring3", order=0, mda="jacobi", swap=True, constraint="eq")))
    out.append(("mdf", dict(system="ring3", order=1, mda="gs", listing=[1, 2, 0], constraint="ineq_val")))
    # ---- acyclic systems -------------------------------------------------------------------------
    i = 0
    for sname, system in SYSTEMS.items():
        if not system["acyclic"]:
            continue
        n = len(system["discs"])
        for o in range(len(system["orders"])):
            for jm in ("all", "requested"):
                if quick and jm == "requested" and o == 0:
                    continue
                out.append(("weak", dict(system=sname, order=o, formulations=["dopt", "mdf", "idf"], jac_mode=jm, constraint=cons[i % 4], norm=bool((i + 1) % 2),
                                         listing=list(reversed(range(n))) if i % 2 else None, current=(i % 2 == 0))))
                i += 1
    out.append(("weak", dict(system="chain", order=0, formulations=["dopt", "mdf", "idf"], swap=True, constraint="ineq_val", norm=True)))
    out.append(("weak", dict(system="fan", order=0, formulations=["dopt", "mdf", "idf"], swap=True, constraint="ineq_pos", norm=False, jac_mode="requested")))
    out.append(("weak", dict(system="mid", order=0, formulations=["dopt", "mdf", "idf"], swap=True, constraint="eq", norm=True, listing=[1, 2, 0])))
    # ---- IDF started at equilibrium ---------------------------------------------------------------
    i = 0
    for sname, system in EQ_SYSTEMS.items():
        for o in range(len(system["orders"])):
            starts = ["warm"] if sname != "tri_tail" else ["cold"]
            for st in starts:
                for mda in (("gs", "jacobi") if (st == "warm" and not system["acyclic"]) else ("gs",)):
                    if quick and mda == "jacobi" and o == 0:
                        continue
                    out.append(("equilibrium", dict(system=sname, order=o, start=st, mda=mda, norm=bool((i + 1) % 2), constraint=cons[i % 4],
                                                    jac_mode="all" if i % 2 else "requested", swap=(i % 5 == 4))))
                    i += 1
    out.append(("equilibrium", dict(system="pair_tail", order=0, start="warm", mda="gs", norm=True, constraint="ineq", listing=[3, 2, 1, 0])))
    out.append(("equilibrium", dict(system="head_pair_tail", order=1, start="warm", norm=True, constraint="ineq", start_at_equilibrium=False)))
    out.append(("equilibrium", dict(system="chain", order=0, norm=False, constraint="none", start_at_equilibrium=False)))
    # ---- MDF total derivatives on strongly coupled systems (coupled adjoint) vs closed form vs reduced IDF Jacobians ------------------
    out += jac_configs(quick)
    # ---- acyclic systems, MDF differentiated through the coupled adjoint (MDAChain with the default chain_linearize=False) --------------
    i = 0
    for sname, system in SYSTEMS.items():
        if not system["acyclic"]:
            continue
        n = len(system["discs"])
        for o in range(len(system["orders"])):
            for mda, mode in (("chain_gs", None), ("chain_jacobi", "adjoint"), ("chain_gs", "direct")):
                if quick and (o + i) % 3 != 0:
                    i += 1
                    continue
                out.append(("weak_adjoint", dict(system=sname, order=o, formulations=["dopt", "mdf", "idf"], jac_mode="requested" if i % 2 else "all", constraint=cons[i % 4],
                                                 norm=bool(i % 2), listing=list(reversed(range(n))) if i % 4 == 1 else None, swap=(i % 5 == 3), mdf_mda=mda, mode=mode)))
                i += 1
    # ---- variable sets ---------------------------------------------------------------------------
    for g in GRAPHS:
        out.append(("spaces", dict(graph=g, selftest=False)))
    return out


HARNESSES = {"idf": h_idf, "idf_unbounded": h_idf, "mdf": h_mdf, "weak": h_weak, "equilibrium": h_equilibrium, "spaces": h_spaces, "mdf_jac": h_mdf_jac,
             "weak_adjoint": h_weak}
