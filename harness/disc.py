"""Uninterpreted harness disciplines (shared by C05, C08, C09, C17).

API
---
``make_discipline(ctx, name, inputs, outputs, log=None, linear=None, defaults=None, jac_mode="all")``
    returns an instance of a *real* ``gemseo.core.discipline.Discipline`` subclass (``default_grammar_type`` SIMPLE,
    ``set_cache(NONE)``, default inputs set) named ``name`` with

    * ``inputs``  = ``{input_name: size}``, ``outputs`` = ``{output_name: size}`` (sizes are small concrete ints; a
      name may be both an input and an output);
    * ``_run``: component ``k`` of output ``out`` is the uninterpreted real function
      ``ctx.uf(f"{name}.{out}{k}", N)`` applied to the *flattened inputs*: the components of all inputs
      concatenated in **sorted input-name order** (``N`` = total input size).  "The code passed the right arguments"
      is then decided by congruence;
    * ``_compute_jacobian``: ``self.jac[out][inp][k, j]`` is the *independent* uninterpreted symbol
      ``ctx.uf(f"d{name}.{out}{k}/{inp}{j}", N)`` of the same flattened inputs (read from ``self.io.data`` at the
      time of the call, as every gemseo discipline does).  ``jac_mode="all"`` fills every (out, inp) block (what most
      gemseo disciplines do; ``Discipline.linearize`` prunes the blocks that were not requested),
      ``jac_mode="requested"`` fills only ``output_names x input_names`` (all when empty);
    * ``linear`` (optional) = ``{out: (coeffs, const)}`` with ``coeffs = {inp: n_out x n_in nested list}`` and
      ``const`` a list of ``n_out`` scalars (or ``None``): that output is the affine map
      ``const + sum_inp coeffs[inp] @ x_inp`` and its partials are the coefficients (numbers or symbols; missing inputs
      have a zero block).  Outputs not listed stay uninterpreted.  Meant for MDA-type checks where products of symbols
      must be avoided;
    * ``defaults`` (optional) = ``{input_name: array}``; by default every input has the default value ``zeros(size)``;
    * every call is appended to ``log`` (a list) as a :class:`Call` ``(kind, disc, flat, data, names)``:
      ``kind`` is ``"run"`` or ``"jac"``, ``disc`` the discipline name, ``flat`` the flattened input scalars,
      ``data`` = ``{input_name: [scalars]}``, ``names`` = ``(input_names, output_names)`` of a ``"jac"`` call.

Oracle side (never calls gemseo): the instance carries ``disc.sym``, a :class:`DiscSymbols` with

    ``sym.inputs`` / ``sym.outputs``           sorted input names / output names (declaration order)
    ``sym.in_sizes`` / ``sym.out_sizes``       the size dictionaries
    ``sym.n_in``                               total input size
    ``sym.flat(values)``                       flattened scalars of ``values = {name: [scalars] or array}``
    ``sym.value(out, k, values)``              the scalar term of component ``k`` of ``out``
    ``sym.values(values)``                     ``{out: [scalar terms]}``
    ``sym.partial(out, k, inp, j, values)``    the scalar term d out_k / d inp_j
    ``sym.block(out, inp, values)``            nested list (n_out x n_in) of the partial terms
    ``sym.jacobian(values)``                   ``{out: {inp: nested list}}``

``make_symbols(ctx, name, inputs, outputs, linear=None)`` builds the :class:`DiscSymbols` alone (same symbol names),
``flat_of(values, in_sizes)`` is the flattening rule, ``to_list(a)`` gives the python scalars of an array.

The helpers work in both modes (``ctx`` an ``Explorer`` or a ``Replayer``) and never import z3.
"""
from __future__ import annotations

from collections import namedtuple

import numpy as np

from symgem.core import _plain, _py

Call = namedtuple("Call", "kind disc flat data names")


def to_list(a):
    """Flat python list of the scalars of an array-like."""
    if isinstance(a, np.ndarray):
        return [_py(v) for v in _plain(a).ravel()]
    if isinstance(a, (list, tuple)):
        return [_py(v) for v in a]
    return [_py(a)]


def flat_of(values, in_sizes):
    """The flattened inputs: components of all inputs in sorted input-name order."""
    out = []
    for n in sorted(in_sizes):
        v = to_list(values[n])
        if len(v) != in_sizes[n]:
            raise ValueError(f"input {n}: expected size {in_sizes[n]}, got {len(v)}")
        out.extend(v)
    return out


class DiscSymbols:
    """Scalar symbols of an uninterpreted discipline (oracle side)."""

    def __init__(self, ctx, name, inputs, outputs, linear=None):
        self.name = name
        self.in_sizes = dict(inputs)
        self.out_sizes = dict(outputs)
        self.inputs = sorted(self.in_sizes)
        self.outputs = list(self.out_sizes)
        self.n_in = sum(self.in_sizes.values())
        self.linear = dict(linear or {})
        n = self.n_in
        self.F = {o: [ctx.uf(f"{name}.{o}{k}", n) for k in range(s)] for o, s in self.out_sizes.items() if o not in self.linear}
        self.dF = {o: {i: [[ctx.uf(f"d{name}.{o}{k}/{i}{j}", n) for j in range(si)] for k in range(s)]
                       for i, si in self.in_sizes.items()}
                   for o, s in self.out_sizes.items() if o not in self.linear}

    def flat(self, values):
        return flat_of(values, self.in_sizes)

    def value(self, out, k, values):
        if out in self.linear:
            coeffs, const = self.linear[out]
            acc = const[k] if const is not None else 0.0
            for i in self.inputs:
                if i not in coeffs:
                    continue
                xi = to_list(values[i])
                for j in range(self.in_sizes[i]):
                    acc = acc + coeffs[i][k][j] * xi[j]
            return acc
        return self.F[out][k](*self.flat(values))

    def values(self, values):
        return {o: [self.value(o, k, values) for k in range(s)] for o, s in self.out_sizes.items()}

    def partial(self, out, k, inp, j, values):
        if out in self.linear:
            coeffs = self.linear[out][0]
            return coeffs[inp][k][j] if inp in coeffs else 0.0
        return self.dF[out][inp][k][j](*self.flat(values))

    def block(self, out, inp, values):
        return [[self.partial(out, k, inp, j, values) for j in range(self.in_sizes[inp])] for k in range(self.out_sizes[out])]

    def jacobian(self, values):
        return {o: {i: self.block(o, i, values) for i in self.inputs} for o in self.outputs}


def make_symbols(ctx, name, inputs, outputs, linear=None):
    return DiscSymbols(ctx, name, inputs, outputs, linear)


_CLASS = None


def _discipline_class():
    """The harness discipline class (created lazily so that gemseo is imported from VERIF_REPO)."""
    global _CLASS
    if _CLASS is not None:
        return _CLASS
    from gemseo.core.discipline import Discipline

    class UninterpretedDiscipline(Discipline):
        default_grammar_type = Discipline.GrammarType.SIMPLE
        default_cache_type = Discipline.CacheType.NONE

        def __init__(self, ctx, name, inputs, outputs, log=None, linear=None, defaults=None, jac_mode="all"):
            super().__init__(name=name)
            self.set_cache(Discipline.CacheType.NONE)
            self._ctx = ctx
            self.sym = DiscSymbols(ctx, name, inputs, outputs, linear)
            self.log = log
            self.jac_mode = jac_mode
            self.io.input_grammar.update_from_names(list(inputs))
            self.io.output_grammar.update_from_names(list(outputs))
            dflt = {n: np.zeros(s) for n, s in inputs.items()}
            if defaults:
                dflt.update(defaults)
            self.io.input_grammar.defaults = dflt

        def _inputs_now(self, data):
            return {n: to_list(data[n]) for n in self.sym.inputs}

        def _run(self, input_data):
            vals = self._inputs_now(input_data)
            if self.log is not None:
                self.log.append(Call("run", self.name, self.sym.flat(vals), vals, None))
            return {o: self._ctx.array(v) for o, v in self.sym.values(vals).items()}

        def _compute_jacobian(self, input_names=(), output_names=()):
            vals = self._inputs_now(self.io.data)
            if self.log is not None:
                self.log.append(Call("jac", self.name, self.sym.flat(vals), vals, (tuple(input_names), tuple(output_names))))
            ins = self.sym.inputs
            outs = self.sym.outputs
            if self.jac_mode == "requested":
                ins = [i for i in ins if not input_names or i in input_names]
                outs = [o for o in outs if not output_names or o in output_names]
            self.jac = {o: {i: self._ctx.array(self.sym.block(o, i, vals)) for i in ins} for o in outs}

    _CLASS = UninterpretedDiscipline
    return _CLASS


def make_discipline(ctx, name, inputs, outputs, log=None, linear=None, defaults=None, jac_mode="all"):
    """A real gemseo ``Discipline`` whose outputs and partial derivatives are uninterpreted symbols (see module doc)."""
    return _discipline_class()(ctx, name, dict(inputs), dict(outputs), log=log, linear=linear, defaults=defaults, jac_mode=jac_mode)
