"""C16 - derivative approximations are accurate to their order and respect bounds.

Function family: every polynomial R^n -> R^m of total degree <= 3 whose coefficients are solver variables
(cross terms included).  For such a function the truncation error of each scheme is a *finite* Taylor tail, so the
property "accurate to its order" is the exact algebraic identity

    forward  :  A - f'(x) ==  s/2 f''(x) + s^2/6 f'''(x)          (s = signed step actually used)
    centred  :  A - f'(x) ==  s^2/6 f'''(x)
    complex  :  A - f'(x) == -s^2/6 f'''(x)

(partial derivatives along the differentiated component, computed here by hand from the coefficients).  The oracle never
calls gemseo: it records the points at which the harness function is called and compares the returned matrix with
these closed forms.
"""
from __future__ import annotations

import itertools

import numpy as np

from harness.common import SymArray, _plain, _py, build_space, check_shape, elems

META = dict(
    bounds=dict(
        quick="harness approx: polynomials R^n->R^m of total degree <= 3 with symbolic coefficients (cross terms included), n<=2, m<=2, symbolic point and step; "
              "every ordered non-empty component subset for n<=2 and the empty tuple (= all); scalar step, per-component step vector (full component set), step given "
              "to the constructor or to f_gradient; design spaces with symbolic bounds (layouts B, BB, BU, (B,B)) in physical and normalized mode, incl. points on the "
              "bounds. harness disc: discipline with inputs a(2), b(1) and outputs y(2), z(1) (cubic, 60 symbolic coefficients): DisciplineJacApprox.compute_approx_jac "
              "(input/output name subsets and orders, x_indices, vector step) and Discipline.linearize in the three approximation modes. harness checkjac: "
              "Discipline.check_jacobian(indices=...) on a quadratic discipline with fixed coefficients, step 1/16, threshold 1/4, symbolic point in [-4,4]^3 and an error of 1000 "
              "injected into one entry of the analytic Jacobian chosen by the solver (or none)",
        thorough="same, plus n=3 (subsets [], [0,1], [2], [0,2], [2,0,1]; layout BBB for forward differences), layouts UB and (B,B), more index sets / name orders at the discipline level",
    ),
    outside=["the parallel executor itself (C13): the parallel code path _compute_parallel_grad of the three approximators runs with an in-order executor stub (results positionally matched to the inputs), in both modes", "compute_optimal_step / auto_set_step / error_estimators (rounding-error model)",
             "non-polynomial functions; rounding error of float64 (the complex-step clause 'rounding error only' is the identity A == f' for quadratics)",
             "steps h <= 0 (centred differences divide by |x+ - x-|, so a negative step returns -f': reported separately, outside the 'numerically safe range')",
             "per-component step vectors together with a strict component subset (the approximators index the vector by position in the subset, "
             "DisciplineJacApprox requires the full input length: the documentation is silent)",
             "complex-valued steps and step vectors for ComplexStep (its step setter only accepts scalars)",
             "lower bounds: the documentation of BaseGradientApproximator promises the upper bounds only, so p >= l is not asserted",
             "equal bounds l == u (both one-sided steps of the centred scheme vanish)", "which one-sided scheme is used within one step of a bound (any first-order scheme is accepted there)",
             "the exact acceptance rule of check_jacobian near the threshold (only: exact selected entries are accepted, a selected entry wrong by 1000 is rejected)",
             "the state of the discipline's local data after an approximation", "sparse Jacobians, reference_jacobian_path pickling, plots"],
    stubs=["base_gradient_approximator.array(grad, dtype=float64) keeps exact symbolic entries (value-preserving)",
           "complex_step.zeros(shape, dtype=complex128) returns an object array of 0.0", "derivatives_approx.zeros returns an object array of 0.0",
           "Variable bounds written into Variable.__dict__ (harness.common.build_space)",
           "harness discipline uses SimpleGrammar and no cache"],
    assumptions=["step 2^-10 <= h <= 2^10 (positive, 'numerically safe range')",
                 "with a design space: u - l >= 2^-10 and l <= x <= u (0 <= x <= 1 on bounded components in normalized mode)",
                 "the function is a polynomial of degree <= 3 of its array argument and returns a fresh array of shape (m,)",
                 "'the step used' by the complex step is either h or the relative step h*x_j (the implementation uses h*x_j unless x_j == 0)"],
)

METHODS = {"fd": "finite_differences", "cd": "centered_differences", "cs": "complex_step"}


# ------------------------------------------------------------------------------------------------
# the polynomial family and its exact derivatives (oracle side: explicit loops over scalars)
# ------------------------------------------------------------------------------------------------
def monomials(n, deg=3):
    return [a for a in itertools.product(range(deg + 1), repeat=n) if sum(a) <= deg]


def _pw(v, k):
    r = 1.0
    for _ in range(k):
        r = r * v
    return r


class Poly:
    """m polynomials of n variables with coefficients ``coef[i][alpha]``; calls are logged in ``self.calls``."""

    def __init__(self, ctx, name, m, n, deg=3, concrete=False):
        self.ctx, self.m, self.n = ctx, m, n
        if concrete:
            # fixed dyadic coefficients, all non-zero and pairwise different along each row (used where the queries must stay linear)
            self.coef = [{a: float((5 * i + 3 * q) % 13 - 6 or 7) / 4.0 for q, a in enumerate(monomials(n, deg))} for i in range(m)]
        else:
            self.coef = [{a: ctx.real(f"{name}{i}_{''.join(map(str, a))}") for a in monomials(n, deg)} for i in range(m)]
        self.calls = []

    def value(self, i, xs):
        acc = 0.0
        for a, c in self.coef[i].items():
            t = c
            for j in range(self.n):
                t = t * _pw(xs[j], a[j])
            acc = acc + t
        return acc

    def partial(self, i, xs, k, order):
        """d^order f_i / d x_k^order at xs."""
        acc = 0.0
        for a, c in self.coef[i].items():
            if a[k] < order:
                continue
            fall = 1
            for q in range(order):
                fall *= a[k] - q
            t = c * float(fall)
            for j in range(self.n):
                t = t * _pw(xs[j], a[j] - (order if j == k else 0))
            acc = acc + t
        return acc

    def __call__(self, x):
        xs = elems(x)
        if len(xs) != self.n:
            raise ValueError(f"expected {self.n} inputs, got {len(xs)}")
        self.calls.append(xs)
        vals = [self.value(i, xs) for i in range(self.m)]
        if self.ctx.symbolic:
            return SymArray(vals)
        return np.array(vals)  # float64 or complex128


def _install_stubs(ctx):
    if not ctx.symbolic:
        return
    import gemseo.utils.derivatives.base_gradient_approximator as bga
    import gemseo.utils.derivatives.complex_step as cs
    import gemseo.utils.derivatives.derivatives_approx as da

    def array_keep(a, dtype=None, **k):
        return SymArray(np.array([_plain(r) if isinstance(r, np.ndarray) else r for r in a], dtype=object))

    def zeros_obj(shape, dtype=None, **k):
        a = np.empty(shape, dtype=object)
        a[...] = 0.0
        return a.view(SymArray)

    ctx.patch(bga, "array", array_keep)
    ctx.patch(cs, "zeros", zeros_obj)
    ctx.patch(da, "zeros", zeros_obj)


class _InOrderExecutor:
    """Contract stub of CallableParallelExecution for the ``parallel=True`` configurations: results positionally matched to the inputs
    (that contract is the subject of C13; processes / pickling cannot carry symbols)."""

    def __init__(self, workers, **options):
        self.workers = list(workers)

    def execute(self, inputs, **options):
        return [(self.workers[i] if len(self.workers) > 1 else self.workers[0])(v) for i, v in enumerate(inputs)]


def _install_executor_stub(ctx):
    """Both modes: the float64 replay must not fork processes inside the checker's worker pool."""
    import gemseo.utils.derivatives.centered_differences as cd
    import gemseo.utils.derivatives.complex_step as cs
    import gemseo.utils.derivatives.finite_differences as fd

    for mod in (fd, cd, cs):
        ctx.patch(mod, "CallableParallelExecution", _InOrderExecutor, symbolic_only=False)


H_MIN, H_MAX, W_MIN = 2.0 ** -10, 2.0 ** 10, 2.0 ** -10


def _assume_step(ctx, h):
    """'Steps in a numerically safe range': a positive step, neither denormal-small nor huge."""
    ctx.assume(ctx.and_(ctx.le(H_MIN, h), ctx.le(h, H_MAX)))


def _re(v):
    return v.real if hasattr(v, "real") else v


def _guarded(ctx, label, fn):
    """Run gemseo code; a division by zero (inf/nan in float64) is reported under one label in both modes."""
    try:
        if ctx.symbolic:
            return fn()
        with np.errstate(divide="raise", invalid="raise"):
            return fn()
    except (ZeroDivisionError, FloatingPointError):
        ctx.check(f"{label}: finite (no division by zero)", ctx.false())
        return None


def _any_of(ctx, err, cands):
    return ctx.or_(*[ctx.eq(err, c) for c in cands])


# ------------------------------------------------------------------------------------------------
# approximator level
# ------------------------------------------------------------------------------------------------
LAYOUTS = {"B": [("x", "float", "B")], "BB": [("x", "float", "BB")], "BU": [("x", "float", "BU")], "UB": [("x", "float", "UB")],
           "B,B": [("x", "float", "B"), ("w", "float", "B")], "BBB": [("x", "float", "BBB")]}


def h_approx(ctx, cfg):
    """``f_gradient`` of the three approximators on the polynomial family."""
    from gemseo.utils.derivatives.factory import GradientApproximatorFactory

    _install_stubs(ctx)
    method, n, m = cfg["method"], cfg["n"], cfg["m"]
    subset = list(cfg.get("subset", []))
    comps = subset or list(range(n))
    k = len(comps)
    mode = cfg.get("ds")  # None | "phys" | "norm"
    f = Poly(ctx, "c", m, n, cfg.get("deg", 3))
    x = ctx.reals("x", n)
    xs = elems(x)
    if cfg.get("vec_step"):
        step = ctx.reals("h", k)
        hs = elems(step)
    else:
        step = ctx.real("h")
        hs = [step] * k
    for h in (hs if cfg.get("vec_step") else hs[:1]):
        _assume_step(ctx, h)
    kwargs = {}
    ub = lb = None
    if mode:
        ds, info = build_space(ctx, LAYOUTS[cfg["layout"]])
        normalize = mode == "norm"
        lb = [(0.0 if normalize and info.normalized(j) else info.lb[j]) for j in range(n)]
        ub = [(1.0 if normalize and info.normalized(j) else info.ub[j]) for j in range(n)]
        for j in range(n):
            if info.kind[j] == "B":
                ctx.assume(ctx.le(info.lb[j] + W_MIN, info.ub[j]))  # non-degenerate interval
            if np.isfinite(_c(lb[j])):
                ctx.assume(ctx.le(lb[j], xs[j]))
            if np.isfinite(_c(ub[j])):
                ctx.assume(ctx.le(xs[j], ub[j]))
        kwargs = dict(design_space=ds, normalize=normalize)
    if cfg.get("parallel"):
        _install_executor_stub(ctx)
        kwargs["parallel"] = True
    if cfg.get("step_at") == "init":
        approximator = GradientApproximatorFactory().create(METHODS[method], f, step=step, **kwargs)
        call = lambda: approximator.f_gradient(x, x_indices=subset)  # noqa: E731
    else:
        approximator = GradientApproximatorFactory().create(METHODS[method], f, **kwargs)
        call = lambda: approximator.f_gradient(x, step=step, x_indices=subset)  # noqa: E731
    A = _guarded(ctx, "f_gradient", call)
    if A is None:
        return
    if not mode:
        # (with a design space a float64 replay may legitimately take the other side of a bound test on a boundary model:
        #  the returned matrix is then compared through the oracle only)
        ctx.observe("jac", A)
    check_array_untouched(ctx, "x-untouched", x, [ctx.real(f"x{j}") for j in range(n)])
    _check_calls(ctx, f.calls, xs, ub, method)
    if not check_shape(ctx, "jac", A, (m, k)):
        return
    Ael = _plain(A) if isinstance(A, np.ndarray) else np.asarray(A, dtype=object)
    for c, j in enumerate(comps):
        h = hs[c]
        for i in range(m):
            d1, d2, d3 = (f.partial(i, xs, j, o) for o in (1, 2, 3))
            ctx.check(f"accuracy[{i},{c}] (d f{i}/d x{j})", _accuracy(ctx, method, _py(Ael[i, c]), h, d1, d2, d3, xs[j], None if ub is None else (lb[j], ub[j])))


def _c(v):
    return v if isinstance(v, float) else 0.0


def _accuracy(ctx, method, err, h, d1, d2, d3, xj, bounds):
    """``err`` is the returned entry; the candidates are f' + exact truncation term (compared as a whole: well conditioned in float64)."""
    # (divisions are applied to the symbolic factor so that a concrete step never produces an inexact float constant)
    fwd = d1 + d2 * h / 2.0 + d3 * (h * h) / 6.0
    bwd = d1 - d2 * h / 2.0 + d3 * (h * h) / 6.0
    ctr = d1 + d3 * (h * h) / 6.0
    if method == "fd":
        if bounds is None or not np.isfinite(_c(bounds[1])):
            return ctx.eq(err, fwd)
        # on the upper bound the step must be reversed; strictly below it both signs are first-order accurate
        return ctx.and_(ctx.implies(ctx.eq(xj, bounds[1]), ctx.eq(err, bwd)), _any_of(ctx, err, [fwd, bwd]))
    if method == "cd":
        if bounds is None:
            return ctx.eq(err, ctr)
        lo, up = bounds
        interior = ctx.and_(ctx.le(lo, xj - h) if np.isfinite(_c(lo)) else ctx.true(), ctx.le(xj + h, up) if np.isfinite(_c(up)) else ctx.true())
        # away from the bounds the scheme is centred (second order); within one step of a bound a one-sided scheme is accepted
        return ctx.and_(ctx.implies(interior, ctx.eq(err, ctr)), _any_of(ctx, err, [ctr, fwd, bwd]))
    if method == "cs":
        # the implementation scales the step by x_j (relative step) unless x_j == 0: both readings of "the step used" are accepted
        cands = [d1 - d3 * (h * h) / 6.0, d1 - d3 * ((h * xj) * (h * xj)) / 6.0]
        return _any_of(ctx, err, cands)
    raise ValueError(method)


def _check_calls(ctx, calls, xs, ub, method):
    """Every evaluation point has the base point as real part; with a design space it never exceeds the upper bounds."""
    for c, p in enumerate(calls):
        for j, v in enumerate(p):
            if ub is not None and np.isfinite(_c(ub[j])):
                ctx.check(f"bound: evaluation #{c} component {j} <= upper bound", ctx.le(_re(v), ub[j]))
            if method == "cs":
                ctx.check(f"complex step: evaluation #{c} component {j} has the real part of x", ctx.eq(_re(v), xs[j]))


def check_array_untouched(ctx, label, arr, orig):
    for j, (a, b) in enumerate(zip(elems(arr), orig)):
        ctx.check(f"{label}[{j}]", ctx.eq(a, b))


# ------------------------------------------------------------------------------------------------
# discipline level
# ------------------------------------------------------------------------------------------------
IN_SIZES = {"a": 2, "b": 1}
OUT_SIZES = {"y": 2, "z": 1}
_DISC_CLASS = None


def _disc_class():
    global _DISC_CLASS
    if _DISC_CLASS is not None:
        return _DISC_CLASS
    from gemseo.core.discipline import Discipline

    class PolyDiscipline(Discipline):
        """outputs (y, z) = polynomial of the concatenated inputs (a, b); the analytic Jacobian is exact + ``jac_error``."""

        default_grammar_type = Discipline.GrammarType.SIMPLE
        default_cache_type = Discipline.CacheType.NONE

        def __init__(self, ctx, poly, in_sizes, out_sizes, defaults, jac_error=None):
            super().__init__(name="poly")
            self.set_cache(Discipline.CacheType.NONE)
            self._ctx, self.poly, self.in_sizes, self.out_sizes, self.jac_error = ctx, poly, dict(in_sizes), dict(out_sizes), jac_error
            self.io.input_grammar.update_from_names(list(in_sizes))
            self.io.output_grammar.update_from_names(list(out_sizes))
            self.io.input_grammar.defaults = dict(defaults)

        def _arr(self, vals):
            return SymArray(vals) if self._ctx.symbolic else np.array(vals)

        def _run(self, input_data):
            xs = [v for name in self.in_sizes for v in elems(input_data[name])]
            vals = elems(self.poly(self._arr(xs)))
            out, pos = {}, 0
            for name, size in self.out_sizes.items():
                out[name] = self._arr(vals[pos:pos + size])
                pos += size
            return out

        def _compute_jacobian(self, input_names=(), output_names=()):
            xs = [v for name in self.in_sizes for v in elems(self.io.data[name])]
            self.jac = {}
            row = 0
            for o, so in self.out_sizes.items():
                self.jac[o] = {}
                col = 0
                for i, si in self.in_sizes.items():
                    rows = [[self.poly.partial(row + r, xs, col + c, 1) + (self.jac_error[row + r][col + c] if self.jac_error else 0.0)
                             for c in range(si)] for r in range(so)]
                    self.jac[o][i] = self._arr(rows) if self._ctx.symbolic else np.array(rows, dtype=float)
                    col += si
                row += so

    _DISC_CLASS = PolyDiscipline
    return _DISC_CLASS


def _offsets(sizes):
    off, pos = {}, 0
    for name, s in sizes.items():
        off[name] = pos
        pos += s
    return off


def _disc_setup(ctx, cfg, jac_error=None):
    in_sizes = {k: IN_SIZES[k] for k in cfg.get("disc_inputs", list(IN_SIZES))}
    out_sizes = {k: OUT_SIZES[k] for k in cfg.get("disc_outputs", list(OUT_SIZES))}
    n, m = sum(in_sizes.values()), sum(out_sizes.values())
    poly = Poly(ctx, "c", m, n, cfg.get("deg", 3), concrete=cfg.get("coef") == "concrete")
    point = {name: ctx.reals(f"x_{name}", s) for name, s in in_sizes.items()}
    xs = [v for name in in_sizes for v in elems(point[name])]
    defaults = {name: (SymArray([0.0] * s) if ctx.symbolic else np.zeros(s)) for name, s in in_sizes.items()}
    if cfg.get("far_defaults"):
        # the default value of the inputs that are not differentiated is far from the point
        for name in in_sizes:
            if name not in cfg["inputs"]:
                defaults[name] = ctx.array([FAR] * in_sizes[name])
    if cfg.get("at_defaults"):
        # the inputs that are not differentiated sit at their default value (so that the point of the approximation is unambiguous)
        for name in in_sizes:
            if name not in cfg["inputs"]:
                defaults[name] = ctx.array(elems(point[name]))
    disc = _disc_class()(ctx, poly, in_sizes, out_sizes, defaults, jac_error)
    return disc, poly, point, xs, in_sizes, out_sizes


def _expected_entry(ctx, method, poly, xs, row, col, h):
    """Closed form of the approximation of d out_row / d x_col with step h (no design space at the discipline level)."""
    d1, d2, d3 = (poly.partial(row, xs, col, o) for o in (1, 2, 3))
    if method == "fd":
        return [d1 + d2 * h / 2.0 + d3 * (h * h) / 6.0]
    if method == "cd":
        return [d1 + d3 * (h * h) / 6.0]
    return [d1 - d3 * (h * h) / 6.0, d1 - d3 * ((h * xs[col]) * (h * xs[col])) / 6.0]


def _check_blocks(ctx, label, jac, method, poly, xs, in_sizes, out_sizes, input_names, output_names, steps, selected):
    """``jac[out][inp]`` has the shape (size_out, size_inp); entry (r, c) approximates d out_r / d inp_c, or is 0 when the flat
    position of inp_c in the differentiated vector (order ``input_names``) is not selected."""
    in_off, out_off = _offsets(in_sizes), _offsets(out_sizes)
    ctx.check(f"{label}: outputs {sorted(jac)} == {sorted(output_names)}", ctx.true() if sorted(jac) == sorted(output_names) else ctx.false())
    flat_pos = {}
    pos = 0
    for name in input_names:
        for c in range(in_sizes[name]):
            flat_pos[(name, c)] = pos
            pos += 1
    for o in output_names:
        if o not in jac:
            continue
        ctx.check(f"{label}[{o}]: inputs {sorted(jac[o])} == {sorted(input_names)}", ctx.true() if sorted(jac[o]) == sorted(input_names) else ctx.false())
        for i in input_names:
            if i not in jac[o]:
                continue
            blk = jac[o][i]
            if not check_shape(ctx, f"{label}[{o}][{i}]", blk, (out_sizes[o], in_sizes[i])):
                continue
            b = _plain(blk) if isinstance(blk, np.ndarray) else np.asarray(blk, dtype=object)
            for r in range(out_sizes[o]):
                for c in range(in_sizes[i]):
                    fp = flat_pos[(i, c)]
                    got = _re(_py(b[r, c]))
                    if selected is not None and fp not in selected:
                        ctx.check(f"{label}[{o}][{i}][{r},{c}] not requested: zero", ctx.eq(got, 0.0))
                    else:
                        h = steps[fp] if isinstance(steps, list) else steps
                        ctx.check(f"{label}[{o}][{i}][{r},{c}] accuracy",
                                  _any_of(ctx, got, _expected_entry(ctx, method, poly, xs, out_off[o] + r, in_off[i] + c, h)))


def h_disc(ctx, cfg):
    """``DisciplineJacApprox.compute_approx_jac`` and ``Discipline.linearize`` in an approximation mode."""
    from gemseo.utils.derivatives.derivatives_approx import DisciplineJacApprox

    _install_stubs(ctx)
    method, via = cfg["method"], cfg["via"]
    disc, poly, point, xs, in_sizes, out_sizes = _disc_setup(ctx, cfg)
    input_names, output_names = list(cfg["inputs"]), list(cfg["outputs"])
    nd = sum(in_sizes[i] for i in input_names)
    x_indices = list(cfg.get("x_indices", []))
    if cfg.get("vec_step"):
        step = ctx.reals("h", nd)
        steps = elems(step)
        for h in steps:
            _assume_step(ctx, h)
    elif via == "switch":
        step = steps = 0.25   # set on the approximator object after the switch (1e-7, the default, cancels too much in a float64 replay)
    elif cfg.get("h"):
        step = steps = float(cfg["h"])  # concrete step (keeps the centred / complex-step queries polynomial in the other symbols)
    else:
        step = steps = ctx.real("h")
        _assume_step(ctx, step)
    if via == "jacapprox":
        disc.execute(point)
        del poly.calls[:]
        approx = DisciplineJacApprox(disc, approx_method=METHODS[method], step=step)
        jac = _guarded(ctx, "compute_approx_jac", lambda: approx.compute_approx_jac(output_names, input_names, x_indices))
    else:
        if via == "switch":
            # the mode is selected through the public attribute, after another approximation mode was selected (and used):
            # the approximation must be the one of the LAST selected mode (default step 1e-7)
            disc.linearization_mode = METHODS[cfg["from"]]
            if cfg.get("use_first"):
                disc.linearize(point, compute_all_jacobians=True)
                del poly.calls[:]
            disc.linearization_mode = METHODS[method]
            disc._jac_approx.step = step   # whichever approximator the discipline holds now gets the step of the oracle
        else:
            disc.set_jacobian_approximation(jac_approx_type=METHODS[method], jax_approx_step=step)
        if cfg.get("all"):
            jac = _guarded(ctx, "linearize", lambda: disc.linearize(point, compute_all_jacobians=True))
        else:
            disc.add_differentiated_inputs(input_names)
            disc.add_differentiated_outputs(output_names)
            jac = _guarded(ctx, "linearize", lambda: disc.linearize(point))
    if jac is None:
        return
    for o in jac:
        for i in jac[o]:
            ctx.observe(f"jac[{o}][{i}]", np.real(jac[o][i]) if not ctx.symbolic else jac[o][i].real)
    _check_blocks(ctx, "jac", jac, method, poly, xs, in_sizes, out_sizes, input_names, output_names, steps, set(x_indices) if x_indices else None)
    # every evaluation keeps the inputs that are not differentiated at their current value
    in_off = _offsets(in_sizes)
    for c, p in enumerate(poly.calls):
        for name in in_sizes:
            if name in input_names:
                continue
            for q in range(in_sizes[name]):
                ctx.check(f"evaluation #{c}: undifferentiated input {name}[{q}] unchanged", ctx.eq(p[in_off[name] + q], xs[in_off[name] + q]))
    # (not asserted: after an approximation the local data of the discipline hold the last perturbed point; the property is silent)
    for name in in_sizes:
        check_array_untouched(ctx, f"caller's input {name} untouched", point[name], [ctx.real(f"x_{name}{q}") for q in range(in_sizes[name])])


X_MAX, BIG, FAR = 4.0, 1000.0, 1000.0  # checkjac: box of the point, injected Jacobian error, far default value


def h_checkjac(ctx, cfg):
    """``Discipline.check_jacobian(indices=...)``: the verdict is False iff a *selected* entry of the analytic Jacobian is wrong.

    Quadratic discipline with fixed coefficients (1/4 <= |c| <= 7/4), step 1/16, threshold 1/4, point in [-4, 4]^3: every truncation
    term is <= 7/64 < threshold/2 and every exact entry is < 40 in modulus, while the injected error is 1000: for any sensible reading
    of the threshold (atol + rtol*|reference|) a correct entry is accepted and the wrong one rejected, with a wide margin on both sides
    (so that float64 replays never sit on the acceptance boundary)."""
    _install_stubs(ctx)
    method = cfg["method"]
    in_sizes0 = {k: IN_SIZES[k] for k in cfg.get("disc_inputs", list(IN_SIZES))}
    out_sizes0 = {k: OUT_SIZES[k] for k in cfg.get("disc_outputs", list(OUT_SIZES))}
    n, m = sum(in_sizes0.values()), sum(out_sizes0.values())
    bad = ctx.choice("bad", n * m + 1) - 1  # flat index of the wrong entry of the analytic Jacobian, -1: none
    E = [[(BIG if bad == r * n + c else 0.0) for c in range(n)] for r in range(m)]
    disc, poly, point, xs, in_sizes, out_sizes = _disc_setup(ctx, cfg, jac_error=E)
    for v in xs:
        ctx.assume(ctx.and_(ctx.le(-X_MAX, v), ctx.le(v, X_MAX)))
    input_names, output_names = list(cfg["inputs"]), list(cfg["outputs"])
    indices = {k: v for k, v in cfg.get("indices", {}).items()}
    h, tau = float(cfg.get("h", 0.0625)), float(cfg.get("threshold", 0.25))
    verdict = _guarded(ctx, "check_jacobian", lambda: disc.check_jacobian(
        input_data=point, derr_approx=METHODS[method], step=h, threshold=tau, input_names=input_names, output_names=output_names, indices=indices))
    if verdict is None:
        return
    ctx.observe("verdict", [1.0 if verdict else 0.0])
    in_off, out_off = _offsets(in_sizes), _offsets(out_sizes)

    def comps(name, size):
        v = indices.get(name, list(range(size)))
        return [v] if isinstance(v, int) else list(v)

    selected = {(out_off[o] + r) * n + in_off[i] + c for o in output_names for i in input_names for r in comps(o, out_sizes[o]) for c in comps(i, in_sizes[i])}
    if bad in selected:
        ctx.check("verdict False: a selected entry of the analytic Jacobian is wrong by 1000", ctx.false() if verdict else ctx.true())
    else:
        ctx.check("verdict True: every selected entry of the analytic Jacobian is exact (errors elsewhere do not count)", ctx.true() if verdict else ctx.false())


def configs(tier):
    out = []
    A = lambda **k: out.append(("approx", k))  # noqa: E731
    D = lambda **k: out.append(("disc", k))  # noqa: E731
    C = lambda **k: out.append(("checkjac", k))  # noqa: E731
    # ---- approximators, no design space: every ordered component subset, scalar / vector step, default step ----------------
    for method in ("fd", "cd", "cs"):
        for s in ([], [0]):
            A(method=method, n=1, m=1, subset=s)
        A(method=method, n=1, m=2, subset=[])
        for s in ([], [0], [1], [0, 1], [1, 0]):
            A(method=method, n=2, m=1, subset=s)
        for s in ([], [0], [1], [1, 0]):
            A(method=method, n=2, m=2, subset=s)
        A(method=method, n=2, m=1, subset=[], step_at="init")
        if method != "cs":
            A(method=method, n=2, m=2, subset=[], vec_step=True)
            A(method=method, n=2, m=1, subset=[0, 1], vec_step=True, step_at="init")
        if tier == "thorough":
            for s in ([], [0, 1], [2], [0, 2], [2, 0, 1]):
                A(method=method, n=3, m=2, subset=s)
    # ---- approximators with a design space (symbolic bounds), physical and normalized -------------------------------------
    for method in ("fd", "cd"):
        for mode in ("phys", "norm"):
            A(method=method, n=1, m=1, subset=[], ds=mode, layout="B")
            A(method=method, n=2, m=1, subset=[], ds=mode, layout="BB")
            A(method=method, n=2, m=2, subset=[], ds=mode, layout="BU")
            A(method=method, n=2, m=1, subset=[1], ds=mode, layout="BB")
        A(method=method, n=2, m=1, subset=[0], ds="phys", layout="BB")
        A(method=method, n=2, m=1, subset=[1, 0], ds="phys", layout="BB")
        A(method=method, n=2, m=1, subset=[], ds="phys", layout="B,B", vec_step=True)
    A(method="cs", n=2, m=1, subset=[], ds="phys", layout="BB")
    A(method="cs", n=1, m=1, subset=[], ds="norm", layout="B")
    # ---- the same formulas through the parallel code path (_compute_parallel_grad) with an in-order executor stub --------------
    for method in ("fd", "cd", "cs"):
        A(method=method, n=2, m=2, subset=[], parallel=True)
        A(method=method, n=2, m=1, subset=[1, 0], parallel=True)
        if method != "cs":
            A(method=method, n=2, m=1, subset=[], vec_step=True, parallel=True)
            A(method=method, n=1, m=1, subset=[], ds="phys", layout="B", parallel=True)
            A(method=method, n=2, m=1, subset=[], ds="norm", layout="BB", parallel=True)
            A(method=method, n=2, m=1, subset=[1], ds="phys", layout="BB", parallel=True)
    if tier == "thorough":
        for method in ("fd", "cd"):
            for mode in ("phys", "norm"):
                A(method=method, n=2, m=2, subset=[], ds=mode, layout="UB")
                if method == "fd" and mode == "phys":  # (centred: 27 paths x 3-way disjunctions over 20 coefficients need > 10 min; normalized: huge rationals in the models)
                    A(method=method, n=3, m=1, subset=[], ds=mode, layout="BBB")
                A(method=method, n=2, m=1, subset=[], ds=mode, layout="B,B")
    # ---- discipline level ---------------------------------------------------------------------------------------------------
    for method in ("fd", "cd", "cs"):
        h = {}
        D(method=method, via="jacapprox", inputs=["a", "b"], outputs=["y", "z"], **h)
        D(method=method, via="jacapprox", inputs=["a", "b"], outputs=["z", "y"], x_indices=[1], h=0.25)  # concrete step
        D(method=method, via="jacapprox", inputs=["b", "a"], outputs=["z", "y"], x_indices=[0, 1], **h)
        D(method=method, via="jacapprox", inputs=["b", "a"], outputs=["z", "y"], x_indices=[0, 2], **h)
        D(method=method, via="jacapprox", inputs=["a", "b"], outputs=["y"], x_indices=[2], **h)
        D(method=method, via="jacapprox", inputs=["a"], outputs=["y"], **h)
        D(method=method, via="jacapprox", inputs=["b"], outputs=["z", "y"], at_defaults=True, **h)
        D(method=method, via="linearize", inputs=["a", "b"], outputs=["y", "z"], all=True, **h)
        D(method=method, via="linearize", inputs=["b", "a"], outputs=["z"], **h)
        D(method=method, via="linearize", inputs=["a"], outputs=["z", "y"], at_defaults=True, **h)
        D(method=method, via="linearize", inputs=["b"], outputs=["y"], **h)
        for other in ("fd", "cd"):
            if other != method and method != "cs":
                D(method=method, via="switch", inputs=["a", "b"], outputs=["y", "z"], all=True, use_first=(other == "fd"), **{"from": other})
        if method != "cs":
            D(method=method, via="jacapprox", inputs=["a", "b"], outputs=["y", "z"], vec_step=True)
        if tier == "thorough":
            D(method=method, via="jacapprox", inputs=["b", "a"], outputs=["y"], x_indices=[1, 2])
            D(method=method, via="jacapprox", inputs=["a", "b"], outputs=["z", "y"], x_indices=[2, 0])
            D(method=method, via="linearize", inputs=["b", "a"], outputs=["y", "z"])
            D(method=method, via="linearize", inputs=["b"], outputs=["z"], at_defaults=True)
        lin = dict(deg=2, coef="concrete")  # quadratic, fixed coefficients and step: every query is linear in x
        C(method=method, inputs=["a", "b"], outputs=["y"], indices={"a": [0], "b": [], "y": [1]}, **lin)
        C(method=method, inputs=["a", "b"], outputs=["y", "z"], indices={"a": [0], "b": [], "y": [1]}, **lin)
        C(method=method, inputs=["a", "b"], outputs=["y"], indices={"a": [1], "y": [0]}, **lin)
        if method == "cs":  # (each zero test of the complex step doubles the paths: smaller discipline)
            C(method=method, inputs=["a"], outputs=["z"], indices={}, disc_inputs=["a"], disc_outputs=["z"], **lin)
        else:
            C(method=method, inputs=["b", "a"], outputs=["z"], indices={}, disc_outputs=["z"], **lin)
        C(method=method, inputs=["a"], outputs=["y"], indices={"y": [0], "a": [0]}, far_defaults=True, **lin)
        C(method=method, inputs=["a"], outputs=["y"], indices={"y": [0], "a": [0]}, at_defaults=True, **lin)
    return out


HARNESSES = {"approx": h_approx, "disc": h_disc, "checkjac": h_checkjac}
