"""C04 - the reported optimum is the best point of the recorded history."""
from __future__ import annotations

import numpy as np

from harness.common import _plain, _py, elems

NAN = float("nan")
INF = float("inf")

META = dict(
    bounds=dict(
        quick="databases of N<=4 distinct concrete points (N=0 separately); per recorded value a solver-chosen state {real, missing, NaN}: every slot "
              "for N<=2 with at most one constraint, a rotating subset of slots otherwise; constraints in {none, ineq, eq, ineq+eq, vector ineq of size 2, "
              "positive ineq with offset}; both tolerances symbolic >= 0; minimize / maximize; standardized or original objective; values stored as "
              "size-1 arrays or as scalars; gradients recorded at every other slot; with two or more scalar constraint components and an equality constraint "
              "the signs of the equality-constraint values follow a concrete pattern (alternating, its complement, or solver-chosen for N<=2); "
              "Pareto filter on N<=3 x 2 and 2 x 3 symbolic objective matrices with a solver-chosen feasibility mask and NaN entries; ParetoFront selection on "
              "N<=3 points with 2 objectives, constraints and missing values; MultiObjectiveOptimizationResult on N=2 points with 2 objectives",
        thorough="N<=5, more constraint layouts (eq+ineq order, two inequalities, vector equality), every slot free for N<=3 with at most one constraint, "
                 "Pareto filter up to 4 x 2 and 3 x 3",
    ),
    outside=[
        "how a *partially* recorded infeasible point is measured (check_design_point_is_feasible stops at the first missing constraint value: "
        "flag True / measure of the constraints listed before it); minimality is asserted among fully recorded points only and nothing is asserted "
        "about the flag/measure returned for a partially recorded point",
        "vector-valued objectives in OptimizationHistory.optimum (ranked by their Euclidean norm); f_opt of a multi-objective result",
        "completeness of the Pareto filter for points with identical objective vectors (the filter drops every copy); asserted are 'no returned point is "
        "dominated by a feasible one' and 'every feasible point that no other feasible point weakly dominates is returned'",
        "ParetoFront anchors / compromise points / pandas tables; multi-objective results for N>=3 or 3 objectives (sums of squares that z3 does not decide in time)",
        "the objective name reported along with a missing objective value", "ties: which of several equally good points is reported",
        "float64 rounding in norm(...)**2",
    ],
    stubs=[
        "optimization_history.norm and pareto_front.np_norm -> lazy Euclidean norm whose square is the exact sum of squares and whose comparisons with "
        "another norm compare the squares (no sqrt auxiliary variable)",
        "constraints.np_abs and the builtin abs seen by optimization_history -> for the stored equality-constraint values whose sign the harness fixed, "
        "the magnitude (>= 0 by assumption) they were built from; the real abs for everything else",
        "pareto_front.zeros -> object-dtype zeros (value-preserving storage of symbols)",
        "ConstraintTolerances fields assigned directly (the pydantic model does not validate assignments)",
    ],
    assumptions=[
        "tolerances are >= 0 (NonNegativeFloat)", "database keys are distinct concrete points inside the design space",
        "recorded values are finite reals or NaN (no +-inf)", "functions are never evaluated: the report must come from the database alone",
        "harness 'optimum': if some recorded point is feasible then some feasible point has a non-NaN objective value (the complement is the harness 'unvalued')",
        "harness 'multiobjective': feasible points have pairwise distinct objective vectors (the complement is the harness 'multiobjective_duplicates')",
    ],
)

# constraint layouts: (name, type, size, positive, value)
KINDS = {
    "none": [],
    "ineq": [("g", "ineq", 1, False, 0.0)],
    "eq": [("h", "eq", 1, False, 0.0)],
    "ineq+eq": [("g", "ineq", 1, False, 0.0), ("h", "eq", 1, False, 0.0)],
    "eq+ineq": [("h", "eq", 1, False, 0.0), ("g", "ineq", 1, False, 0.0)],
    "vineq": [("g", "ineq", 2, False, 0.0)],
    "veq": [("h", "eq", 2, False, 0.0)],
    "ineq+ineq": [("g", "ineq", 1, False, 0.0), ("gg", "ineq", 1, False, 0.0)],
    "pos-ineq": [("g", "ineq", 1, True, 1.0)],
}


def _never(x):
    raise AssertionError("C04: a problem function was evaluated; the report must be derived from the recorded history alone")


class _LazyNorm:
    """Euclidean norm of a vector of (symbolic) scalars; its square is the exact sum of squares."""

    def __init__(self, sq):
        self.sq = sq

    def _force(self):
        from symgem.core import sym_sqrt

        return sym_sqrt(self.sq)

    def __pow__(self, k):
        if k == 2:
            return self.sq
        return self._force() ** k

    def _cmp(self, o, op):
        """Compare with another norm or a non-negative constant through the squares (both sides are >= 0)."""
        if isinstance(o, _LazyNorm):
            return op(self.sq, o.sq)
        if isinstance(o, (int, float)) and o >= 0:
            if o == INF:
                return op(0.0, 1.0)
            return op(self.sq, o * o)
        return op(self._force(), o)

    def __lt__(self, o):
        return self._cmp(o, lambda a, b: a < b)

    def __le__(self, o):
        return self._cmp(o, lambda a, b: a <= b)

    def __gt__(self, o):
        return self._cmp(o, lambda a, b: a > b)

    def __ge__(self, o):
        return self._cmp(o, lambda a, b: a >= b)

    def __eq__(self, o):
        return self._cmp(o, lambda a, b: a == b)

    __hash__ = None

    def __add__(self, o):
        return self._force() + o

    __radd__ = __add__

    def __mul__(self, o):
        return self._force() * o

    __rmul__ = __mul__


def _install_norm_stub(ctx):
    if not ctx.symbolic:
        return
    import gemseo.algos.optimization_history as oh

    real_norm = oh.norm

    def norm(x, *a, **k):
        if a or k:
            return real_norm(x, *a, **k)
        sq = 0.0
        for e in elems(x):
            sq = sq + e * e
        return _LazyNorm(sq)

    ctx.patch(oh, "norm", norm)


def _install_abs_stub(ctx, registry):
    """|v| of the stored equality-constraint values whose sign the harness fixed: the magnitude they were built from."""
    if not ctx.symbolic:
        return
    import gemseo.algos.optimization_history as oh
    import gemseo.core.mdo_functions.collections.constraints as cs

    real_np_abs = cs.np_abs

    def np_abs(v, *a, **k):
        hit = registry.get(id(v))
        if hit is not None and hit[0] is v and not a and not k:
            return hit[1]
        return real_np_abs(v, *a, **k)

    def builtin_abs(v):
        hit = registry.get(id(v))
        if hit is not None and hit[0] is v:
            return hit[1]
        return abs(v)

    ctx.patch(cs, "np_abs", np_abs)
    ctx.patch(oh, "abs", builtin_abs)


def _state(ctx, cfg, name, slot):
    """0: recorded real value, 1: missing, 2: recorded NaN (chosen by the solver on the slots the configuration frees)."""
    sp = cfg.get("special", "all")
    if sp == "all" or list(slot) in [list(s) for s in sp]:
        return ctx.choice(name, 3)
    return 0


def _build_problem(ctx, cfg):
    from gemseo.algos.design_space import DesignSpace
    from gemseo.algos.optimization_problem import OptimizationProblem
    from gemseo.core.mdo_functions.mdo_function import MDOFunction

    dim = cfg.get("dim", 1)
    ds = DesignSpace()
    ds.add_variable("x", size=dim, lower_bound=0.0, upper_bound=100.0)
    problem = OptimizationProblem(ds, use_standardized_objective=cfg.get("std", True))
    problem.objective = MDOFunction(_never, "f", dim=cfg.get("fdim", 1))
    if cfg.get("maximize", False):
        problem.minimize_objective = False
    for (name, ctype, size, positive, value) in KINDS[cfg["kind"]]:
        problem.add_constraint(MDOFunction(_never, name, dim=size), value=value, constraint_type=ctype, positive=positive)
    problem.preprocess_functions()
    eps_i, eps_e = ctx.real("eps_ineq"), ctx.real("eps_eq")
    ctx.assume(ctx.and_(ctx.le(0.0, eps_i), ctx.le(0.0, eps_e)))
    problem.tolerances.inequality = eps_i
    problem.tolerances.equality = eps_e
    return problem, eps_i, eps_e


def _value(ctx, fmt, vals):
    """The object stored in the database for the component list ``vals`` (floats, NaN or symbols)."""
    if fmt == "scalar" and len(vals) == 1:
        return vals[0]
    return ctx.array(list(vals))


def _fill(ctx, cfg, problem, eps_i, eps_e):
    """Store N points; returns the oracle-side description of what was stored."""
    from gemseo.algos.database import Database

    N, dim, fmt = cfg["N"], cfg.get("dim", 1), cfg.get("fmt", "array")
    eq_sign = cfg.get("eq_sign", "ite")
    registry = {}
    _install_abs_stub(ctx, registry)
    oname = problem.objective.name
    pts = []
    for i in range(N):
        x = np.array([float(i + 1)] + [0.5] * (dim - 1))
        rec = {}
        P = dict(x=x, cons=[], stored=rec)
        st = _state(ctx, cfg, f"sf{i}", (i, 0))
        s = ctx.real(f"f{i}")
        P["obj_state"], P["obj"] = st, s
        if st != 1:
            rec[oname] = _value(ctx, fmt, [s if st == 0 else NAN])
        for c, con in enumerate(problem.constraints):
            size = con.dim
            st = _state(ctx, cfg, f"sc{i}_{c}", (i, c + 1))
            # any real value is "tolerance + excess": with the excess as the symbol, (value - tolerance) stays a plain variable
            is_eq = str(con.f_type) == "eq"
            eps = eps_e if is_eq else eps_i
            vals = [eps + ctx.real(f"c{i}_{c}_{j}") for j in range(size)]
            mags = None
            if is_eq and eq_sign != "ite":
                # any real value is also +-(magnitude) with magnitude >= 0; the sign is concrete (solver-chosen or a pattern of the configuration)
                mags = list(vals)
                for j in range(size):
                    ctx.assume(ctx.le(0.0, mags[j]))
                    neg = ctx.flag(f"neg{i}_{c}_{j}") if eq_sign == "flag" else (i + j + (eq_sign == "alt1")) % 2 == 1
                    if neg:
                        vals[j] = -mags[j]
            if st == 2:
                vals[i % size] = NAN
                if mags is not None:
                    mags[i % size] = NAN
            P["cons"].append(dict(name=con.name, type=str(con.f_type), state=st, vals=vals, mags=mags))
            if st != 1:
                rec[con.name] = _value(ctx, fmt, vals)
                if mags is not None:
                    registry[id(rec[con.name])] = (rec[con.name], _value(ctx, fmt, mags))
                if (i + c) % 2 == 0:  # gradients are passed through: recorded at every other slot
                    rows = [[ctx.real(f"dc{i}_{c}_{j}_{d}") for d in range(dim)] for j in range(size)]
                    rec[Database.get_gradient_name(con.name)] = ctx.array(rows if size > 1 else rows[0])
        problem.database.store(x, rec)
        pts.append(P)
    return pts


def _abs(ctx, v):
    return ctx.ite(ctx.le(0.0, v), v, -v)


def _oracle_point(ctx, P, eps_i, eps_e):
    """feasibility formula and violation measure of a stored point, written from the property statement."""
    rec_all = all(c["state"] != 1 for c in P["cons"])
    has_nan = any(c["state"] == 2 for c in P["cons"])
    sat, viol = [], 0.0
    for c in P["cons"]:
        if c["state"] != 0:
            continue
        for j, v in enumerate(c["vals"]):
            if c["type"] == "ineq":
                a, eps = v, eps_i
            elif c["mags"] is not None:
                a, eps = c["mags"][j], eps_e  # |+-m| = m for the magnitude m >= 0 the value was built from
            else:
                a, eps = _abs(ctx, v), eps_e
            sat.append(ctx.le(a, eps))
            viol = viol + ctx.ite(ctx.lt(eps, a), (a - eps) * (a - eps), 0.0)
    P["rec_all"], P["has_nan"] = rec_all, has_nan
    P["feas"] = ctx.and_(*sat) if (rec_all and not has_nan) else ctx.false()
    P["viol"] = INF if has_nan else viol
    P["real_obj"] = P["obj_state"] == 0


def _same(ctx, label, got, stored):
    """``got`` is the recorded object ``stored`` (or a component-wise equal copy of it); None iff nothing was recorded."""
    if stored is None or got is None:
        ctx.check(f"{label}: None iff not recorded", ctx.true() if (stored is None and got is None) else ctx.false())
        return
    if got is stored:
        ctx.check(f"{label}: is the recorded object", ctx.true())
        return
    ctx.check_eq(label, np.atleast_1d(got), np.atleast_1d(stored))


def _index_of(pts, x):
    for i, P in enumerate(pts):
        if np.shape(x) == P["x"].shape and bool(np.all(np.asarray(x) == P["x"])):
            return i
    return None


def _num(v):
    return [NAN if v is None else v]


def h_optimum(ctx, cfg):
    """feasible_points / check_design_point_is_feasible / optimum / OptimizationResult / last_point against the recorded values."""
    from gemseo.algos.database import Database
    from gemseo.algos.optimization_result import OptimizationResult

    _install_norm_stub(ctx)
    problem, eps_i, eps_e = _build_problem(ctx, cfg)
    pts = _fill(ctx, cfg, problem, eps_i, eps_e)
    N = len(pts)
    for P in pts:
        _oracle_point(ctx, P, eps_i, eps_e)
    any_feas = ctx.or_(*[P["feas"] for P in pts])
    any_feas_valued = ctx.or_(*[P["feas"] for P in pts if P["real_obj"]])
    if cfg.get("scenario", "main") == "main":
        # the other scenario (feasible points exist, none of them has an objective value) is explored by the harness "unvalued"
        ctx.assume(ctx.or_(ctx.not_(any_feas), any_feas_valued))
    else:
        ctx.assume(ctx.and_(any_feas, ctx.not_(any_feas_valued)))
    hist = problem.history

    # ---- feasible_points ------------------------------------------------------------------------
    fx, ff = hist.feasible_points
    listed = [_index_of(pts, x) for x in fx]
    ctx.observe("feasible_points", [float(-1 if k is None else k) for k in listed] + [-2.0] * (N - len(listed)))
    ctx.check("feasible_points: recorded points, in history order", ctx.true() if (None not in listed and listed == sorted(set(listed))) else ctx.false())
    for i, P in enumerate(pts):
        ctx.check(f"feasible_points lists point {i} iff it satisfies every constraint", ctx.iff(P["feas"], i in listed))
    for k, out in zip(listed, ff):
        if k is not None:
            ctx.check(f"feasible_points: outputs of point {k} are the recorded ones", ctx.true() if out is pts[k]["stored"] else ctx.false())

    # ---- check_design_point_is_feasible ---------------------------------------------------------
    for i, P in enumerate(pts):
        flag, measure = hist.check_design_point_is_feasible(P["x"])
        if not P["rec_all"]:
            continue  # unspecified for partially recorded points (see META["outside"])
        ctx.observe(f"measure{i}", [-1.0 if (isinstance(measure, float) and measure == INF) else measure])
        ctx.check(f"check_design_point_is_feasible({i}): flag", ctx.iff(P["feas"], bool(flag)))
        ctx.check(f"check_design_point_is_feasible({i}): measure", ctx.eq(measure, P["viol"]))

    # ---- optimum --------------------------------------------------------------------------------
    sol = problem.optimum
    k = _index_of(pts, sol.design)
    ctx.observe("optimum", [float(-1 if k is None else k), float(bool(sol.is_feasible))])
    _check_solution(ctx, cfg, pts, "optimum", k, sol.objective, sol.is_feasible, sol.constraints, sol.constraint_jacobian, any_feas, any_feas_valued, 1.0)

    # ---- OptimizationResult.from_optimization_problem ---------------------------------------------
    res = OptimizationResult.from_optimization_problem(problem)
    restore = cfg.get("maximize", False) and not cfg.get("std", True)
    kr = _index_of(pts, res.x_opt)
    ctx.observe("result", [float(-1 if kr is None else kr), float(bool(res.is_feasible)), float(-1 if res.optimum_index is None else res.optimum_index)])
    _check_solution(ctx, cfg, pts, "result", kr, res.f_opt, res.is_feasible, res.constraint_values, res.constraints_grad, any_feas, any_feas_valued,
                    -1.0 if restore else 1.0)
    ctx.check("result: optimum_index is the history index of the reported point", ctx.true() if (kr is not None and res.optimum_index == kr) else ctx.false())
    ctx.check("result: same point as history.optimum", ctx.true() if kr == k else ctx.false())
    if res.f_opt is not None:  # (the name reported along with a missing objective value is unspecified)
        ctx.check("result: objective_name", ctx.true() if res.objective_name == ("f" if restore else problem.objective.name) else ctx.false())
    ctx.check("result: x_0 is the first recorded point", ctx.true() if _index_of(pts, res.x_0) == 0 else ctx.false())
    ctx.check("result: x_opt_as_dict", ctx.true() if (kr is not None and bool(np.all(res.x_opt_as_dict["x"] == pts[kr]["x"]))) else ctx.false())

    # ---- last_point -----------------------------------------------------------------------------
    last = hist.last_point
    L = pts[-1]
    ctx.check("last_point: design", ctx.true() if _index_of(pts, last.design) == N - 1 else ctx.false())
    ctx.check("last_point: feasibility flag", ctx.iff(L["feas"], bool(last.is_feasible)))
    _same(ctx, "last_point: objective", last.objective, L["stored"].get(problem.objective.name))
    for c in L["cons"]:
        _same(ctx, f"last_point: constraint {c['name']}", last.constraints.get(c["name"]), L["stored"].get(c["name"]))
        _same(ctx, f"last_point: gradient {c['name']}", last.constraint_jacobian.get(c["name"]), L["stored"].get(Database.get_gradient_name(c["name"])))


def _check_solution(ctx, cfg, pts, lab, k, f_opt, flag, c_vals, c_grads, any_feas, any_feas_valued, sign):
    from gemseo.algos.database import Database

    ctx.check(f"{lab}: the reported design is a recorded point", ctx.true() if k is not None else ctx.false())
    ctx.check(f"{lab}: flagged feasible iff some recorded point satisfies every constraint", ctx.iff(any_feas, bool(flag)))
    if k is None:
        return
    K = pts[k]
    ctx.check(f"{lab}: a feasible point exists => the reported point is feasible", ctx.implies(any_feas, K["feas"]))
    # best feasible point
    ctx.check(f"{lab}: a feasible point with an objective value exists => the reported point has one",
              ctx.implies(any_feas_valued, K["real_obj"]))
    if K["real_obj"]:
        for i, P in enumerate(pts):
            if P["real_obj"]:
                ctx.check(f"{lab}: no feasible recorded point {i} has a strictly smaller standardized objective",
                          ctx.implies(ctx.and_(any_feas, P["feas"]), ctx.le(K["obj"], P["obj"])))
    # least infeasible point (among fully recorded ones; see META["outside"])
    if K["rec_all"]:
        for i, P in enumerate(pts):
            if not P["rec_all"]:
                continue
            if K["has_nan"]:
                ok = ctx.true() if P["has_nan"] else ctx.false()
            elif P["has_nan"]:
                ok = ctx.true()
            else:
                ok = ctx.le(K["viol"], P["viol"])
            ctx.check(f"{lab}: no feasible point => violation measure minimal (vs point {i})", ctx.implies(ctx.not_(any_feas), ok))
    # reported values are those recorded for that very point
    st = K["obj_state"]
    if st == 1:
        ctx.check(f"{lab}: objective None iff not recorded", ctx.true() if f_opt is None else ctx.false())
    elif f_opt is None:
        ctx.check(f"{lab}: objective None iff not recorded", ctx.false())
    elif st == 2:
        ctx.check(f"{lab}: objective is the recorded NaN", ctx.true() if (not isinstance(f_opt, np.ndarray) or f_opt.size == 1) and bool(np.all(np.isnan(f_opt))) else ctx.false())
    else:
        fv = elems(f_opt)
        ctx.observe(f"{lab}:f_opt", fv)
        ctx.check(f"{lab}: objective is the one recorded for the reported point", ctx.eq(fv[0], sign * K["obj"]) if len(fv) == 1 else ctx.false())
    names = [c["name"] for c in K["cons"]]
    ctx.check(f"{lab}: constraint names", ctx.true() if (sorted(c_vals) == sorted(names) and sorted(c_grads) == sorted(names)) else ctx.false())
    for name in names:
        if name in c_vals:
            _same(ctx, f"{lab}: constraint {name}", c_vals[name], K["stored"].get(name))
        if name in c_grads:
            _same(ctx, f"{lab}: gradient {name}", c_grads[name], K["stored"].get(Database.get_gradient_name(name)))


def h_empty(ctx, cfg):
    """Empty history: documented ValueError from the history, an empty result from OptimizationResult."""
    from gemseo.algos.optimization_result import OptimizationResult

    problem, _, _ = _build_problem(ctx, cfg)
    for what in ("optimum", "feasible_points", "last_point"):
        try:
            getattr(problem.history, what)
            ctx.check(f"empty history: {what} raises ValueError", ctx.false())
        except ValueError:
            ctx.check(f"empty history: {what} raises ValueError", ctx.true())
    res = OptimizationResult.from_optimization_problem(problem)
    ctx.check("empty history: empty result", ctx.true() if (res.x_opt is None and res.f_opt is None and res.optimum_index is None
                                                           and res.is_feasible is False and res.n_obj_call == 0) else ctx.false())


# ------------------------------------------------------------------------------------------------
# Pareto
# ------------------------------------------------------------------------------------------------
def _le(ctx, a, b):
    return ctx.false() if (_isnan(a) or _isnan(b)) else ctx.le(a, b)


def _lt(ctx, a, b):
    return ctx.false() if (_isnan(a) or _isnan(b)) else ctx.lt(a, b)


def _isnan(a):
    return isinstance(a, float) and a != a


def _pareto_oracle(ctx, lab, rows, feas, returned):
    """rows[i]: objective vector (symbols / NaN), feas[i]: bool, returned[i]: bool."""
    n = len(rows)
    m = len(rows[0]) if rows else 0
    for i in range(n):
        if returned[i]:
            ctx.check(f"{lab}: returned point {i} is feasible", ctx.true() if feas[i] else ctx.false())
        for j in range(n):
            if j == i or not feas[j]:
                continue
            dom = ctx.and_(*[_le(ctx, rows[j][k], rows[i][k]) for k in range(m)], ctx.or_(*[_lt(ctx, rows[j][k], rows[i][k]) for k in range(m)]))
            if returned[i]:
                ctx.check(f"{lab}: returned point {i} is not dominated by the feasible point {j}", ctx.not_(dom))
        if feas[i]:
            strict = ctx.and_(*[ctx.or_(*[_lt(ctx, rows[i][k], rows[j][k]) for k in range(m)]) for j in range(n) if j != i and feas[j]])
            ctx.check(f"{lab}: feasible point {i} that no other feasible point weakly dominates is returned", ctx.implies(strict, returned[i]))


def h_pareto(ctx, cfg):
    """compute_pareto_optimal_points on a symbolic N x m matrix with a solver-chosen feasibility mask."""
    from gemseo.algos.pareto.utils import compute_pareto_optimal_points

    N, m = cfg["N"], cfg["m"]
    rows = [[ctx.real(f"o{i}_{j}") for j in range(m)] for i in range(N)]
    if cfg.get("nan", False):
        for i in range(N):
            if ctx.flag(f"nan{i}"):
                rows[i][i % m] = NAN
    if cfg["mask"] == "none":
        feas, mask = [True] * N, None
    else:
        feas = [ctx.flag(f"feas{i}") for i in range(N)]
        mask = np.array(feas, dtype=bool)
    obj = ctx.array(rows)
    ret = compute_pareto_optimal_points(obj, mask)
    ctx.observe("pareto", [float(bool(v)) for v in ret])
    ctx.check("pareto: shape", ctx.true() if np.shape(ret) == (N,) else ctx.false())
    _pareto_oracle(ctx, "pareto", rows, feas, [bool(v) for v in ret])


def h_pareto_front(ctx, cfg):
    """ParetoFront's selection of the optima from a recorded history (vector objective, constraints, missing values).

    cfg["full"]: through MultiObjectiveOptimizationResult.from_optimization_problem (the reported multi-objective solution);
    otherwise ParetoFront's selection step alone, which also accepts histories with missing values.
    cfg["duplicates"]: the first two recorded points have the same objective vector (otherwise the vectors are pairwise distinct).
    """
    import gemseo.algos.pareto.pareto_front as pf
    from gemseo.algos.multiobjective_optimization_result import MultiObjectiveOptimizationResult

    if ctx.symbolic:
        from symgem.core import SymArray

        def zeros(shape, *a, **k):
            if k.get("dtype") in (int, bool):
                return np.zeros(shape, *a, **k)
            z = np.empty(shape, dtype=object)
            z[...] = 0.0
            return z.view(SymArray)

        def np_norm(a, axis=None, **k):
            if axis != 1 or k or np.ndim(a) != 2:
                return np.linalg.norm(a, axis=axis, **k)
            out = np.empty(len(a), dtype=object)
            for r, row in enumerate(a):
                sq = 0.0
                for e in elems(row):
                    sq = sq + e * e
                out[r] = _LazyNorm(sq)
            return out

        ctx.patch(pf, "zeros", zeros)
        ctx.patch(pf, "np_norm", np_norm)
    _install_norm_stub(ctx)
    m = cfg["fdim"]
    full = cfg.get("full", False)
    problem, eps_i, eps_e = _build_problem(ctx, cfg)
    oname = problem.objective.name
    N = cfg["N"]
    rows, feas, xs = [], [], []
    for i in range(N):
        x = np.array([float(i + 1)])
        rec = {}
        row = [ctx.real(f"o{i}_{j}") for j in range(m)]
        have_obj = not (cfg.get("missing", False) and ctx.flag(f"noobj{i}"))
        if have_obj:
            rec[oname] = ctx.array(list(row))
        sat = []
        rec_all = True
        for c, con in enumerate(problem.constraints):
            if cfg.get("missing", False) and ctx.flag(f"nocon{i}_{c}"):
                rec_all = False
                continue
            v = ctx.real(f"c{i}_{c}")
            rec[con.name] = ctx.array([v])
            sat.append(ctx.le(v, eps_i) if str(con.f_type) == "ineq" else ctx.le(_abs(ctx, v), eps_e))
        problem.database.store(x, rec)
        rows.append(row)
        xs.append(x)
        feas.append(ctx.and_(*sat) if (rec_all and have_obj) else ctx.false())
    same = lambda a, b: ctx.and_(*[ctx.eq(rows[a][k], rows[b][k]) for k in range(m)])  # noqa: E731
    if cfg.get("duplicates", False):
        ctx.assume(ctx.and_(same(0, 1), feas[0], feas[1]))
    elif full:
        # identical objective vectors at two feasible points are the subject of the harness "multiobjective_duplicates"
        for a in range(N):
            for b in range(a + 1, N):
                ctx.assume(ctx.not_(ctx.and_(same(a, b), feas[a], feas[b])))
    any_feas = ctx.or_(*feas)
    if full:
        res = MultiObjectiveOptimizationResult.from_optimization_problem(problem)
        ctx.check("multiobjective: a Pareto front is reported iff some recorded point is feasible", ctx.iff(any_feas, res.pareto_front is not None))
        ctx.check("multiobjective: feasibility flag", ctx.iff(any_feas, bool(res.is_feasible)))
        if res.pareto_front is None:
            f_opt, x_opt = [], []
        else:
            f_opt, x_opt = res.pareto_front.f_optima, res.pareto_front.x_optima
            ctx.check("multiobjective: the front is not empty", ctx.true() if len(f_opt) > 0 else ctx.false())
            ut = elems(res.pareto_front.f_utopia)
            for k in range(m):
                col = [elems(fo)[k] for fo in f_opt]
                ctx.check(f"multiobjective: utopia[{k}] is the smallest value of objective {k} on the front",
                          ctx.and_(ctx.or_(*[ctx.eq(ut[k], v) for v in col]), *[ctx.le(ut[k], v) for v in col]))
    else:
        f_opt, x_opt = pf.ParetoFront._ParetoFront__get_optima(problem)
    ctx.check("pareto_front: one design per optimum", ctx.true() if len(f_opt) == len(x_opt) else ctx.false())
    returned = [False] * N
    for fo, xo in zip(f_opt, x_opt):
        k = next((i for i in range(N) if bool(np.all(np.asarray(xo, dtype=float) == xs[i]))), None)
        ctx.check("pareto_front: the optimum is a recorded point", ctx.true() if k is not None else ctx.false())
        if k is None:
            continue
        returned[k] = True
        ctx.check_eq(f"pareto_front: objective of the optimum {k} is the recorded one", np.asarray(_plain(fo) if isinstance(fo, np.ndarray) else fo), np.array(rows[k], dtype=object))
    ctx.observe("pareto_front", [float(r) for r in returned])
    # the feasibility of each point is a formula here: state the oracle under the path condition
    for i in range(N):
        if returned[i]:
            ctx.check(f"pareto_front: returned point {i} is feasible", feas[i])
            for j in range(N):
                if j != i:
                    dom = ctx.and_(*[ctx.le(rows[j][k], rows[i][k]) for k in range(m)], ctx.or_(*[ctx.lt(rows[j][k], rows[i][k]) for k in range(m)]))
                    ctx.check(f"pareto_front: returned point {i} is not dominated by the feasible point {j}", ctx.not_(ctx.and_(feas[j], dom)))
        else:
            strict = ctx.and_(feas[i], *[ctx.implies(feas[j], ctx.or_(*[ctx.lt(rows[i][k], rows[j][k]) for k in range(m)])) for j in range(N) if j != i])
            ctx.check(f"pareto_front: feasible point {i} that no other feasible point weakly dominates is returned", ctx.not_(strict))


def _slots(N, ncons, r):
    """A rotating subset of (point, value) slots whose state {real, missing, NaN} is left to the solver (slot 0: objective, c+1: constraint c)."""
    return [[i, (i + r) % (ncons + 1)] for i in range(N)]


MODES = {"min": dict(maximize=False, std=True), "max-std": dict(maximize=True, std=True), "max-orig": dict(maximize=True, std=False)}


def _opt(kind, N, special, mode="min", fmt="array", **kw):
    cfg = dict(kind=kind, N=N, special=special, fmt=fmt, **MODES[mode])
    if any(t == "eq" for (_, t, _, _, _) in KINDS[kind]) and len(KINDS[kind]) + sum(sz for (_, _, sz, _, _) in KINDS[kind]) > 2:
        cfg["eq_sign"] = "alt0"  # sums of several squares: the signs of the equality-constraint values are a concrete pattern (see META)
    cfg.update(kw)
    return ("unvalued" if cfg.get("scenario") == "unvalued" else "optimum", cfg)


def configs(tier):
    out = []
    quick = tier == "quick"
    single = ["none", "ineq", "eq", "pos-ineq"]
    multi = ["ineq+eq", "vineq"] if quick else ["ineq+eq", "eq+ineq", "vineq", "veq", "ineq+ineq"]
    for kind in single:
        nc = len(KINDS[kind])
        for fmt in ("array", "scalar"):
            out.append(_opt(kind, 1, "all", "max-std", fmt))
            out.append(_opt(kind, 2, "all", "min", fmt))
            out.append(_opt(kind, 2, "all", "max-orig", fmt))
            out.append(_opt(kind, 2, "all", fmt=fmt, scenario="unvalued"))
        for r in range(nc + 1):
            out.append(_opt(kind, 3, _slots(3, nc, r), ("min", "max-orig")[r % 2], ("array", "scalar")[r % 2]))
        out.append(_opt(kind, 4, [], "min"))
        out.append(_opt(kind, 4, [[1, 0], [2, nc]], "max-orig", dim=2))
        if not quick:
            out.append(_opt(kind, 3, "all", "min"))
            out.append(_opt(kind, 3, "all", "max-orig", "scalar"))
            for r in range(nc + 1):
                out.append(_opt(kind, 4, _slots(4, nc, r), ("max-std", "min")[r % 2]))
            out.append(_opt(kind, 5, [], "max-std"))
            out.append(_opt(kind, 5, [[0, nc], [3, 0], [4, nc]], "min", "scalar"))
    for kind in multi:
        nc = len(KINDS[kind])
        has_eq = any(t == "eq" for (_, t, _, _, _) in KINDS[kind])
        for fmt in ("array", "scalar"):
            if fmt == "scalar" and kind in ("vineq", "veq"):
                continue
            out.append(_opt(kind, 1, "all", "max-orig", fmt, **(dict(eq_sign="flag") if has_eq else {})))
            for r in range(nc + 1):
                out.append(_opt(kind, 2, _slots(2, nc, r), ("min", "max-orig", "max-std")[r % 3], fmt, **(dict(eq_sign=("alt1", "flag", "alt0")[r % 3]) if has_eq else {})))
            out.append(_opt(kind, 2, [[0, 0], [0, 1], [1, 0], [1, nc]], fmt=fmt, scenario="unvalued"))
        out.append(_opt(kind, 3, [], "min"))
        out.append(_opt(kind, 3, [[1, nc]], "max-orig", **(dict(eq_sign="alt1") if has_eq else {})))
        out.append(_opt(kind, 3, [[0, 0], [2, 1]], "min", "scalar" if kind not in ("vineq", "veq") else "array"))
        if not quick:
            out.append(_opt(kind, 2, "all", "min", **(dict(eq_sign="flag") if has_eq else {})))
            for r in range(nc + 1):
                out.append(_opt(kind, 3, _slots(3, nc, r), ("max-std", "min", "max-orig")[r % 3], **(dict(eq_sign=("alt1", "alt0")[r % 2]) if has_eq else {})))
            out.append(_opt(kind, 4, [], "min"))
            out.append(_opt(kind, 4, [[3, nc]], "max-orig", **(dict(eq_sign="alt1") if has_eq else {})))
    out.append(("empty", dict(kind="ineq+eq", maximize=True, std=False)))
    out.append(("empty", dict(kind="none")))
    for N, m in (((2, 2), (3, 2), (2, 3)) if quick else ((2, 2), (3, 2), (4, 2), (2, 3), (3, 3))):
        for mask in ("none", "flags"):
            out.append(("pareto", dict(N=N, m=m, mask=mask)))
        if N <= 3:
            out.append(("pareto", dict(N=N, m=m, mask="flags", nan=True)))
    for kind in ("none", "ineq", "ineq+eq"):
        out.append(("pareto_front", dict(kind=kind, N=3, fdim=2, missing=False)))
        out.append(("pareto_front", dict(kind=kind, N=2 if quick else 3, fdim=2, missing=True)))
        out.append(("multiobjective", dict(kind=kind, N=2, fdim=2, full=True)))
    # (longer multi-objective histories through the full result are out of reach: OptimizationHistory.optimum ranks vector objectives by
    #  their norms and ParetoFront measures distances to the utopia, i.e. comparisons of sums of squares that z3 does not decide in time)
    out.append(("multiobjective_duplicates", dict(kind="none", N=2, fdim=2, full=True, duplicates=True)))
    out.append(("multiobjective_duplicates", dict(kind="ineq", N=2, fdim=2, full=True, duplicates=True)))
    # drop duplicates (same harness, same cfg)
    seen, uniq = set(), []
    for hname, cfg in out:
        key = (hname, repr(sorted(cfg.items(), key=lambda kv: kv[0])))
        if key not in seen:
            seen.add(key)
            uniq.append((hname, cfg))
    return uniq


HARNESSES = {"optimum": h_optimum, "unvalued": h_optimum, "empty": h_empty, "pareto": h_pareto, "pareto_front": h_pareto_front,
             "multiobjective": h_pareto_front, "multiobjective_duplicates": h_pareto_front}
