"""C08 - execution sequences respect data dependencies and composition is exact.

Three harnesses over one family of systems: ``n`` disciplines, discipline ``j`` owns the output ``y{j}`` and the external
input ``x{j}``; a solver-chosen boolean ``e{i}{j}`` (``ctx.flag``) per ordered pair (i, j), ``i == j`` included, decides
whether ``y{i}`` is an input of discipline ``j``.  The harness builds the grammars accordingly, so every directed
data-dependency graph (with self-loops and isolated nodes) over ``n`` nodes is enumerated by the explorer; part of the
adjacency matrix can be fixed by ``cfg["fixed"]`` to spread the enumeration over worker processes.

* ``graph``: real ``CouplingStructure`` / ``DependencyGraph`` on trivial disciplines; the oracle recomputes reachability
  with explicit loops over the chosen flags.  Every path is concrete once the flags are chosen: here the solver
  contributes the exhaustive (pruned) enumeration of the graphs and the counterexample, not reasoning inside a path.
* ``mdachain``: structure of ``MDAChain(disciplines)`` for every graph (one inner MDA per cyclic group, every discipline
  exactly once, processes ordered along the data flow).
* ``composition``: for every acyclic graph, disciplines whose outputs are uninterpreted functions of their inputs and
  symbolic external inputs; ``MDOChain`` / chain of ``MDOParallelChain`` built in the order of the real ``sequence`` and
  ``MDAChain(disciplines)`` must return, for every output, exactly the term obtained by substituting producers into
  consumers (harness oracle: topological evaluation), for every listing order of the disciplines.
"""
from __future__ import annotations

import itertools

import numpy as np

from harness.common import elems

META = dict(
    bounds=dict(
        quick="graph: ALL directed dependency graphs with self-loops on n<=3 disciplines (2^(n^2) graphs: 2, 16, 512) and ALL 4096 loop-free graphs on n=4, "
              "with distinct or duplicated discipline names, with and without extra non-coupling variables; mdachain: all graphs on n<=3, sequential and "
              "parallel tasks; composition: ALL acyclic graphs on n<=3 disciplines (1, 3, 25) x all listing orders x {MDOChain in sequence order, chain of "
              "MDOParallelChain per stage, MDAChain sequential / with parallel tasks / without cache}, plus stale values passed for the computed variables; "
              "scalar variables",
        thorough="graph: ALL 65536 graphs on n=4 (first row of the adjacency matrix fixed per configuration) in addition to n<=3; mdachain: n<=3; "
                 "composition: ALL acyclic graphs on n<=4 x all listing orders",
    ),
    outside=[
        "in the graph and mdachain harnesses every explored path is concrete (the flags are forked at once): the solver contributes exhaustive pruned "
        "enumeration of the graphs and counterexamples, no reasoning inside a path",
        "cyclic groups are not executed (convergence of the inner MDAs is C06)",
        "order of the groups inside one stage and order of the returned name lists (undocumented): compared as sets",
        "weak_couplings: the property docstring says 'the outputs of the weakly coupled disciplines' while a comment in the code says '... that are inputs "
        "of any other discipline': only the part on which both readings agree is asserted (used outputs of weak disciplines must be there, nothing "
        "but outputs of weak disciplines may be there)",
        "all_couplings: 'inputs of disciplines that are also outputs of other disciplines'; a variable that is only an input of its own producer "
        "(pure self-coupling) is accepted both in and out",
        "get_input_couplings/get_output_couplings with strong=False (docstring says 'weak', code uses all couplings): not asserted",
        "disciplines with several coupling outputs, outputs produced by two disciplines, namespaces, the same discipline object listed twice",
        "rendering of the graphs (graphviz), N2 charts",
        "vector-valued variables (size 1 everywhere), Jacobians (C09)",
    ],
    stubs=["harness disciplines use SimpleGrammar and no cache", "MDOParallelChain with threads, n_processes=1",
           "MDAChain executed with cache NONE in the 'mdachain-nocache' variants (default SimpleCache otherwise)"],
    assumptions=["one coupling output per discipline", "composition: the dependency graph is acyclic, discipline outputs are uninterpreted functions of the "
                 "flattened inputs in sorted name order", "all inputs are supplied by the caller (no default inputs)"],
)

_CLS = {}


def _classes():
    """Harness discipline classes (created once per process, after gemseo is importable)."""
    if _CLS:
        return _CLS
    from gemseo.core.discipline import Discipline

    class GraphDisc(Discipline):
        """Trivial discipline: only its grammars matter."""

        default_grammar_type = Discipline.GrammarType.SIMPLE
        default_cache_type = Discipline.CacheType.NONE

        def __init__(self, name, ins, outs):
            super().__init__(name)
            self.io.input_grammar.update_from_names(ins)
            self.io.output_grammar.update_from_names(outs)

        def _run(self, input_data):
            return {k: np.ones(1) for k in self.io.output_grammar}

    class UFDisc(Discipline):
        """Each output is an uninterpreted function of the flattened inputs taken in sorted name order."""

        default_grammar_type = Discipline.GrammarType.SIMPLE
        default_cache_type = Discipline.CacheType.NONE

        def __init__(self, name, ins, funcs, ctx, log):
            super().__init__(name)
            self.io.input_grammar.update_from_names(ins)
            self.io.output_grammar.update_from_names(list(funcs))
            self._ins, self._funcs, self._ctx, self._log = sorted(ins), funcs, ctx, log

        def _run(self, input_data):
            args = []
            for k in self._ins:
                args += elems(input_data[k])
            self._log.append(self.name)
            return {o: self._ctx.array([f(*args)]) for o, f in self._funcs.items()}

    _CLS.update(GraphDisc=GraphDisc, UFDisc=UFDisc)
    return _CLS


# ------------------------------------------------------------------------------------------------
# the family of systems
# ------------------------------------------------------------------------------------------------
def _adjacency(ctx, n, cfg, self_loops=True):
    """E[i][j]: y_i is an input of discipline j; fixed by the configuration or chosen by the solver."""
    fixed = cfg.get("fixed", {})
    E = [[False] * n for _ in range(n)]
    for i in range(n):
        for j in range(n):
            if i == j and not self_loops:
                continue
            key = f"e{i}{j}"
            E[i][j] = bool(fixed[key]) if key in fixed else ctx.flag(key)
    return E


def _io_names(n, E, extra):
    """Input / output names of each discipline of the family."""
    ins, outs = [], []
    for j in range(n):
        a = [f"x{j}"] + [f"y{i}" for i in range(n) if E[i][j]]
        b = [f"y{j}"]
        if extra:
            a.append("u")          # an external input shared by all the disciplines (not a coupling)
            b.append(f"z{j}")      # an output that nobody consumes (not a coupling)
        ins.append(a)
        outs.append(b)
    return ins, outs


def _names(n, cfg):
    return ["D"] * n if cfg.get("names") == "dup" else [f"D{j}" for j in range(n)]


def _reach(n, E):
    """R[i][j]: a path of length >= 1 from i to j along edges between DISTINCT disciplines (bounded unrolling, n steps)."""
    R = [[bool(E[i][j]) and i != j for j in range(n)] for i in range(n)]
    for _ in range(n):
        R = [[R[i][j] or any(R[i][k] and R[k][j] for k in range(n)) for j in range(n)] for i in range(n)]
    return R


def _same_group(R, i, j):
    return i == j or (R[i][j] and R[j][i])


def _b(ctx, v):
    return ctx.true() if v else ctx.false()


def _index(objs, d):
    for k, o in enumerate(objs):
        if o is d:
            return k
    return None


def _locate(ctx, seq, discs, label):
    """stage / group position of every discipline in a nested sequence; checks 'exactly once'."""
    n = len(discs)
    where = [[] for _ in range(n)]
    foreign = 0
    for s, stage in enumerate(seq):
        for g, group in enumerate(stage):
            for p, d in enumerate(group):
                k = _index(discs, d)
                if k is None:
                    foreign += 1
                else:
                    where[k].append((s, g, p))
    ctx.check(f"{label}: only the given disciplines appear", _b(ctx, foreign == 0))
    ok = True
    for k in range(n):
        ctx.check(f"{label}: discipline {k} appears exactly once", _b(ctx, len(where[k]) == 1))
        ok = ok and len(where[k]) == 1
    return where if ok else None


# ------------------------------------------------------------------------------------------------
# (1) graph
# ------------------------------------------------------------------------------------------------
def h_graph(ctx, cfg):
    from gemseo.core.coupling_structure import CouplingStructure
    from gemseo.core.dependency_graph import DependencyGraph

    n, extra = cfg["n"], cfg.get("extra", False)
    E = _adjacency(ctx, n, cfg)
    ins, outs = _io_names(n, E, extra)
    names = _names(n, cfg)
    GraphDisc = _classes()["GraphDisc"]
    discs = [GraphDisc(names[j], ins[j], outs[j]) for j in range(n)]

    R = _reach(n, E)
    selfc = [bool(E[i][i]) for i in range(n)]
    in_cycle = [any(j != i and _same_group(R, i, j) for j in range(n)) for i in range(n)]   # member of a group of size > 1
    strong_d = [in_cycle[i] or selfc[i] for i in range(n)]                                  # lies on a cycle of the coupling graph
    used_by_other = [any(E[i][j] for j in range(n) if j != i) for i in range(n)]

    cs = CouplingStructure(discs)
    seq = cs.sequence
    ctx.observe("n_stages", [float(len(seq))])

    # ---- the sequence is a valid schedule ---------------------------------------------------
    where = _locate(ctx, seq, discs, "sequence")
    if where is not None:
        st = [w[0][0] for w in where]
        gr = [w[0][:2] for w in where]
        for i in range(n):
            for j in range(i + 1, n):
                ctx.check(f"sequence: {i} and {j} share a group iff mutually dependent", _b(ctx, (gr[i] == gr[j]) == _same_group(R, i, j)))
                # the order of the members inside a group is not part of the property: not asserted
        for i in range(n):
            for j in range(n):
                if i != j and E[i][j] and not _same_group(R, i, j):
                    ctx.check(f"sequence: producer {i} in a strictly earlier stage than consumer {j}", _b(ctx, st[i] < st[j]))

    # ---- self-coupling, strongly / weakly coupled disciplines ---------------------------------
    for i in range(n):
        ctx.check(f"is_self_coupled({i})", _b(ctx, bool(cs.is_self_coupled(discs[i])) == selfc[i]))

    def idx_list(ds):
        return [_index(discs, d) for d in ds]

    for add_self in (True, False):
        want = [i for i in range(n) if in_cycle[i] or (add_self and selfc[i])]
        got = idx_list(cs.get_strongly_coupled_disciplines(add_self_coupled=add_self, by_group=False))
        ctx.check(f"get_strongly_coupled_disciplines(add_self_coupled={add_self}): members", _b(ctx, sorted(got, key=str) == want))
        groups = [sorted(idx_list(g), key=str) for g in cs.get_strongly_coupled_disciplines(add_self_coupled=add_self, by_group=True)]
        want_groups = []
        for i in want:
            if not any(i in g for g in want_groups):
                want_groups.append([j for j in range(n) if _same_group(R, i, j)])    # members in listing order
        ctx.check(f"get_strongly_coupled_disciplines(add_self_coupled={add_self}, by_group): the cyclic groups",
                  _b(ctx, sorted(groups, key=str) == sorted(want_groups, key=str)))
    ctx.check("strongly_coupled_disciplines: the disciplines that lie in cycles",
              _b(ctx, sorted(idx_list(cs.strongly_coupled_disciplines), key=str) == [i for i in range(n) if strong_d[i]]))
    ctx.check("weakly_coupled_disciplines: the disciplines that do not appear in cycles",
              _b(ctx, sorted(idx_list(cs.weakly_coupled_disciplines), key=str) == [i for i in range(n) if not strong_d[i]]))

    # ---- coupling variables ---------------------------------------------------------------------
    # strong: "outputs of the strongly coupled disciplines that are also inputs of the strongly coupled disciplines".  In this
    # family (one coupling output per discipline) a strongly coupled discipline always feeds its own group, so the reading
    # "inside its group" and the reading "of any strongly coupled discipline" coincide.
    strong = list(cs.strong_couplings)
    ctx.check("strong_couplings", _b(ctx, set(strong) == {f"y{i}" for i in range(n) if strong_d[i]}))
    weak = set(cs.weak_couplings)
    weak_outs = {o for i in range(n) if not strong_d[i] for o in outs[i]}
    ctx.check("weak_couplings: every used output of a weakly coupled discipline", _b(ctx, {f"y{i}" for i in range(n) if not strong_d[i] and used_by_other[i]} <= weak))
    ctx.check("weak_couplings: only outputs of weakly coupled disciplines", _b(ctx, weak <= weak_outs))
    allc = set(cs.all_couplings)
    ctx.check("all_couplings: every variable produced by a discipline and consumed by another one", _b(ctx, {f"y{i}" for i in range(n) if used_by_other[i]} <= allc))
    ctx.check("all_couplings: only variables that are produced and consumed", _b(ctx, allc <= {f"y{i}" for i in range(n) if used_by_other[i] or selfc[i]}))
    for i in range(n):
        ctx.check(f"get_output_couplings({i}, strong)", _b(ctx, set(cs.get_output_couplings(discs[i])) == ({f"y{i}"} if strong_d[i] else set())))
        ctx.check(f"get_input_couplings({i}, strong)", _b(ctx, set(cs.get_input_couplings(discs[i])) == {f"y{k}" for k in range(n) if E[k][i] and strong_d[k]}))
        ctx.check(f"find_discipline(y{i})", _b(ctx, cs.find_discipline(f"y{i}") is discs[i]))

    # ---- the dependency graph itself ------------------------------------------------------------
    dg = DependencyGraph(discs)
    nodes = list(dg.graph.nodes)
    ctx.check("graph: the nodes are the disciplines", _b(ctx, len(nodes) == n and all(_index(nodes, d) is not None for d in discs)))
    edges = {(_index(discs, a), _index(discs, b2)): set(io) for a, b2, io in dg.graph.edges(data=DependencyGraph.IO)}
    want_edges = {(i, j): {f"y{i}"} for i in range(n) for j in range(n) if i != j and E[i][j]}
    ctx.check("graph: one edge per (producer, consumer) pair carrying the coupled names", _b(ctx, edges == want_edges))
    cpl = [(_index(discs, a), _index(discs, b2), list(v)) for a, b2, v in dg.get_disciplines_couplings()]
    ctx.check("get_disciplines_couplings", _b(ctx, sorted(cpl, key=str) == sorted(((i, j, [f"y{i}"]) for (i, j) in want_edges), key=str)))
    where2 = _locate(ctx, dg.get_execution_sequence(), discs, "get_execution_sequence")
    ctx.check("get_execution_sequence is the coupling structure's sequence", _b(ctx, where2 == where))


# ------------------------------------------------------------------------------------------------
# (2) structure of the MDA chain
# ------------------------------------------------------------------------------------------------
def _leaves(process, discs):
    """Harness disciplines below a process, in execution order."""
    if _index(discs, process) is not None:
        return [process]
    out = []
    for d in process.disciplines:
        out += _leaves(d, discs)
    return out


def h_mdachain(ctx, cfg):
    from gemseo.core.chains.chain import MDOChain
    from gemseo.core.chains.parallel_chain import MDOParallelChain
    from gemseo.mda.base_mda import BaseMDA
    from gemseo.mda.mda_chain import MDAChain

    n, extra = cfg["n"], cfg.get("extra", False)
    E = _adjacency(ctx, n, cfg)
    ins, outs = _io_names(n, E, extra)
    names = _names(n, cfg)
    GraphDisc = _classes()["GraphDisc"]
    discs = [GraphDisc(names[j], ins[j], outs[j]) for j in range(n)]
    R = _reach(n, E)
    selfc = [bool(E[i][i]) for i in range(n)]
    cyclic = [selfc[i] or any(j != i and _same_group(R, i, j) for j in range(n)) for i in range(n)]

    settings = {}
    if cfg.get("parallel"):
        settings = dict(mdachain_parallelize_tasks=True, mdachain_parallel_settings=dict(use_threading=True, n_processes=1))
    mda = MDAChain(discs, **settings)
    top = list(mda.mdo_chain.disciplines)
    ctx.observe("n_processes", [float(len(top))])
    # every discipline is executed by exactly one process of the chain, once
    flat = [(s, d) for s, p in enumerate(top) for d in _leaves(p, discs)]
    pos = []
    for i in range(n):
        at = [s for s, d in flat if d is discs[i]]
        ctx.check(f"mdachain: discipline {i} appears exactly once", _b(ctx, len(at) == 1))
        pos.append(at[0] if len(at) == 1 else None)
    ctx.check("mdachain: only the given disciplines appear", _b(ctx, len(flat) == n))
    if None in pos:
        return
    # every discipline lying on a cycle is solved by an MDA, together with the members of its group (how the rest is wrapped is
    # an implementation choice and is not asserted)
    def mdas_above(process, target, acc):
        if process is target:
            return acc
        if _index(discs, process) is not None:
            return None
        for d in process.disciplines:
            r = mdas_above(d, target, acc + ([process] if isinstance(process, BaseMDA) else []))
            if r is not None:
                return r
        return None

    for i in range(n):
        above = mdas_above(top[pos[i]], discs[i], [])
        ctx.check(f"mdachain: discipline {i} found in the chain", _b(ctx, above is not None))
        if cyclic[i] and above is not None:
            ctx.check(f"mdachain: discipline {i} lies on a cycle, hence is inside an MDA", _b(ctx, len(above) >= 1))
            if above:
                members = {_index(discs, d) for d in _leaves(above[-1], discs)}
                ctx.check(f"mdachain: the MDA solving discipline {i} holds its whole group",
                          _b(ctx, all(j in members for j in range(n) if _same_group(R, i, j))))
    # data flow: a consumer outside the producer's group is executed in a strictly later top-level process
    for i in range(n):
        for j in range(n):
            if i != j and E[i][j] and not _same_group(R, i, j):
                ctx.check(f"mdachain: producer {i} executed in an earlier process than consumer {j}", _b(ctx, pos[i] < pos[j]))
    # the MDA chain needs exactly the external inputs plus the couplings that need an initial guess
    got_in = set(mda.io.input_grammar)
    ext = {f"x{j}" for j in range(n)} | ({"u"} if extra else set())
    ctx.check("mdachain: external inputs are inputs of the chain", _b(ctx, ext <= got_in))
    ctx.check("mdachain: no variable computed upstream by a non-cyclic producer is required as an input",
              _b(ctx, all(not (f"y{i}" in got_in) for i in range(n) if not cyclic[i])))
    want_out = {o for j in range(n) for o in outs[j]}
    ctx.check("mdachain: every discipline output is an output of the chain", _b(ctx, want_out <= set(mda.io.output_grammar)))


# ------------------------------------------------------------------------------------------------
# (1b) graph with two coupling outputs per discipline
# ------------------------------------------------------------------------------------------------
def h_graph2(ctx, cfg):
    """Discipline i produces y{i} (consumed per e_ij, self-loops included) AND w{i} (consumed per g_ij, j != i): a variable may
    then flow from one cyclic group to another one without being consumed in its own group.  Strong couplings are the variables
    produced and consumed inside one and the same strongly connected group (the coupling sets "implied by the graph")."""
    from gemseo.core.coupling_structure import CouplingStructure

    n = cfg["n"]
    E = _adjacency(ctx, n, cfg)
    wsrc = cfg.get("w_sources", list(range(n)))
    fixed = cfg.get("fixed", {})
    G = [[False] * n for _ in range(n)]
    for i in wsrc:
        for j in range(n):
            if i != j:
                key = f"g{i}{j}"
                G[i][j] = bool(fixed[key]) if key in fixed else ctx.flag(key)
    ins = [[f"x{j}"] + [f"y{i}" for i in range(n) if E[i][j]] + [f"w{i}" for i in range(n) if G[i][j]] for j in range(n)]
    outs = [[f"y{j}", f"w{j}"] for j in range(n)]
    GraphDisc = _classes()["GraphDisc"]
    discs = [GraphDisc(f"D{j}", ins[j], outs[j]) for j in range(n)]
    A = [[E[i][j] or G[i][j] for j in range(n)] for i in range(n)]
    R = _reach(n, A)
    cs = CouplingStructure(discs)
    where = _locate(ctx, cs.sequence, discs, "sequence")
    if where is not None:
        st = [w[0][0] for w in where]
        gr = [w[0][:2] for w in where]
        for i in range(n):
            for j in range(i + 1, n):
                ctx.check(f"sequence: {i} and {j} share a group iff mutually dependent", _b(ctx, (gr[i] == gr[j]) == _same_group(R, i, j)))
        for i in range(n):
            for j in range(n):
                if i != j and A[i][j] and not _same_group(R, i, j):
                    ctx.check(f"sequence: producer {i} in a strictly earlier stage than consumer {j}", _b(ctx, st[i] < st[j]))
    want = set()
    for i in range(n):
        on_cycle = E[i][i] or any(j != i and _same_group(R, i, j) for j in range(n))
        if not on_cycle:
            continue
        if any(E[i][j] for j in range(n) if _same_group(R, i, j)):
            want.add(f"y{i}")
        if any(G[i][j] for j in range(n) if j != i and _same_group(R, i, j)):
            want.add(f"w{i}")
    got = set(cs.strong_couplings)
    ctx.check(f"strong_couplings {sorted(got)} == variables produced and consumed inside one cyclic group {sorted(want)}", _b(ctx, got == want))
    ctx.observe("n_strong", [float(len(got))])


# ------------------------------------------------------------------------------------------------
# (1c) initialization order from the default inputs
# ------------------------------------------------------------------------------------------------
def h_initchain(ctx, cfg):
    """order_disciplines_from_default_inputs / MDOInitializationChain: the returned order contains every discipline once and each
    discipline only needs data that are defaults, declared available, or produced EARLIER in that order; it fails (ValueError, or
    the list of missing inputs) exactly when no complete order exists."""
    from gemseo.core.chains.initialization_chain import MDOInitializationChain, order_disciplines_from_default_inputs

    n = cfg["n"]
    E = _adjacency(ctx, n, cfg)
    has_default_x = [ctx.flag(f"dx{j}") for j in range(n)]      # the external input x_j has a default value
    has_default_y = [ctx.flag(f"dy{j}") for j in range(n)]      # the coupling inputs of discipline j have default values
    avail_x = [ctx.flag(f"ax{j}") for j in range(n)] if cfg.get("available") else [False] * n
    ins, outs = _io_names(n, E, False)
    GraphDisc = _classes()["GraphDisc"]
    discs = [GraphDisc(f"D{j}", ins[j], outs[j]) for j in range(n)]
    for j, d in enumerate(discs):
        if has_default_x[j]:
            d.io.input_grammar.defaults[f"x{j}"] = np.ones(1)
        if has_default_y[j]:
            for i in range(n):
                if E[i][j]:
                    d.io.input_grammar.defaults[f"y{i}"] = np.ones(1)
    available = [f"x{j}" for j in range(n) if avail_x[j]]
    # oracle: least fixed point of "executable once its non-default inputs are available"
    have = set(available)
    done = []
    progress = True
    while progress:
        progress = False
        for j in range(n):
            if j in done:
                continue
            need = {k for k in ins[j] if not ((k == f"x{j}" and has_default_x[j]) or (k.startswith("y") and has_default_y[j]))}
            if need <= have:
                done.append(j)
                have |= set(outs[j])
                progress = True
    feasible = len(done) == n
    got = order_disciplines_from_default_inputs(discs, raise_error=False, available_data_names=available)
    is_order = all(not isinstance(g, str) for g in got) and len(got) > 0
    ctx.check("an order is returned iff every discipline can be initialized", _b(ctx, is_order == feasible or (n == 0)))
    if feasible and is_order:
        idx = [_index(discs, d) for d in got]
        ctx.check("every discipline appears exactly once", _b(ctx, sorted(i for i in idx if i is not None) == list(range(n)) and len(idx) == n))
        have2 = set(available)
        ok = True
        for j in idx:
            if j is None:
                ok = False
                break
            need = {k for k in ins[j] if not ((k == f"x{j}" and has_default_x[j]) or (k.startswith("y") and has_default_y[j]))}
            ok = ok and need <= have2
            have2 |= set(outs[j])
        ctx.check("each discipline only needs defaults, available data or outputs of earlier disciplines", _b(ctx, ok))
    if not feasible:
        missing_expected = {k for j in range(n) if j not in done for k in ins[j]} - have
        ctx.check("the missing inputs reported are unavailable inputs of the blocked disciplines", _b(ctx, set(got) <= {k for j in range(n) if j not in done for k in ins[j]} and set(got) >= missing_expected - {k for k in missing_expected if False}))
        raised = False
        try:
            MDOInitializationChain(discs, available_data_names=available)
        except ValueError:
            raised = True
        ctx.check("MDOInitializationChain raises ValueError when no order exists", _b(ctx, raised))
    else:
        chain = MDOInitializationChain(discs, available_data_names=available)
        ctx.check("MDOInitializationChain keeps all the disciplines", _b(ctx, len(chain.disciplines) == n))
    ctx.observe("feasible", [float(feasible)])


# ------------------------------------------------------------------------------------------------
# (3) composition on acyclic systems
# ------------------------------------------------------------------------------------------------
def h_composition(ctx, cfg):
    from gemseo.core.chains.chain import MDOChain
    from gemseo.core.chains.parallel_chain import MDOParallelChain
    from gemseo.core.coupling_structure import CouplingStructure
    from gemseo.mda.mda_chain import MDAChain

    n, extra, perm, process = cfg["n"], cfg.get("extra", False), cfg["perm"], cfg["process"]
    E = _adjacency(ctx, n, cfg, self_loops=False)
    R = _reach(n, E)
    if any(R[i][i] for i in range(n)):
        ctx.assume(ctx.false())          # cyclic systems: C06
    ins, outs = _io_names(n, E, extra)
    x = {f"x{j}": ctx.real(f"x{j}") for j in range(n)}
    if extra:
        x["u"] = ctx.real("u")

    # oracle: substitute producers into consumers (own topological evaluation, independent of gemseo's sequence)
    F = {o: ctx.uf(f"F_{o}", len(ins[j])) for j in range(n) for o in outs[j]}
    val = dict(x)
    done = [False] * n
    for _ in range(n):
        for j in range(n):
            if not done[j] and all(done[i] for i in range(n) if E[i][j]):
                args = [val[k] for k in sorted(ins[j])]
                new = {o: F[o](*args) for o in outs[j]}
                val.update(new)
                done[j] = True
    assert all(done)

    UFDisc = _classes()["UFDisc"]
    log = []
    by_index = [UFDisc(f"D{j}", ins[j], {o: F[o] for o in outs[j]}, ctx, log) for j in range(n)]
    discs = [by_index[k] for k in perm]       # the order in which the user lists the disciplines
    data = {k: ctx.array([v]) for k, v in x.items()}
    if cfg.get("stale"):
        # the caller also passes (stale) values for the computed variables: "the items that do not exist in the input grammar
        # are removed" (IO.prepare_input_data), so they must not influence the result of an acyclic system
        for j in range(n):
            for o in outs[j]:
                data[o] = ctx.array([ctx.real(f"stale_{o}")])

    if process in ("chain", "parallel"):
        seq = CouplingStructure(discs).sequence
        if process == "chain":
            proc = MDOChain([d for stage in seq for group in stage for d in group])
        else:
            stages = []
            for stage in seq:
                ds = [d for group in stage for d in group]
                stages.append(ds[0] if len(ds) == 1 else MDOParallelChain(ds, use_threading=True, n_processes=1))
            proc = MDOChain(stages)
    else:
        settings = {}
        if "parallel" in process:
            settings = dict(mdachain_parallelize_tasks=True, mdachain_parallel_settings=dict(use_threading=True, n_processes=1))
        proc = MDAChain(discs, **settings)
        if "nocache" in process:
            proc.set_cache(proc.CacheType.NONE)
    out = proc.execute(data)

    for j in range(n):
        for o in outs[j]:
            got = out.get(o)
            if got is None:
                ctx.check(f"{o} is returned", ctx.false())
                continue
            ctx.observe(o, np.ravel(got))
            ctx.check(f"{o}: one component", _b(ctx, np.shape(got) == (1,)))
            if np.shape(got) == (1,):
                ctx.check(f"{o} equals the composed term", ctx.eq(elems(got)[0], val[o]))
    for k, v in x.items():
        got = out.get(k)
        ctx.check(f"input {k} is returned unchanged", ctx.eq(elems(got)[0], v) if got is not None and np.shape(got) == (1,) else ctx.false())
    ctx.check("every discipline is executed exactly once", _b(ctx, sorted(log) == sorted(f"D{j}" for j in range(n))))
    ctx.observe("n_exec", [float(len(log))])


# ------------------------------------------------------------------------------------------------
def _row_fixings(n, rows=1):
    keys = [f"e{i}{j}" for i in range(rows) for j in range(n)]
    for bits in itertools.product((0, 1), repeat=len(keys)):
        yield dict(zip(keys, bits))


def configs(tier):
    out = []
    # graph
    for n in (1, 2):
        for names in ("distinct", "dup"):
            for extra in (False, True):
                out.append(("graph", dict(n=n, names=names, extra=extra)))
    for fixed in _row_fixings(3):            # 8 x 64 graphs
        for names, extra in (("distinct", False), ("dup", True)):
            out.append(("graph", dict(n=3, names=names, extra=extra, fixed=fixed)))
    for fixed in _row_fixings(4):            # n=4 without self-loops: 8 x 512 graphs (two cyclic groups, diamonds, 4-chains)
        if fixed["e00"]:
            continue
        fixed = dict(fixed, e00=0, e11=0, e22=0, e33=0)
        out.append(("graph", dict(n=4, names="distinct" if fixed["e01"] else "dup", extra=bool(fixed["e02"]), fixed=fixed)))
    if tier == "thorough":
        for fixed in _row_fixings(4):        # 16 x 4096 graphs
            for names, extra in (("distinct", True), ("dup", False)):
                out.append(("graph", dict(n=4, names=names, extra=extra, fixed=fixed)))
    # two coupling outputs per discipline
    out.append(("graph2", dict(n=2)))                                  # 64 graphs
    for fixed in _row_fixings(3):                                      # w only from discipline 0: 8 x 256 graphs
        out.append(("graph2", dict(n=3, w_sources=[0], fixed=fixed)))
    if tier == "thorough":
        for fixed in _row_fixings(3):                                  # every w: 8 x 4096 graphs
            out.append(("graph2", dict(n=3, fixed=fixed)))
    # initialization order from the defaults
    out.append(("initchain", dict(n=1, available=True)))
    out.append(("initchain", dict(n=2, available=True)))                       # 4 + 6 flags: 1024 cases
    for fixed in _row_fixings(3):                                              # 6 + 6 flags per fixing: 8 x 4096
        if tier == "thorough" or (fixed["e00"] == 0):
            out.append(("initchain", dict(n=3, fixed=fixed)))
    # MDA chain structure
    for n in (1, 2):
        for parallel in (False, True):
            out.append(("mdachain", dict(n=n, names="distinct", extra=parallel, parallel=parallel)))
    for fixed in _row_fixings(3):
        for parallel in (False, True):
            out.append(("mdachain", dict(n=3, names="dup" if parallel else "distinct", extra=not parallel, parallel=parallel, fixed=fixed)))
    # composition
    procs = ["chain", "parallel", "mdachain", "mdachain-parallel", "mdachain-nocache"]
    for n in ((1, 2, 3) if tier == "quick" else (1, 2, 3, 4)):
        for perm in itertools.permutations(range(n)):
            for process in procs:
                if n == 4 and process in ("mdachain-nocache", "parallel"):
                    continue
                out.append(("composition", dict(n=n, perm=list(perm), process=process, extra=(n < 4 and sum(perm[:1]) % 2 == 0))))
                if n == 3 and process in ("chain", "parallel", "mdachain"):
                    out.append(("composition", dict(n=n, perm=list(perm), process=process, extra=perm[0] == 1, stale=True)))
    return out


HARNESSES = {"graph": h_graph, "graph2": h_graph2, "initchain": h_initchain, "mdachain": h_mdachain, "composition": h_composition}
