"""C02 - design-space views stay consistent and normalization is an exact bijection.

Three harnesses:

* ``numeric``  - normalize/unnormalize/gradient scalings/out=/transform on design spaces with *symbolic* bounds,
                 symbolic vectors and 2 x n batches;
* ``member``   - ``check_membership`` (array, dict and array+names forms) as an equivalence between "raises" and the
                 bound/integrality formula, ``project_into_bounds`` as the coordinate-wise clip;
* ``history``  - a concrete design space (names ``x, yy, z, ww``) driven by a solver-chosen sequence of public
                 edits and cache-filling queries, compared after every step with a small reference model.
"""
from __future__ import annotations

import copy
from fractions import Fraction

import numpy as np

from harness.common import INF, _plain, _py, build_space, check_array, elems, exact_bounds, rint

# the code's own tolerance constant ``100 * finfo(float64).eps`` as an exact rational (100 * 2**-52 is a float64)
TOL = 100.0 * 2.0 ** -52
assert Fraction(TOL) == Fraction(100, 2 ** 52) and TOL == 100.0 * float(np.finfo(np.float64).eps)

META = dict(
    bounds=dict(
        quick="numeric/member: 16+11 layouts with n<=3 components over {bounded l<u, equal bounds, unbounded, lower-only, upper-only} (symbolic bounds) "
              "and integer variables with concrete bounds, 1-D vectors and 2 x n batches, integer normalization off and on; "
              "history: every history of 2 operations on 4 initial spaces, and histories of 3 operations on 2 initial spaces whose first operation is one of "
              "12 key operations (structure changes, cache-filling queries); ~25 operations per step (15 kinds; single-variable edits on the first/last variable)",
        thorough="all 23 layouts; history: every history of 3 operations on 6 initial spaces (edits on every variable), histories of 4 operations on 3 initial "
                 "spaces whose first two operations are key operations",
    ),
    outside=["CSV/HDF round trips (C11)", "pretty tables", "complex current values", "sparse Jacobians in normalize_vect",
             "float64 rounding of (x-l)/(u-l) (history harness: all widths u-l are powers of two, so the float64 factors are exact)",
             "normalize_vect of an out-of-bounds point and unnormalize_grad on a component with equal bounds (the docstring formulas divide by u-l=0: nothing is documented, nothing is asserted)",
             "integrality of integer components when check_membership is given an array without names (the array fast path only tests the bounds; both behaviours are accepted)",
             "whether unnormalize_vect(x, out=o) may overwrite x (the test-suite documents that it does); only the returned values and the content of o are asserted",
             "position of a renamed variable (in place or moved to the end are both accepted, all views must agree on it)",
             "filter_dimensions with a permutation of the dimensions", "empty design spaces",
             "CrossHair kernel for split_array_to_dict_of_arrays with symbolic sizes (DESIGN.md C02 (c)) is not part of this module"],
    stubs=["Variable bounds written into Variable.__dict__ for symbolic bounds and for exact rational constants (harness.common.build_space / exact_bounds; "
           "representation invariant l<=u assumed); the history harness uses the public, validated setters only"],
    assumptions=["lower bound <= upper bound, integer variables have concrete integral bounds",
                 "history harness: concrete dyadic bounds and current values (pydantic validation needs numbers); the vectors that are normalized / converted are symbolic",
                 "history harness: every query of an observation runs on its own copy.deepcopy of the design space (as DesignSpace.filter(copy=True) does), "
                 "so that observing does not fill caches; a path is cut after the first step that reports a violation",
                 "current values lie within the bounds"],
)

# ------------------------------------------------------------------------------------------------
# (a) numeric part
# ------------------------------------------------------------------------------------------------
LAYOUTS = {
    "B": [("x", "float", "B")],
    "E": [("x", "float", "E")],
    "BB": [("x", "float", "BB")],
    "B,B": [("x", "float", "B"), ("yy", "float", "B")],
    "BE": [("x", "float", "BE")],
    "E,B": [("x", "float", "E"), ("yy", "float", "B")],
    "BU": [("x", "float", "B"), ("yy", "float", "U")],
    "UB": [("x", "float", "UB")],
    "LR": [("x", "float", "LR")],
    "BL": [("x", "float", "BL")],
    "RB": [("x", "float", "R"), ("yy", "float", "B")],
    "BBE": [("x", "float", "BB"), ("z", "float", "E")],
    "BUB": [("x", "float", "B"), ("yy", "float", "UB")],
    "LBR": [("x", "float", "LBR")],
    "C": [("x", "float", "C")],
    "CD": [("x", "float", "CD")],
    "i": [("k", "integer", [(0, 5)])],
    "ii": [("k", "integer", [(0, 5), (-3, 4)])],
    "Ci": [("x", "float", "C"), ("k", "integer", [(0, 5)])],
    "iC": [("k", "integer", [(-3, 4)]), ("x", "float", "C")],
    "iD": [("k", "integer", [(-3, 4)]), ("yy", "float", "D")],
    "CUi": [("x", "float", "CU"), ("k", "integer", [(2, 2)])],
    "iCi": [("k", "integer", [(0, 5)]), ("x", "float", "C"), ("kk", "integer", [(-3, 4)])],
}


def _has_int(lay):
    return any(t == "integer" for _, t, _ in LAYOUTS[lay])


def _rows(a):
    """List of rows (each a flat python list) of a 1-D or 2-D array."""
    a = _plain(a) if isinstance(a, np.ndarray) else np.asarray(a, dtype=object)
    if a.ndim == 1:
        return [[_py(v) for v in a]]
    return [[_py(v) for v in r] for r in a]


def _shape_like(rows, batch):
    return rows if batch else rows[0]


def _fresh(ctx, name, n, batch):
    """A symbolic vector (n,) or batch (2, n) and the python lists of its symbols."""
    if batch:
        a = ctx.matrix(name, 2, n)
        syms = [[ctx.real(f"{name}{i}_{j}") for j in range(n)] for i in range(2)]
    else:
        a = ctx.reals(name, n)
        syms = [[ctx.real(f"{name}{j}") for j in range(n)]]
    return a, syms


def _zeros(ctx, n, batch):
    return ctx.array([[0.0] * n for _ in range(2)] if batch else [0.0] * n)


def _norm_expected(info, xs, int_norm):
    """(x-l)/(u-l) on normalizable components with l<u, identity elsewhere; None where nothing is documented (l==u)."""
    out = []
    for j, v in enumerate(xs):
        if not info.normalized(j, int_norm):
            out.append(v)
        elif info.kind[j] == "E":
            out.append(None)
        else:
            out.append((v - info.lb[j]) / (info.ub[j] - info.lb[j]))
    return out


def _unnorm_expected(ctx, info, xs, int_norm, rounding=True):
    out = []
    for j, v in enumerate(xs):
        if info.normalized(j, int_norm):
            v = info.lb[j] if info.kind[j] == "E" else info.lb[j] + v * (info.ub[j] - info.lb[j])
        if info.is_int[j] and rounding:
            v = rint(ctx, v)
        out.append(v)
    return out


def _check_rows(ctx, label, got, exp_rows, batch):
    """Shape + component-wise equality; ``None`` entries of the expectation are not asserted."""
    shape = (2, len(exp_rows[0])) if batch else (len(exp_rows[0]),)
    gs = tuple(np.shape(got))
    ctx.check(f"{label}:shape {gs} == {shape}", ctx.true() if gs == shape else ctx.false())
    if gs != shape:
        return
    g = _rows(got)
    for i, r in enumerate(exp_rows):
        for j, e in enumerate(r):
            if e is not None:
                ctx.check(f"{label}[{i},{j}]" if batch else f"{label}[{j}]", ctx.eq(g[i][j], e))


def h_numeric(ctx, cfg):
    ds, info = build_space(ctx, LAYOUTS[cfg["layout"]])
    exact_bounds(ctx, ds, info)
    n, batch, int_norm = info.n, cfg["batch"], cfg.get("int_norm", False)
    if int_norm:
        ds.enable_integer_variables_normalization = True
    nz = [info.normalized(j, int_norm) for j in range(n)]
    deg = [nz[j] and info.kind[j] == "E" for j in range(n)]  # normalizable but l == u

    # ---- normalize_vect, its out= variant and transform_vect ----------------------------------------------------
    x, xs = _fresh(ctx, "x", n, batch)
    r = ds.normalize_vect(x)
    ctx.observe("normalize_vect", r)
    exp = [_norm_expected(info, row, int_norm) for row in xs]
    _check_rows(ctx, "normalize_vect", r, exp, batch)
    got = _rows(r)
    for i, row in enumerate(xs):
        for j in range(n):
            if deg[j]:
                # the only point within the bounds is x == l: its image lies in [0,1]
                ctx.check(f"normalize_vect[{i},{j}] of the in-bounds point of an equal-bounds component lies in [0,1]",
                          ctx.implies(row[j] == info.lb[j], ctx.and_(0.0 <= got[i][j], got[i][j] <= 1.0)))
    o = _zeros(ctx, n, batch)
    r2 = ds.normalize_vect(x, out=o)
    _check_rows(ctx, "normalize_vect(out=) returns the same values", r2, _rows(r), batch)
    _check_rows(ctx, "normalize_vect(out=): out holds the result", o, _rows(r), batch)
    _check_rows(ctx, "transform_vect == normalize_vect", ds.transform_vect(x), _rows(r), batch)
    _check_rows(ctx, "normalize_vect leaves its input untouched", x, xs, batch)

    # ---- unnormalize_vect, out= variant, untransform_vect ---------------------------------------------------------
    t, ts = _fresh(ctx, "t", n, batch)
    for row in ts:
        for j in range(n):
            if info.is_int[j]:  # keeps the rounding terms small for the solver
                ctx.assume(ctx.and_(-2.0 <= row[j], row[j] <= 9.0))
    u = ds.unnormalize_vect(t, no_check=True)
    ctx.observe("unnormalize_vect", u)
    expu = [_unnorm_expected(ctx, info, row, int_norm) for row in ts]
    _check_rows(ctx, "unnormalize_vect", u, expu, batch)
    _check_rows(ctx, "untransform_vect == unnormalize_vect", ds.untransform_vect(t, no_check=True), _rows(u), batch)
    _check_rows(ctx, "unnormalize_vect leaves its input untouched", t, ts, batch)
    t2 = t.copy()
    o2 = _zeros(ctx, n, batch)
    u2 = ds.unnormalize_vect(t2, no_check=True, out=o2)
    _check_rows(ctx, "unnormalize_vect(out=) returns the same values", u2, _rows(u), batch)
    if cfg.get("out_contract"):
        _check_rows(ctx, "unnormalize_vect(out=): out holds the result", o2, _rows(u), batch)

    # ---- round trips ------------------------------------------------------------------------------------------------
    if not batch:
        # with the [0,1] check of the normalized components switched on (it only logs)
        back = ds.unnormalize_vect(ds.normalize_vect(x))
    else:
        back = ds.unnormalize_vect(ds.normalize_vect(x), no_check=True)
    expb = []
    for row in xs:
        e = []
        for j in range(n):
            v = info.lb[j] if deg[j] else row[j]
            e.append(rint(ctx, v) if info.is_int[j] else v)
        expb.append(e)
    _check_rows(ctx, "unnormalize_vect(normalize_vect(x))", back, expb, batch)
    if not any(info.is_int):
        there = ds.normalize_vect(ds.unnormalize_vect(t, no_check=True))
        _check_rows(ctx, "normalize_vect(unnormalize_vect(t))", there, [[(None if deg[j] else row[j]) for j in range(n)] for row in ts], batch)

    # ---- gradients --------------------------------------------------------------------------------------------------
    g, gs = _fresh(ctx, "g", n, batch)
    ng = ds.normalize_grad(g)
    ctx.observe("normalize_grad", ng)
    _check_rows(ctx, "normalize_grad", ng, [[(row[j] * (info.ub[j] - info.lb[j]) if nz[j] else row[j]) for j in range(n)] for row in gs], batch)
    ug = ds.unnormalize_grad(g)
    ctx.observe("unnormalize_grad", ug)
    _check_rows(ctx, "unnormalize_grad", ug,
                [[(None if deg[j] else (row[j] / (info.ub[j] - info.lb[j]) if nz[j] else row[j])) for j in range(n)] for row in gs], batch)
    _check_rows(ctx, "unnormalize_grad(normalize_grad(g))", ds.unnormalize_grad(ng), [[(None if deg[j] else row[j]) for j in range(n)] for row in gs], batch)
    _check_rows(ctx, "normalize_grad(unnormalize_grad(g))", ds.normalize_grad(ug), [[(None if deg[j] else row[j]) for j in range(n)] for row in gs], batch)
    _check_rows(ctx, "gradient (un)normalization leaves its input untouched", g, gs, batch)

    # ---- current value, plain and normalized (float layouts: an integer current value needs machine integers) ----------
    if cfg.get("cv") and not any(info.is_int):
        v = ctx.reals("v", n)
        vs = [ctx.real(f"v{j}") for j in range(n)]
        for j in range(n):
            if info.lb[j] != -INF:
                ctx.assume(info.lb[j] <= vs[j])
            if info.ub[j] != INF:
                ctx.assume(vs[j] <= info.ub[j])
        ds.set_current_value(v)
        cv = ds.get_current_value()
        ctx.observe("current_value", cv)
        _check_rows(ctx, "get_current_value()", cv, [vs], False)
        ncv = ds.get_current_value(normalize=True)
        ctx.observe("normalized_current_value", ncv)
        expn = _norm_expected(info, vs, int_norm)
        _check_rows(ctx, "get_current_value(normalize=True)", ncv, [expn], False)
        for j in range(n):
            if deg[j]:
                ctx.check(f"get_current_value(normalize=True)[{j}] of an equal-bounds component lies in [0,1]", ctx.and_(0.0 <= elems(ncv)[j], elems(ncv)[j] <= 1.0))
        d = ds.get_current_value(as_dict=True)
        dn = ds.get_current_value(as_dict=True, normalize=True)
        off = 0
        for name, size in zip(info.names, info.sizes):
            _check_rows(ctx, f"get_current_value(as_dict)[{name}]", d[name], [vs[off:off + size]], False)
            _check_rows(ctx, f"get_current_value(as_dict, normalize)[{name}]", dn[name], [expn[off:off + size]], False)
            off += size
        _check_rows(ctx, "normalize_vect after set_current_value", ds.normalize_vect(x), _rows(r), batch)


# ------------------------------------------------------------------------------------------------
# membership and projection
# ------------------------------------------------------------------------------------------------
def _raises(fn, *a, **k):
    try:
        fn(*a, **k)
    except ValueError:
        return True
    return False


def h_member(ctx, cfg):
    ds, info = build_space(ctx, LAYOUTS[cfg["layout"]])
    exact_bounds(ctx, ds, info)
    n = info.n
    x = ctx.reals("x", n)
    xs = [ctx.real(f"x{j}") for j in range(n)]
    for j in range(n):
        if info.is_int[j]:
            ctx.assume(ctx.and_(info.lb[j] - 2.0 <= xs[j], xs[j] <= info.ub[j] + 2.0))
    outside = []
    for j in range(n):
        if info.lb[j] != -INF:
            outside.append(xs[j] < info.lb[j] - TOL)
        if info.ub[j] != INF:
            outside.append(xs[j] > info.ub[j] + TOL)
    outside = ctx.or_(*outside)
    nonint = ctx.or_(*[ctx.not_(ctx.is_int(xs[j])) for j in range(n) if info.is_int[j]])
    form = cfg["form"]
    if form == "array":
        raised = _raises(ds.check_membership, x)
        ctx.observe("raised", [1.0 if raised else 0.0])
        ctx.check("check_membership(array) raises when a component is outside [l-tol, u+tol]", ctx.implies(outside, raised))
        ctx.check("check_membership(array) accepts a point within [l-tol, u+tol] with integral integer components",
                  ctx.implies(ctx.and_(ctx.not_(outside), ctx.not_(nonint)), not raised))
        # a second call (private bound arrays now filled) answers the same
        ctx.check("check_membership(array) answers the same on a second call", ctx.true() if _raises(ds.check_membership, x) == raised else ctx.false())
    elif form == "dict":
        d = {}
        off = 0
        for name, size in zip(info.names, info.sizes):
            d[name] = x[off:off + size]
            off += size
        raised = _raises(ds.check_membership, d)
        ctx.observe("raised", [1.0 if raised else 0.0])
        ctx.check("check_membership(dict) raises exactly outside [l-tol, u+tol] or on a non-integral integer component",
                  ctx.iff(raised, ctx.or_(outside, nonint)))
    elif form == "names":
        raised = _raises(ds.check_membership, x, list(info.names))
        ctx.observe("raised", [1.0 if raised else 0.0])
        ctx.check("check_membership(array, names) raises exactly outside [l-tol, u+tol] or on a non-integral integer component",
                  ctx.iff(raised, ctx.or_(outside, nonint)))
    else:  # projection
        p = ds.project_into_bounds(x)
        if all(not isinstance(v, float) or np.isfinite(v) for v in elems(p)):
            ctx.observe("project_into_bounds", p)
        ctx.check(f"project_into_bounds:shape {np.shape(p)}", ctx.true() if tuple(np.shape(p)) == (n,) else ctx.false())
        pe = elems(p)
        for j in range(n):
            lo = ctx.true() if info.lb[j] == -INF else (info.lb[j] <= pe[j])
            hi = ctx.true() if info.ub[j] == INF else (pe[j] <= info.ub[j])
            ctx.check(f"project_into_bounds[{j}] is within the bounds", ctx.and_(lo, hi))
            inside = ctx.and_(ctx.true() if info.lb[j] == -INF else (info.lb[j] <= xs[j]), ctx.true() if info.ub[j] == INF else (xs[j] <= info.ub[j]))
            ctx.check(f"project_into_bounds[{j}] keeps a component that is within the bounds", ctx.implies(inside, pe[j] == xs[j]))
            if info.lb[j] != -INF:
                ctx.check(f"project_into_bounds[{j}] maps a component below the lower bound onto it", ctx.implies(xs[j] < info.lb[j], pe[j] == info.lb[j]))
            if info.ub[j] != INF:
                ctx.check(f"project_into_bounds[{j}] maps a component above the upper bound onto it", ctx.implies(xs[j] > info.ub[j], pe[j] == info.ub[j]))
        q = ds.project_into_bounds(x, normalized=True)
        qe = elems(q)
        for j in range(n):
            ctx.check(f"project_into_bounds(normalized)[{j}] is the clip onto [0,1]",
                      ctx.and_(0.0 <= qe[j], qe[j] <= 1.0, ctx.implies(ctx.and_(0.0 <= xs[j], xs[j] <= 1.0), qe[j] == xs[j])))
    check_array(ctx, "membership/projection leaves its input untouched", x, xs)


# ------------------------------------------------------------------------------------------------
# (b) histories of edits against a reference model
# ------------------------------------------------------------------------------------------------
# All widths u-l are powers of two and stay so under the bound edits below (each edit doubles the width), hence the
# float64 factors 1/(u-l) computed by the code under test are exact rationals and the comparison with the
# reference affine map is exact although the bounds are machine numbers.
POOL = {
    "x": dict(size=1, type="float", lb=[-1.0], ub=[3.0], value=[1.0]),
    "yy": dict(size=2, type="float", lb=[0.0, 0.5], ub=[8.0, 2.5], value=[5.0, 1.0]),
    "z": dict(size=2, type="integer", lb=[0.0, -3.0], ub=[4.0, 5.0], value=[2.0, 1.0]),
    "ww": dict(size=1, type="float", lb=[2.0], ub=[INF], value=[4.0]),
}
POOL_ORDER = ["x", "yy", "z", "ww"]
NEW_NAMES = ["nn", "mm", "kk"]
INITS = {  # (name, has a current value)
    "xyz": [("x", True), ("yy", True), ("z", True)],
    "zxy": [("z", True), ("x", True), ("yy", True)],
    "xy-": [("x", False), ("yy", False)],
    "yz~": [("yy", False), ("z", True)],
    "wz": [("ww", True), ("z", True)],
    "yx": [("yy", True), ("x", True)],
}
QUERIES = ["query normalize_vect", "query get_current_value(normalize=True)", "query get_lower_bounds/get_upper_bounds", "query check_membership"]


class RVar:
    def __init__(self, name, size, type, lb, ub, value):
        self.name, self.size, self.type, self.lb, self.ub = name, size, type, list(lb), list(ub)
        self.value = None if value is None else list(value)

    def clone(self):
        return RVar(self.name, self.size, self.type, self.lb, self.ub, self.value)


class Ref:
    """The reference model: an ordered list of variables and the integer-normalization switch."""

    def __init__(self):
        self.vars = []
        self.int_norm = False

    def names(self):
        return [v.name for v in self.vars]

    def get(self, name):
        return next(v for v in self.vars if v.name == name)

    def dim(self):
        return sum(v.size for v in self.vars)

    def offsets(self):
        out, off = {}, 0
        for v in self.vars:
            out[v.name] = off
            off += v.size
        return out

    def has_all_values(self):
        return all(v.value is not None for v in self.vars)

    def flat(self, attr):
        return [c for v in self.vars for c in getattr(v, attr)]

    def policy(self, v):
        return [(v.lb[c] != -INF and v.ub[c] != INF and (v.type == "float" or self.int_norm)) for c in range(v.size)]

    def flat_policy(self):
        return [b for v in self.vars for b in self.policy(v)]

    def flat_is_int(self):
        return [v.type == "integer" for v in self.vars for _ in range(v.size)]


def _pool_var(name, with_value=True):
    t = POOL[name]
    return RVar(name, t["size"], t["type"], t["lb"], t["ub"], t["value"] if with_value else None)


def _np(vals, type_):
    return np.array([int(v) for v in vals], dtype=np.int64) if type_ == "integer" and all(np.isfinite(v) for v in vals) else np.array(vals, dtype=np.float64)


def _add_to(ds, v):
    ds.add_variable(v.name, size=v.size, type_=v.type, lower_bound=_np(v.lb, v.type), upper_bound=_np(v.ub, v.type),
                    value=None if v.value is None else _np(v.value, v.type))


def _build(ref):
    from gemseo.algos.design_space import DesignSpace

    ds = DesignSpace()
    for v in ref.vars:
        _add_to(ds, v)
    if ref.int_norm:
        ds.enable_integer_variables_normalization = True
    return ds


def _point(v, frac):
    """A concrete point of the variable's box: l + frac*(u-l) (integral for integer variables), l+1 / u-1 / frac when unbounded."""
    out = []
    for l, u in zip(v.lb, v.ub):
        if l != -INF and u != INF:
            p = l + frac * (u - l)
        elif l != -INF:
            p = l + 1.0
        elif u != INF:
            p = u - 1.0
        else:
            p = 4.0 * frac
        out.append(float(np.floor(p)) if v.type == "integer" else p)
    return out


def _moves(ref, quick, last_step, prev):
    """The operations offered in the current state: (label, *arguments)."""
    names = ref.names()
    pos = names if (not quick or len(names) <= 2) else [names[0], names[-1]]
    missing = [n for n in POOL_ORDER if n not in names]
    new = next(n for n in NEW_NAMES if n not in names)
    mv = []
    for n in (missing[:1] if quick else missing):
        mv.append(("add_variable", n))
    if len(names) > 1:
        for n in pos:
            mv.append(("remove_variable", n))
    for n in pos:
        mv.append(("rename_variable", n, new))
    if len(names) > 1:
        mv.append(("rename_clash", names[0], names[-1]))  # onto the name of ANOTHER variable
    if len(names) > 1:
        for n in pos:
            mv.append(("filter", n))
        if not quick and len(names) > 2:
            mv.append(("filter", tuple(names[1:])))
    for v in ref.vars:
        if v.size == 2:
            for d in (0, 1):
                mv.append(("filter_dimensions", v.name, d))
    if missing:
        mv.append(("extend", tuple(missing[:2])))
    for n in pos:
        mv.append(("set_lower_bound", n, "widen"))
    first = ref.vars[0]
    if any(l != -INF for l in first.lb):
        mv.append(("set_lower_bound", first.name, "-inf"))
    for n in pos:
        mv.append(("set_upper_bound", n, "widen"))
    mv.append(("set_current_value", "array"))
    mv.append(("set_current_value", "dict"))
    for n in pos:
        mv.append(("set_current_variable", n))
    mv.append(("toggle enable_integer_variables_normalization",))
    if not last_step:
        for q, lab in enumerate(QUERIES):
            if prev is not None and prev[0] in QUERIES and QUERIES.index(prev[0]) >= q:
                continue  # consecutive queries commute and are idempotent: only increasing sequences
            if q == 1 and not ref.has_all_values():
                continue
            mv.append((lab,))
    return mv


def _apply(ctx, ds, ref, mv, k):
    """Run one operation on the real design space and on the reference model."""
    from gemseo.algos.design_space import DesignSpace

    op = mv[0]
    if op == "add_variable":
        v = _pool_var(mv[1], with_value=ref.has_all_values())
        _add_to(ds, v)
        ref.vars.append(v)
    elif op == "remove_variable":
        ds.remove_variable(mv[1])
        ref.vars = [v for v in ref.vars if v.name != mv[1]]
    elif op == "rename_variable":
        ds.rename_variable(mv[1], mv[2])
        ref.get(mv[1]).name = mv[2]
        # the position of the renamed variable is not documented: in place or moved to the end, as the code under test says
        if ds.variable_names == [n for n in ref.names() if n != mv[2]] + [mv[2]]:
            v = ref.get(mv[2])
            ref.vars = [w for w in ref.vars if w is not v] + [v]
    elif op == "rename_clash":
        # two variables cannot share a name: either the edit is refused (ValueError, nothing changes) or the renamed variable takes the
        # place of the other one; whichever the code does, all the views must still agree (checked by the observations that follow)
        try:
            ds.rename_variable(mv[1], mv[2])
        except ValueError:
            pass
        else:
            ref.vars = [v for v in ref.vars if v.name != mv[2]]
            ref.get(mv[1]).name = mv[2]
    elif op == "filter":
        keep = [mv[1]] if isinstance(mv[1], str) else list(mv[1])
        ds.filter(mv[1] if isinstance(mv[1], str) else list(mv[1]))
        ref.vars = [v for v in ref.vars if v.name in keep]
    elif op == "filter_dimensions":
        ds.filter_dimensions(mv[1], [mv[2]])
        v = ref.get(mv[1])
        v.size, v.lb, v.ub = 1, [v.lb[mv[2]]], [v.ub[mv[2]]]
        if v.value is not None:
            v.value = [v.value[mv[2]]]
    elif op == "extend":
        other = DesignSpace()
        new = [_pool_var(n) for n in mv[1]]
        for v in new:
            _add_to(other, v)
        ds.extend(other)
        ref.vars += new
    elif op == "set_lower_bound":
        v = ref.get(mv[1])
        if mv[2] == "-inf":
            ds.set_lower_bound(mv[1], -INF)
            v.lb = [-INF] * v.size
        else:
            v.lb = [(l - (u - l) if (l != -INF and u != INF) else (l - 1.0 if l != -INF else l)) for l, u in zip(v.lb, v.ub)]
            ds.set_lower_bound(mv[1], _np(v.lb, v.type))
    elif op == "set_upper_bound":
        v = ref.get(mv[1])
        v.ub = [(u + (u - l) if (l != -INF and u != INF) else (u + 2.0 if u != INF else u)) for l, u in zip(v.lb, v.ub)]
        ds.set_upper_bound(mv[1], _np(v.ub, v.type))
    elif op == "set_current_value":
        for v in ref.vars:
            v.value = _point(v, 0.25)
        if mv[1] == "array":
            ds.set_current_value(np.array(ref.flat("value"), dtype=np.float64))
        else:
            ds.set_current_value({v.name: _np(v.value, v.type) for v in reversed(ref.vars)})
    elif op == "set_current_variable":
        v = ref.get(mv[1])
        v.value = _point(v, 0.5)
        ds.set_current_variable(mv[1], _np(v.value, v.type))
    elif op.startswith("toggle"):
        ref.int_norm = not ref.int_norm
        ds.enable_integer_variables_normalization = ref.int_norm
    elif op == QUERIES[0]:
        ds.normalize_vect(ctx.reals(f"q{k}_", ref.dim()))
    elif op == QUERIES[1]:
        ds.get_current_value(normalize=True)
    elif op == QUERIES[2]:
        ds.get_lower_bounds()
        ds.get_upper_bounds()
    elif op == QUERIES[3]:
        ds.check_membership(np.array([c for v in ref.vars for c in (v.value or _point(v, 0.5))], dtype=np.float64))
    else:
        raise AssertionError(op)


def _is_number(v):
    return isinstance(v, (int, float, np.integer, np.floating, bool, np.bool_))


def _close(a, b):
    a, b = float(a), float(b)
    return a == b or abs(a - b) <= 1e-12 + 1e-9 * max(abs(a), abs(b))


class Checks:
    """Obligations of one step; remembers whether one of them failed."""

    def __init__(self, ctx, prefix, base=None):
        self.ctx, self.prefix, self.failed, self.base = ctx, prefix, False, base

    def ok(self, label, cond):
        if isinstance(cond, (bool, np.bool_)):
            cond = self.ctx.true() if cond else self.ctx.false()
        r = self.ctx.check(self.prefix + label, cond)
        if r is not None and not r:
            self.failed = True

    def same(self, label, got, exp):
        """Equality of two concrete python objects (names, dictionaries of sizes, index lists ...)."""
        self.ok(label, bool(got == exp))

    def vec(self, label, got, exp, sym=False):
        """A 1-D array equal, shape and components, to a list of scalars (``None``: component not asserted).

        ``sym=False``: the vector does not depend on a symbolic input; its components are compared here (rtol 1e-9)
        and reported as one obligation.  ``sym=True``: one obligation per component (same labels when replaying).
        """
        shape = tuple(np.shape(got))
        if shape != (len(exp),):
            self.ok(f"{label}: shape {shape} instead of ({len(exp)},)", False)
            return
        concrete_ok, n_concrete = True, 0
        for j, (a, b) in enumerate(zip(elems(got), exp)):
            if b is None:
                continue
            if not sym and _is_number(a) and _is_number(b):
                n_concrete += 1
                concrete_ok = concrete_ok and _close(a, b)
            else:
                self.ok(f"{label}[{j}]", self.ctx.eq(a, b))
        if n_concrete:
            self.ok(label, concrete_ok)

    def call(self, what, method, *a, **k):
        """One query, on a fresh deep copy of the design space under observation: (it did not raise, its result)."""
        try:
            return True, getattr(copy.deepcopy(self.base), method)(*a, **k)
        except Exception as e:  # noqa: BLE001 - an observation must not raise
            self.ok(f"{what} must not raise ({type(e).__name__})", False)
            return False, None

    def raises(self, method, *a):
        try:
            getattr(copy.deepcopy(self.base), method)(*a)
        except Exception:  # noqa: BLE001
            return True
        return False


def _observe(ctx, C, ref, x):
    """All views of the design space ``C.base`` against the reference model ``ref``; ``x`` is a symbolic vector of its dimension.

    Every query runs on its own deep copy of the design space, so that no query sees caches filled by another one.
    """
    d = copy.deepcopy(C.base)  # for the cache-free structural properties
    names, off, dim = ref.names(), ref.offsets(), ref.dim()
    xs = elems(x)
    # ---- one order for names, sizes, types, index ranges ------------------------------------------------------
    C.same("variable_names", d.variable_names, names)
    C.same("variable_sizes", list(d.variable_sizes.items()), [(v.name, v.size) for v in ref.vars])
    C.same("variable_types", {n: str(t) for n, t in d.variable_types.items()}, {v.name: v.type for v in ref.vars})
    C.same("dimension", d.dimension, dim)
    C.same("len/iter/contains", (len(d), list(d), all(n in d for n in names)), (len(names), names, True))
    C.same("names_to_indices", {n: list(r) for n, r in d.names_to_indices.items()}, {v.name: list(range(off[v.name], off[v.name] + v.size)) for v in ref.vars})
    for v in ref.vars:
        ok, idx = C.call(f"get_variables_indexes([{v.name}])", "get_variables_indexes", [v.name])
        if ok:
            C.same(f"get_variables_indexes([{v.name}])", [int(i) for i in idx], list(range(off[v.name], off[v.name] + v.size)))
    ok, idx = C.call("get_variables_indexes(all, design space order)", "get_variables_indexes", list(reversed(names)))
    if ok:
        C.same("get_variables_indexes(all, design space order)", [int(i) for i in idx], list(range(dim)))
    ok, idx = C.call("get_variables_indexes(reversed names, given order)", "get_variables_indexes", list(reversed(names)), use_design_space_order=False)
    if ok:
        C.same("get_variables_indexes(reversed names, given order)", [int(i) for i in idx],
               [i for v in reversed(ref.vars) for i in range(off[v.name], off[v.name] + v.size)])
    C.same("enable_integer_variables_normalization", bool(d.enable_integer_variables_normalization), ref.int_norm)
    C.same("normalize (policy per variable)", {n: [bool(b) for b in p] for n, p in d.normalize.items()}, {v.name: ref.policy(v) for v in ref.vars})
    if C.failed:
        return  # names / sizes / index ranges / policy disagree: the vector views below would only repeat it
    # ---- bounds: vector view == concatenation of the per-variable views ----------------------------------------
    for attr, one, many in (("lb", d.get_lower_bound, "get_lower_bounds"), ("ub", d.get_upper_bound, "get_upper_bounds")):
        nm = "lower" if attr == "lb" else "upper"
        for v in ref.vars:
            C.vec(f"get_{nm}_bound({v.name})", one(v.name), getattr(v, attr))
        ok, arr = C.call(f"get_{nm}_bounds()", many)
        if ok:
            C.vec(f"get_{nm}_bounds()", arr, ref.flat(attr))
        ok, dct = C.call(f"get_{nm}_bounds(as_dict)", many, as_dict=True)
        if ok:
            C.same(f"get_{nm}_bounds(as_dict) keys", list(dct), names)
            for v in ref.vars:
                if v.name in dct:
                    C.vec(f"get_{nm}_bounds(as_dict)[{v.name}]", dct[v.name], getattr(v, attr))
        ok, arr = C.call(f"get_{nm}_bounds([last, first])", many, [names[-1], names[0]])
        if ok:
            C.vec(f"get_{nm}_bounds([last, first])", arr, getattr(ref.vars[-1], attr) + getattr(ref.vars[0], attr))
    # ---- current value --------------------------------------------------------------------------------------------
    lbs, ubs, pol, ints = ref.flat("lb"), ref.flat("ub"), ref.flat_policy(), ref.flat_is_int()
    C.same("has_current_value", bool(d.has_current_value), ref.has_all_values())
    ok, dct = C.call("get_current_value(as_dict)", "get_current_value", as_dict=True)
    if ok:
        C.same("get_current_value(as_dict) keys", sorted(k for k, val in dct.items() if val is not None), sorted(v.name for v in ref.vars if v.value is not None))
        for v in ref.vars:
            if v.value is not None and dct.get(v.name) is not None:
                C.vec(f"get_current_value(as_dict)[{v.name}]", dct[v.name], v.value)
    if ref.has_all_values():
        vals = ref.flat("value")
        ok, arr = C.call("get_current_value()", "get_current_value")
        if ok:
            C.vec("get_current_value()", arr, vals)
        for v in (ref.vars[0], ref.vars[-1]):
            ok, arr = C.call(f"get_current_value([{v.name}])", "get_current_value", [v.name])
            if ok:
                C.vec(f"get_current_value([{v.name}])", arr, v.value)
        ok, arr = C.call("get_current_value(normalize=True)", "get_current_value", normalize=True)
        if ok:
            C.vec("get_current_value(normalize=True)", arr,
                  [(None if lbs[j] == ubs[j] else (vals[j] - lbs[j]) / (ubs[j] - lbs[j])) if pol[j] else vals[j] for j in range(dim)])
        ok, dct = C.call("get_current_value(as_dict, normalize=True)", "get_current_value", as_dict=True, normalize=True)
        if ok:
            for v in ref.vars:
                o = off[v.name]
                if v.name in dct:
                    C.vec(f"get_current_value(as_dict, normalize=True)[{v.name}]", dct[v.name],
                          [(None if lbs[j] == ubs[j] else (vals[j] - lbs[j]) / (ubs[j] - lbs[j])) if pol[j] else vals[j] for j in range(o, o + v.size)])
                else:
                    C.ok(f"get_current_value(as_dict, normalize=True) has the key {v.name}", False)
    else:
        try:
            copy.deepcopy(C.base).get_current_value()
            C.ok("get_current_value() raises KeyError while a variable has no current value", False)
        except KeyError:
            pass
        except Exception as e:  # noqa: BLE001
            C.ok(f"get_current_value() raises KeyError while a variable has no current value (got {type(e).__name__})", False)
    # ---- lossless conversions of a symbolic vector ---------------------------------------------------------------------
    ok, dct = C.call("convert_array_to_dict(x)", "convert_array_to_dict", x)
    if ok:
        C.same("convert_array_to_dict(x) keys", list(dct), names)
        for v in ref.vars:
            if v.name in dct:
                C.vec(f"convert_array_to_dict(x)[{v.name}]", dct[v.name], xs[off[v.name]:off[v.name] + v.size], sym=True)
        ok, back = C.call("convert_dict_to_array(convert_array_to_dict(x))", "convert_dict_to_array", dct)
        if ok:
            C.vec("convert_dict_to_array(convert_array_to_dict(x))", back, xs, sym=True)
    mine = {v.name: x[off[v.name]:off[v.name] + v.size] for v in reversed(ref.vars)}
    ok, back = C.call("convert_dict_to_array(dictionary in another key order)", "convert_dict_to_array", mine)
    if ok:
        C.vec("convert_dict_to_array(dictionary in another key order)", back, xs, sym=True)
    # ---- normalization with the CURRENT per-variable bounds --------------------------------------------------------------
    scale = [(ubs[j] - lbs[j]) if pol[j] else 1.0 for j in range(dim)]
    ok, r = C.call("normalize_vect(x)", "normalize_vect", x)
    if ok:
        C.vec("normalize_vect(x)", r, [((None if scale[j] == 0 else (xs[j] - lbs[j]) / scale[j]) if pol[j] else xs[j]) for j in range(dim)], sym=True)
    all_int_values = ref.has_all_values() and all(ints)
    if not all_int_values:  # with integer current values only, unnormalize_vect returns machine integers: not for symbols
        ok, r = C.call("unnormalize_vect(x)", "unnormalize_vect", x, no_check=True)
        if ok:
            exp = []
            for j in range(dim):
                e = lbs[j] + xs[j] * scale[j] if pol[j] else xs[j]
                exp.append(rint(ctx, e) if ints[j] else e)
            C.vec("unnormalize_vect(x)", r, exp, sym=True)
    ok, r = C.call("normalize_grad(x)", "normalize_grad", x)
    if ok:
        C.vec("normalize_grad(x)", r, [xs[j] * scale[j] for j in range(dim)], sym=True)
    ok, r = C.call("unnormalize_grad(x)", "unnormalize_grad", x)
    if ok:
        C.vec("unnormalize_grad(x)", r, [(None if scale[j] == 0 else xs[j] / scale[j]) for j in range(dim)], sym=True)
    C.vec("the queries leave x untouched", x, xs, sym=True)
    # ---- membership and projection at concrete points -------------------------------------------------------------------
    inside = [c for v in ref.vars for c in (v.value if v.value is not None else _point(v, 0.5))]
    C.ok("check_membership(array) accepts a point within the bounds", not C.raises("check_membership", np.array(inside, dtype=np.float64)))
    C.ok("check_membership(dict) accepts a point within the bounds",
         not C.raises("check_membership", {v.name: np.array(inside[off[v.name]:off[v.name] + v.size], dtype=np.float64) for v in ref.vars}))
    for nm, bnd, far_ in (("upper", ubs, 1000.0), ("lower", lbs, -1000.0)):
        corner = [(bnd[j] if np.isfinite(bnd[j]) else (inside[j] + far_ if not ints[j] else float(np.floor(inside[j] + far_)))) for j in range(dim)]
        C.ok(f"check_membership(array) accepts the {nm}-bound corner", not C.raises("check_membership", np.array(corner, dtype=np.float64)))
        C.ok(f"check_membership(dict) accepts the {nm}-bound corner",
             not C.raises("check_membership", {v.name: np.array(corner[off[v.name]:off[v.name] + v.size], dtype=np.float64) for v in ref.vars}))
    for j in range(dim):
        for bound, delta in ((ubs[j], 1.0), (lbs[j], -1.0)):
            if np.isfinite(bound):
                p = list(inside)
                p[j] = bound + delta
                C.ok(f"check_membership(array) rejects component {j} at {'ub+1' if delta > 0 else 'lb-1'}", C.raises("check_membership", np.array(p, dtype=np.float64)))
                C.ok(f"check_membership(dict) rejects component {j} at {'ub+1' if delta > 0 else 'lb-1'}",
                     C.raises("check_membership", {v.name: np.array(p[off[v.name]:off[v.name] + v.size], dtype=np.float64) for v in ref.vars}))
    far = [(ubs[j] + 1.0 if np.isfinite(ubs[j]) else (lbs[j] - 1.0 if np.isfinite(lbs[j]) else 7.0)) if j % 2 == 0 else
           (lbs[j] - 1.0 if np.isfinite(lbs[j]) else (ubs[j] + 1.0 if np.isfinite(ubs[j]) else -7.0)) for j in range(dim)]
    ok, pr = C.call("project_into_bounds(point)", "project_into_bounds", np.array(far, dtype=np.float64))
    if ok:
        C.vec("project_into_bounds(point)", pr, [min(max(far[j], lbs[j]), ubs[j]) for j in range(dim)])
    # ---- equality with a freshly built equal space, inequality with a different one -----------------------------------------
    fresh = _build(ref)
    C.ok("== a freshly built equal design space", bool(d == fresh) and bool(fresh == d))
    other = copy.deepcopy(ref)
    last = other.vars[-1]
    last.ub = [u + 1.0 if np.isfinite(u) else 1e3 for u in last.ub]
    C.ok("!= a design space with another upper bound", not bool(d == _build(other)))


def _raises_any(fn, *a):
    try:
        fn(*a)
    except Exception:  # noqa: BLE001
        return True
    return False


def _is_key_move(ref, mv):
    """The operations used for the first steps of the longest histories (structure changes and cache-filling queries)."""
    op = mv[0]
    first = ref.vars[0].name
    return (op in ("add_variable", "toggle enable_integer_variables_normalization", QUERIES[0], QUERIES[1], QUERIES[3])
            or (op in ("remove_variable", "rename_variable", "set_upper_bound") and mv[1] == first)
            or (op == "filter_dimensions" and mv[2] == 1)
            or (op == "set_current_value" and mv[1] == "array")
            or (op == "set_lower_bound" and mv[2] == "-inf"))


def h_history(ctx, cfg):
    quick, K = cfg.get("quick", True), cfg["K"]
    ref = Ref()
    ref.vars = [_pool_var(n, wv) for n, wv in INITS[cfg["init"]]]
    ds = _build(ref)
    prev = None
    # observations already made (and passed) in this exploration for a prefix of operations: the harness is deterministic,
    # so repeating them for every extension of the prefix would repeat the same obligations
    seen = ctx.__dict__.setdefault("_c02_observed", set())
    trail = []
    for k in range(K):
        moves = _moves(ref, quick, k == K - 1, prev)
        if k < cfg.get("key_steps", 0):
            moves = [m for m in moves if _is_key_move(ref, m)]
        if k == 0 and "first" in cfg:
            want = _untuple(cfg["first"])
            idx = [i for i, m in enumerate(moves) if _untuple(m) == want]
            if not idx:
                ctx.assume(ctx.false())
            mv = moves[idx[0]]
        else:
            mv = moves[ctx.choice(f"op{k}", len(moves))]
        trail.append(_untuple(mv))
        C = Checks(ctx, f"s{k} after {mv[0]}: ", ds)
        try:
            _apply(ctx, ds, ref, mv, k)
        except Exception as e:  # noqa: BLE001 - an operation the reference model allows must not raise
            C.ok(f"{mv[0]}{tuple(mv[1:])} must not raise ({type(e).__name__}: {str(e)[:80]})", False)
            ctx.assume(ctx.false())
        key = repr(trail)
        if k == K - 1 or key not in seen:
            # the views are observed on deep copies, so that observing does not fill the caches of the design space
            # under test: cache filling is the business of the query operations
            x = ctx.reals(f"x{k}_", ref.dim())
            _observe(ctx, C, ref, x)
            if C.failed:
                ctx.assume(ctx.false())  # a violation has been reported: what follows on this path would only repeat it
            seen.add(key)
        prev = mv
    ctx.observe("final dimension", [float(ds.dimension)])


def _untuple(m):
    return [list(e) if isinstance(e, tuple) else e for e in m]


def configs(tier):
    out = []
    quick = tier == "quick"
    lays = ["B", "E", "BB", "B,B", "BE", "E,B", "BU", "LR", "RB", "BBE", "C", "i", "ii", "Ci", "iC", "CUi"] if quick else list(LAYOUTS)
    for lay in lays:
        for int_norm in ((False, True) if _has_int(lay) else (False,)):
            for batch in (False, True):
                c = dict(layout=lay, batch=batch)
                if int_norm:
                    c["int_norm"] = True
                if not _has_int(lay) and not batch:
                    c["cv"] = True
                out.append(("numeric", c))
    # NOT asserted: what unnormalize_vect(x, out=o) leaves in ``o`` (gemseo works in place on ``x`` and its own test-suite
    # documents that the input is overwritten); the property is silent about out= arguments, only the returned values are checked.
    mlays = ["B", "E", "BE", "LR", "BU", "C", "CD", "i", "Ci", "iC", "CUi"] if quick else list(LAYOUTS)
    for lay in mlays:
        for form in ("array", "dict", "names", "project"):
            out.append(("member", dict(layout=lay, form=form)))
    # histories: every first operation is a configuration of its own (parallelism)
    def hist(init, K, key_steps):
        ref = Ref()
        ref.vars = [_pool_var(n, wv) for n, wv in INITS[init]]
        moves = _moves(ref, quick, K == 1, None)
        if key_steps:
            moves = [m for m in moves if _is_key_move(ref, m)]
        for m in moves:
            c = dict(init=init, K=K, first=_untuple(m), quick=quick)
            if key_steps:
                c["key_steps"] = key_steps
            out.append(("history", c))

    if quick:
        for init in ("xyz", "zxy", "xy-", "yz~"):
            hist(init, 2, 0)
        for init in ("zxy", "xy-"):
            hist(init, 3, 1)
    else:
        for init in INITS:
            hist(init, 3, 0)
        for init in ("zxy", "yz~", "wz"):
            hist(init, 4, 2)
    return out


HARNESSES = {"numeric": h_numeric, "member": h_member, "history": h_history}
