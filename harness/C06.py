"""C06 - MDA algorithms return the multidisciplinary fixed point (partial: Jacobi / Gauss-Seidel / Newton-Raphson / GS-Newton / chains and sequences of
them, the acceleration methods; the harnesses of the Newton family, of the acceleration methods and of the scaling change live in harness/C06x.py)."""
from __future__ import annotations

from fractions import Fraction

import numpy as np

from harness.common import _plain, _py, elems

META = dict(
    bounds=dict(
        quick="(1) harnesses stationary / converged / sequential: linear coupled systems y_i = sum_j A_ij y_j + B_i x + c_i with CONCRETE rational contraction matrices A (||A||_inf < 1; rings of 2-3 disciplines, a self-coupled discipline, two strongly connected components), symbolic inputs x and symbolic initial couplings; at most K=2 sweeps (max_mda_iter=K); MDAJacobi, MDAGaussSeidel, MDAChain/MDASequential built from them; over-relaxation factors {1, 1/2, 3/2}; residual scalings NO_SCALING and N_COUPLING_VARIABLES, and (MDAJacobi, concrete tolerance 1/4) INITIAL_SUBRESIDUAL_NORM with the bound ||A|| * tol * max_j s_j, s_j the initial sub-residual or 1 when it is zero.  "
              "(2) harness newton (harness/C06x.py): MDANewtonRaphson, MDAGSNewton, MDASequential([MDAJacobi | MDAGaussSeidel, MDANewtonRaphson]) and MDAChain(inner_mda_name='MDANewtonRaphson') on AFFINE systems with concrete dyadic coefficients "
              "(the affine disciplines of harness/C07.py with their exact Jacobians: ring2, ring2v and n_self2 with variables of size 2, self / n_self1 self-coupled, ring3; through MDAChain: weak = weakly coupled disciplines around a strongly coupled pair, "
              "n_two_scc = two strongly connected components and a weakly coupled discipline), symbolic inputs, symbolic initial couplings, symbolic tolerance; max_mda_iter K in {1, 2, 3}; matrix_type matrix (sparse path) and linear_operator; "
              "newton_linear_solver_name DEFAULT / LGMRES / GMRES; both listing orders (chosen by the solver); execute_before_linearizing on/off; disciplines filling all Jacobian blocks or only the requested ones.  Obligations: an elementary MDA that claims "
              "convergence (stops before max_mda_iter or reports normed_residual <= tolerance; NO_SCALING and N_COUPLING_VARIABLES) leaves every discipline satisfied within ||A||_inf * tol * scale; with relaxation factor 1 and no acceleration, once every "
              "Newton MDA has evaluated its residual twice the returned couplings ARE the closed-form solution and every returned output equals its discipline re-evaluated on the returned data (a full Newton step is exact on an affine system); "
              "started at the exact solution the MDA returns it and reports a zero residual; relaxed (1/2) and accelerated (secant) Newton iterations: convergence claim and stationarity only; MDANewtonRaphson on weakly coupled disciplines: the documented ValueError is accepted.  "
              "(3) harness accel (harness/C06x.py): MDAJacobi / MDAGaussSeidel x acceleration method in {Aitken, Secant, Alternate2Delta, AlternateDeltaSquared, MinimumPolynomial} x over-relaxation in {1/2, 1, 3/2} on a scalar self-coupled coupling (n_self1, symbolic input / start / tolerance) "
              "and on two-dimensional couplings (ring2, n_self2; CONCRETE inputs in the quick tier, symbolic start and tolerance), K = 3-5 sweeps so that the first accelerated iterate is executed.  Obligations: claimed convergence => satisfied within ||A|| tol; started at the exact solution it is returned; "
              "no division by zero (NaN couplings) in an acceleration formula on a feasible path; scalar affine coupling, relaxation 1: after the first Aitken / Secant / AlternateDeltaSquared / MinimumPolynomial step the MDA returns the exact fixed point; two-dimensional affine coupling, relaxation 1: after the first full-rank Alternate2Delta step (the default acceleration of MDAJacobi) the MDA returns the exact fixed point.  "
              "(4) harness rescale (harness/C06x.py): one MDAJacobi / MDAGaussSeidel object executed twice with `mda.scaling = <new>` in between (6 ordered pairs of scalings): the second run must complete and, for new in {NO_SCALING, N_COUPLING_VARIABLES}, honour the new scaling in its convergence claim",
        thorough="K=3 sweeps, all listing orders, more systems; newton: every system x both matrix types, more solvers (BICGSTAB, TFQMR), relaxation 3/2, stationarity on every system, chain / sequential variants; accel: symbolic inputs on the two-dimensional systems, Gauss-Seidel and reversed listing order, relaxation x acceleration on two-dimensional couplings, one more sweep; rescale: every ordered pair of the six residual scalings",
    ),
    outside=["convergence beyond K sweeps (data-dependent trip count)",
             "MDAQuasiNewton: scipy.optimize.root casts its start to float64 (MINPACK hybr/lm: 'Cannot cast array data from dtype(O)'; the Python broyden / krylov variants call float()): no symbolic value survives, nothing of it is checked",
             "non-linear systems: on affine systems the Jacobian is constant, so WHERE MDANewtonRaphson linearizes the disciplines (before / after the execution, stale Jacobians) is not observable; symbolic coupling coefficients (z3 answers unknown)",
             "the numerical behaviour of the linear solvers of the Newton step (LGMRES/GMRES tolerances, non-convergence, the fallback to a direct solver) and of LAPACK's lstsq (the `cond` thresholds of Alternate2Delta 1e-10 / MinimumPolynomial 1e-16 on nearly dependent difference vectors): replaced by exact-solve / exact-rank contracts",
             "acceleration: the iterates themselves are not pinned (only: same fixed point, claimed convergence is honest, finiteness, and the exactness statements listed in the bounds); coupling dimension > 2 and MinimumPolynomial windows with more than two columns (the lstsq contract stub refuses them: inconclusive, never success); "
             "a change of an acceleration formula that keeps the fixed point and is only visible on couplings of dimension >= 3 or after more sweeps is NOT detected; the relaxation formula itself (which iterates are combined) is not asserted",
             "re-use of one MDA object WITHOUT a change of scaling (the reference of the INITIAL_* scalings is kept from the first execution of the object's life: not documented either way, not asserted); MinimumPolynomial keeps its difference matrices across executions (same fixed point, not asserted)",
             "parallel execution of the disciplines (n_processes=1), warm start, caches"],
    stubs=["module global float() in gemseo.mda.base_mda_solver -> identity on symbolic reals", "harness disciplines use SimpleGrammar and no cache",
           "newton: the contract stubs of harness/C07.py (install_stubs, unchanged): jacobian_assembly.csr_matrix / csc_matrix / bmat / eye / empty -> value-preserving dense storage; every linear solve (the scipy Krylov wrappers behind LinearSolverLibraryFactory, a LinearOperator being probed through its matvec) -> the exact solution adj(A) b / det(A), re-checked on every path as obligations 'A x == b'",
           "accel: scipy.linalg.lstsq in acceleration/alternate_2_delta.py and acceleration/minimum_polynomial.py -> the minimum-norm least-squares solution and the exact rank in closed form for at most 2 rows x 2 columns (zero matrix -> 0, rank 0; invertible 2x2 -> Cramer, rank 2; otherwise M^T b / ||M||_F^2, rank 1); the closed forms are re-checked by the solver on generic entries through the normal equations (except the singular 2x2 case, which follows from M = u v^T by hand: see the stub's comment); larger shapes raise Unsupported",
           "all stubs are installed in symbolic mode only: the float64 replays and the differential self-test run the real SciPy (LGMRES / GMRES, LAPACK gelsd); in concrete mode Alternate2Delta's lstsq runs behind a wrapper that records the reported rank"],
    assumptions=["contraction: the infinity norm of the concrete coupling matrix is < 1 (C06.py systems) / every coupling coefficient is +-1/8 (C07-style systems)", "tolerance tol > 0 symbolic (settings validation needs a concrete number: the MDA's settings.tolerance is overwritten after construction)",
                 "newton / accel / rescale: first-attempt solver timeout 8 s (an unknown is retried once on a fresh non-linear solver with 24 s and makes the run inconclusive if it persists)"],
)

EXPLORER_OPTS = {"quick": dict(query_timeout_ms=30000), "thorough": dict(query_timeout_ms=90000)}

# systems: list of disciplines; each discipline: (name, output name, {coupling input name: coefficient}, external input name or None)
SYSTEMS = {
    "ring2": [("d0", "y0", {"y1": Fraction(1, 2)}, "x0"), ("d1", "y1", {"y0": Fraction(-1, 3)}, "x1")],
    "ring3": [("d0", "y0", {"y2": Fraction(1, 2)}, "x0"), ("d1", "y1", {"y0": Fraction(1, 3)}, None), ("d2", "y2", {"y1": Fraction(-1, 2)}, "x1")],
    "self": [("d0", "y0", {"y0": Fraction(1, 4), "y1": Fraction(1, 2)}, "x0"), ("d1", "y1", {"y0": Fraction(1, 3)}, "x1")],
    "two_scc": [("d0", "y0", {"y1": Fraction(1, 2)}, "x0"), ("d1", "y1", {"y0": Fraction(1, 3)}, None),
                ("d2", "y2", {"y0": Fraction(1, 1), "y3": Fraction(1, 4)}, None), ("d3", "y3", {"y2": Fraction(-1, 2)}, "x1")],
    # acyclic ("triangular") systems: the fixed-point iterations terminate exactly after at most n sweeps, in any listing order
    "tri3": [("d0", "y0", {}, "x0"), ("d1", "y1", {"y0": Fraction(2, 1)}, "x1"), ("d2", "y2", {"y1": Fraction(1, 3), "y0": Fraction(-1, 1)}, None)],
    "tri2": [("d0", "y0", {}, "x0"), ("d1", "y1", {"y0": Fraction(-3, 2)}, None)],
    "weak": [("d0", "y0", {}, "x0"), ("d1", "y1", {"y0": Fraction(2, 1), "y2": Fraction(1, 2)}, None), ("d2", "y2", {"y1": Fraction(1, 3)}, "x1")],
}


def _mk_disciplines(ctx, system, order, log):
    from gemseo.core.discipline import Discipline

    discs = []
    for (name, out, coefs, xin) in system:
        in_names = sorted(coefs) + ([xin] if xin else [])

        class Lin(Discipline):
            default_grammar_type = Discipline.GrammarType.SIMPLE
            default_cache_type = Discipline.CacheType.NONE
            _coefs, _xin, _out, _nm = coefs, xin, out, name

            def __init__(self, in_names=in_names, out=out, name=name):
                super().__init__(name=name)
                self.io.input_grammar.update_from_names(in_names)
                self.io.output_grammar.update_from_names([out])

            def _run(self, input_data):
                v = 0.0
                for k, c in self._coefs.items():
                    v = v + float(c) * _py(_plain(input_data[k])[0]) if not ctx.symbolic else v + _frac(c) * _py(_plain(input_data[k])[0])
                if self._xin:
                    v = v + _py(_plain(input_data[self._xin])[0])
                log.append(self._nm)
                return {self._out: ctx.array([v])}

        discs.append(Lin())
    return [discs[i] for i in order]


def _frac(c):
    from symgem.core import SymReal, _ratval

    return SymReal(_ratval(Fraction(c)))


def _G(system, x, y):
    """The defining map: component i of G(x, y) (exact rationals times terms)."""
    out = {}
    for (name, o, coefs, xin) in system:
        v = 0.0
        for k, c in coefs.items():
            v = v + (float(c) if isinstance(y[k], float) else _frac(c)) * y[k]
        if xin:
            v = v + x[xin]
        out[o] = v
    return out


def _norm_inf_A(system):
    return max(sum(abs(c) for c in coefs.values()) for (_, _, coefs, _) in system)


def _install(ctx):
    if not ctx.symbolic:
        return
    import gemseo.mda.base_mda_solver as bms

    def _float(v):
        from symgem.core import SymReal

        return v if isinstance(v, SymReal) else float(v)

    ctx.patch(bms, "float", _float)


def _build_mda(cfg, discs):
    from gemseo.mda.gauss_seidel import MDAGaussSeidel
    from gemseo.mda.jacobi import MDAJacobi
    from gemseo.mda.mda_chain import MDAChain
    from gemseo.mda.sequential_mda import MDASequential

    common = dict(max_mda_iter=cfg["K"], tolerance=1e-6, over_relaxation_factor=cfg.get("omega", 1.0), log_convergence=False)
    kind = cfg["mda"]
    if kind == "jacobi":
        return MDAJacobi(discs, n_processes=1, **common)
    if kind == "gs":
        return MDAGaussSeidel(discs, **common)
    if kind == "chain_gs":
        return MDAChain(discs, inner_mda_name="MDAGaussSeidel", inner_mda_settings=common, max_mda_iter=cfg["K"], tolerance=1e-6, log_convergence=False)
    if kind == "chain_jacobi":
        common["n_processes"] = 1
        return MDAChain(discs, inner_mda_name="MDAJacobi", inner_mda_settings=common, max_mda_iter=cfg["K"], tolerance=1e-6, log_convergence=False)
    raise ValueError(kind)


def _set_scaling(mda, cfg):
    if cfg.get("scaling"):
        mda.scaling = mda.ResidualScaling(cfg["scaling"])


def _set_tolerance(mda, tol):
    """Overwrite the (pydantic-validated, hence concrete) tolerance by the symbolic one, on the MDA and its inner MDAs."""
    todo = [mda]
    while todo:
        m = todo.pop()
        s = getattr(m, "settings", None)
        if s is not None and hasattr(s, "tolerance"):
            s.__dict__["tolerance"] = tol
        for attr in ("inner_mdas", "mda_sequence"):
            todo.extend(getattr(m, attr, []) or [])
        chain = getattr(m, "mdo_chain", None)
        if chain is not None:
            todo.extend(d for d in chain.disciplines if hasattr(d, "settings") and hasattr(d.settings, "tolerance"))


def h_stationary(ctx, cfg):
    """Started at an exact solution y = G(x, y), every MDA returns y and reports a zero residual."""
    _install(ctx)
    system = SYSTEMS[cfg["system"]]
    order = cfg.get("order") or list(range(len(system)))
    log = []
    discs = _mk_disciplines(ctx, system, order, log)
    xs = sorted({xin for (_, _, _, xin) in system if xin})
    ys = [o for (_, o, _, _) in system]
    x = {k: ctx.real(k) for k in xs}
    y = {k: ctx.real(k + "_init") for k in ys}
    g = _G(system, x, y)
    for k in ys:
        ctx.assume(ctx.eq(y[k], g[k]))
    mda = _build_mda(cfg, discs)
    tol = ctx.real("tol")
    ctx.assume(ctx.lt(0.0, tol))
    _set_tolerance(mda, tol)
    _set_scaling(mda, cfg)
    data = {k: ctx.array([v]) for k, v in {**x, **y}.items()}
    out = mda.execute(data)
    for k in ys:
        ctx.check(f"returned {k} is the exact solution", ctx.eq(elems(out[k])[0], y[k]))
        ctx.observe(k, np.ravel(out[k]))
    res = out.get(mda.NORMALIZED_RESIDUAL_NORM)
    # with the default scaling (division by the initial residual norm) a float64 replay of an exactly stationary start divides
    # rounding noise by rounding noise: the reported residual is asserted for the unscaled norms only
    # (and only when the MDA resolves at least one coupling: Gauss-Seidel on an acyclic system monitors an EMPTY residual vector, whose
    # norm divided by sqrt(0 coupling variables) is reported as NaN; the property does not speak of the reported value)
    n_resolved = len(getattr(mda, "_resolved_variable_names", ()) or ())
    if res is not None and cfg.get("scaling") and (n_resolved or not hasattr(mda, "_resolved_variable_names")):
        ctx.check("reported residual is zero", ctx.eq(elems(res)[0], 0.0))


def h_converged(ctx, cfg):
    """Whenever the MDA stops because the residual is small (not because max_mda_iter is hit), the returned couplings satisfy
    every discipline to within the tolerance: |G_i(x, y) - y_i| <= ||A||_inf * tol * scale (scale 1, or sqrt(n) bounded by 2)."""
    _install(ctx)
    system = SYSTEMS[cfg["system"]]
    order = cfg.get("order") or list(range(len(system)))
    log = []
    discs = _mk_disciplines(ctx, system, order, log)
    xs = sorted({xin for (_, _, _, xin) in system if xin})
    ys = [o for (_, o, _, _) in system]
    x = {k: ctx.real(k) for k in xs}
    y0 = {k: ctx.real(k + "_init") for k in ys}
    mda = _build_mda(cfg, discs)
    sub = cfg.get("scaling") == "initial_subresidual_norm"
    if sub:
        tol = 0.25  # concrete: the bound below multiplies the tolerance by the (symbolic) initial sub-residuals
    else:
        tol = ctx.real("tol")
        ctx.assume(ctx.lt(0.0, tol))
    _set_tolerance(mda, tol)
    _set_scaling(mda, cfg)
    data = {k: ctx.array([v]) for k, v in {**x, **y0}.items()}
    out = mda.execute(data)
    yr = {k: elems(out[k])[0] for k in ys}
    for k in ys:
        ctx.observe(k, np.ravel(out[k]))
    res = elems(out[mda.NORMALIZED_RESIDUAL_NORM])[0] if cfg["mda"] in ("jacobi", "gs") else None
    if res is None:
        return
    # the MDA claims convergence when it stops before max_mda_iter sweeps, or when the residual it reports is within the tolerance
    n_iter = len(mda.residual_history)
    small = ctx.true() if n_iter < cfg["K"] else ctx.le(res, tol)
    if cfg.get("terminates"):
        # acyclic system and max_mda_iter > number of disciplines: the iteration has reached the exact solution (or claimed
        # convergence earlier), so the returned couplings must satisfy every discipline whatever stopped the MDA
        small = ctx.true()
    ctx.observe("n_iter", [float(n_iter)])
    g = _G(system, x, yr)
    nA = _norm_inf_A(system)
    scale = 1.0 if cfg.get("scaling") == "no_scaling" else 2.0  # N_COUPLING_VARIABLES divides by sqrt(n) <= 2 for n <= 4
    bound = (float(nA) * scale) * tol if not ctx.symbolic else _frac(nA * Fraction(int(scale))) * tol
    if sub:
        # INITIAL_SUBRESIDUAL_NORM (MDAJacobi, scalar couplings): the MDA monitors max_j |r_j| / s_j with s_j = |r_j^0| for the residual
        # r^0 = G(x, y^0) - y^0 of its first sweep, and s_j = 1 when that is zero (documented).  A convergence claim therefore gives
        # |r_j| <= tol * s_j for EVERY coupling j, hence |G_i(y) - y_i| = |(A r)_i| <= ||A|| * tol * max_j s_j.
        g0 = _G(system, x, y0)
        smax = None
        for k in ys:
            r0 = g0[k] - y0[k]
            a = ctx.ite(ctx.le(0.0, r0), r0, -r0)
            sj = ctx.ite(ctx.eq(r0, 0.0), 1.0, a)
            smax = sj if smax is None else ctx.ite(ctx.le(smax, sj), sj, smax)
        bound = (float(nA) * tol) * smax if not ctx.symbolic else _frac(nA * Fraction(1, 4)) * smax
    for k in ys:
        d = g[k] - yr[k]
        ctx.check(f"converged => |G_{k}(y) - {k}| <= ||A|| * tol", ctx.implies(small, ctx.and_(ctx.le(d, bound), ctx.le(-bound, d))))


def h_sequential(ctx, cfg):
    """MDASequential with sub-MDAs of DIFFERENT (symbolic) tolerances: when the sequence stops before running its last sub-MDA it
    claims convergence at ITS OWN tolerance, so the returned couplings must satisfy every discipline within ||A|| * tol_sequence."""
    from gemseo.mda.gauss_seidel import MDAGaussSeidel
    from gemseo.mda.jacobi import MDAJacobi
    from gemseo.mda.sequential_mda import MDASequential

    _install(ctx)
    system = SYSTEMS[cfg["system"]]
    log = []
    discs = _mk_disciplines(ctx, system, list(range(len(system))), log)
    xs = sorted({xin for (_, _, _, xin) in system if xin})
    ys = [o for (_, o, _, _) in system]
    x = {k: ctx.real(k) for k in xs}
    y0 = {k: ctx.real(k + "_init") for k in ys}
    K = cfg["K"]
    mk = {"gs": lambda: MDAGaussSeidel(discs, max_mda_iter=K, tolerance=1e-6, log_convergence=False),
          "jacobi": lambda: MDAJacobi(discs, n_processes=1, max_mda_iter=K, tolerance=1e-6, log_convergence=False)}
    subs = [mk[k]() for k in cfg["subs"]]
    seq = MDASequential(discs, subs, max_mda_iter=K, tolerance=1e-6, log_convergence=False)
    tols = [ctx.real(f"tol_sub{i}") for i in range(len(subs))]
    tol = ctx.real("tol")
    for t in [*tols, tol]:
        ctx.assume(ctx.lt(0.0, t))
    for m, t in zip(subs, tols):
        m.settings.__dict__["tolerance"] = t
    seq.settings.__dict__["tolerance"] = tol
    seq.scaling = seq.ResidualScaling("no_scaling")
    out = seq.execute({k: ctx.array([v]) for k, v in {**x, **y0}.items()})
    yr = {k: elems(out[k])[0] for k in ys}
    for k in ys:
        ctx.observe(k, np.ravel(out[k]))
    last_not_run = len(subs[-1].residual_history) == 0
    ctx.observe("last_sub_mda_run", [0.0 if last_not_run else 1.0])
    if not last_not_run:
        return   # the sequence went through its last sub-MDA: what it then guarantees depends on that MDA's own settings
    g = _G(system, x, yr)
    nA = _norm_inf_A(system)
    bound = float(nA) * tol if not ctx.symbolic else _frac(nA) * tol
    for k in ys:
        d = g[k] - yr[k]
        ctx.check(f"sequence stopped early => |G_{k}(y) - {k}| <= ||A|| * tol(sequence)", ctx.and_(ctx.le(d, bound), ctx.le(-bound, d)))


def configs(tier):
    out = []
    quick = tier == "quick"
    for system in SYSTEMS:
        for mda in ("jacobi", "gs", "chain_gs", "chain_jacobi"):
            if mda.startswith("chain") and system not in ("two_scc", "weak", "ring2"):
                continue
            for omega in ((1.0, 0.5) if quick else (1.0, 0.5, 1.5)):
                if quick and omega != 1.0 and system not in ("ring2", "self"):
                    continue
                out.append(("stationary", dict(system=system, mda=mda, K=2, omega=omega)))
            if mda in ("jacobi", "gs"):
                if not quick:
                    out.append(("stationary", dict(system=system, mda=mda, K=2, scaling="n_coupling_variables")))
                out.append(("stationary", dict(system=system, mda=mda, K=2, scaling="no_scaling")))
                out.append(("stationary", dict(system=system, mda=mda, K=2, order=list(reversed(range(len(SYSTEMS[system])))))))
    for system in (("ring2", "self") if quick else ("ring2", "self", "ring3", "weak")):
        for mda in ("jacobi", "gs"):
            for K in ((2,) if quick else (2, 3)):
                out.append(("converged", dict(system=system, mda=mda, K=K, scaling="no_scaling")))
                out.append(("converged", dict(system=system, mda=mda, K=K, omega=0.5, scaling="no_scaling")))
                if not quick:
                    out.append(("converged", dict(system=system, mda=mda, K=K, scaling="n_coupling_variables")))
    for system in (("ring2",) if quick else ("ring2", "self")):
        for subs in (["gs", "jacobi"], ["jacobi", "gs"]):
            out.append(("sequential", dict(system=system, subs=subs, K=2)))
    for system, K in (("tri2", 3), ("tri3", 4)):
        n = len(SYSTEMS[system])
        for mda in ("jacobi", "gs"):
            for order in (list(range(n)), list(reversed(range(n)))):
                out.append(("converged", dict(system=system, mda=mda, K=K, order=order, scaling="no_scaling", terminates=True)))
    # residual scaling by the initial sub-residuals (a zero initial sub-residual is scaled by 1, not dropped)
    for K in ((2, 3) if tier == "quick" else (2, 3, 4)):
        out.append(("converged", dict(system="ring2", mda="jacobi", K=K, scaling="initial_subresidual_norm")))
    if tier != "quick":
        out.append(("converged", dict(system="ring3", mda="jacobi", K=3, scaling="initial_subresidual_norm")))
    return out


HARNESSES = {"stationary": h_stationary, "converged": h_converged, "sequential": h_sequential}

# ---- extension: Newton family and acceleration methods (harness/C06x.py) ---------------------------------------------------------
from harness import C06x  # noqa: E402

HARNESSES.update(C06x.HARNESSES)
_base_configs = configs


def configs(tier):  # noqa: F811
    return _base_configs(tier) + C06x.configs(tier)
