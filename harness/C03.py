"""C03 - drivers respect the evaluation budget and always return a result (generic driver layer)."""
from __future__ import annotations

import itertools

import numpy as np

from harness.common import _plain, _py, build_space, db_items, elems, install_hash_stub, install_np_array_stub

META = dict(
    bounds=dict(
        quick="adversarial stub optimizer issuing K<=3 requests (target objective/constraint/objective-Jacobian and point chosen by the solver) after the real _pre_run; budgets N in 1..K+1; design dimension 1-2 with concrete bounds; DOE stub with <=3 symbolic samples",
        thorough="K<=4, two successive executions with/without counter reset, max_time with a symbolic clock, ftol/xtol testers with symbolic histories",
    ),
    outside=["the wrappers of the individual optimization libraries (SciPy, NLopt, ...): compiled algorithms are replaced by the adversary",
             "composite/multi-level algorithms", "n_processes>1", "user functions that raise inside an OPTIMIZATION run (only the budget clause would apply); a DOE sample whose objective raises ValueError is covered (doe_raise: left out, the others still evaluated in order)"],
    stubs=["driver algorithm -> adversarial _run", "hash->const for symbolic keys", "hashable_ndarray.np_array keeps SymArray", "stop_criteria.average/allclose -> element-wise symbolic versions (same formulas)", "clock -> symbolic non-decreasing instants (max_time configs)",
           "unit sampler of the stub DOE -> symbolic matrix in [0,1]"],
    assumptions=["requested points lie in [0,1] (normalized) / inside the bounds", "objective/constraint values are uninterpreted symbols of the physical point or NaN as chosen by the solver"],
)


def _stub_opt_library(run, require_gradient=False):
    from gemseo.algos.opt.base_optimization_library import BaseOptimizationLibrary, OptimizationAlgorithmDescription
    from gemseo.algos.opt.base_optimizer_settings import BaseOptimizerSettings

    settings_cls = BaseOptimizerSettings
    if require_gradient:
        from gemseo.algos.opt.base_gradient_based_algorithm_settings import BaseGradientBasedAlgorithmSettings

        class settings_cls(BaseOptimizerSettings, BaseGradientBasedAlgorithmSettings):  # noqa: N801
            """Optimizer settings with the KKT tolerances of the gradient-based algorithms."""

    class StubOpt(BaseOptimizationLibrary):
        ALGORITHM_INFOS = {
            "Stub": OptimizationAlgorithmDescription(
                algorithm_name="Stub", internal_algorithm_name="Stub", handle_equality_constraints=True,
                handle_inequality_constraints=True, require_gradient=require_gradient, Settings=settings_cls)
        }

        def _run(self, problem, **settings):
            run(self, problem)
            return "stub finished", 0

    return StubOpt("Stub")


EXPLORER_OPTS = {"thorough": dict(wall_budget_s=3000.0, max_paths=200000)}


def _install_stop_criteria_stubs(ctx):
    """stop_criteria calls numpy.average / allclose on *lists* of arrays, which never reach the SymArray dispatch."""
    if not ctx.symbolic:
        return
    import gemseo.algos.stop_criteria as sc
    from symgem.core import sym_allclose, sym_average

    ctx.patch(sc, "average", sym_average)
    ctx.patch(sc, "allclose", sym_allclose)


def _mk_problem(ctx, cfg, log):
    _install_stop_criteria_stubs(ctx)
    from gemseo.algos.design_space import DesignSpace
    from gemseo.algos.optimization_problem import OptimizationProblem
    from gemseo.core.mdo_functions.mdo_function import MDOFunction

    n = cfg["n"]
    ds = DesignSpace()
    ds.add_variable("x", size=n, lower_bound=-1.0, upper_bound=3.0, value=1.0)
    F = ctx.uf("f", n)
    G = ctx.uf("g", n)
    dF = [ctx.uf(f"df{j}", n) for j in range(n)]
    nan_plan = cfg.get("nan", False)

    def mk(name, U):
        def fun(x):
            xs = elems(x)
            k = len(log)
            log.append((name, xs))
            if nan_plan and ctx.flag(f"nan_call{k}"):
                return ctx.array([float("nan")]) if not ctx.symbolic else np.array([float("nan")])
            return ctx.array([U(*xs)])

        return fun

    def jac(x):
        xs = elems(x)
        log.append(("df", xs))
        return ctx.array([[d(*xs) for d in dF]])

    problem = OptimizationProblem(ds)
    problem.objective = MDOFunction(mk("f", F), "f", jac=jac)
    if cfg.get("constraint"):
        problem.add_constraint(MDOFunction(mk("g", G), "g"), constraint_type="ineq")
    return problem, ds


def h_budget(ctx, cfg):
    """An adversarial algorithm cannot make the generic layer exceed the budget; execute always returns a result."""
    from gemseo.algos.optimization_result import OptimizationResult

    install_hash_stub(ctx)
    install_np_array_stub(ctx)
    n, K, N = cfg["n"], cfg["K"], cfg["N"]
    normalized = cfg["normalized"]
    log = []
    problem, ds = _mk_problem(ctx, cfg, log)
    targets = ["f", "df"] + (["g"] if cfg.get("constraint") else [])
    requested = []

    def run(lib, pb):
        for k in range(K):
            t = targets[ctx.choice(f"target{k}", len(targets))]
            p = ctx.reals(f"p{k}_", n)
            for v in elems(p):
                if normalized:
                    ctx.assume(ctx.and_(ctx.le(0.0, v), ctx.le(v, 1.0)))
                else:
                    ctx.assume(ctx.and_(ctx.le(-1.0, v), ctx.le(v, 3.0)))
            requested.append((t, elems(p)))
            if t == "f":
                pb.objective.evaluate(p)
            elif t == "df":
                pb.objective.jac(p)
            else:
                pb.constraints[0].evaluate(p)

    lib = _stub_opt_library(run, require_gradient=bool(cfg.get("kkt")))
    n_before = len(problem.database)
    settings = dict(max_iter=N, normalize_design_space=normalized, enable_progress_bar=False, log_problem=False)
    if cfg.get("kkt"):
        settings["kkt_tol_abs"] = cfg["kkt"]   # the KKT residual is computed at every point whose gradients are all recorded
    if cfg.get("tol"):
        settings.update(xtol_abs=cfg["tol"], ftol_abs=cfg["tol"], stop_crit_n_x=2)
    if "use_database" in cfg:
        settings["use_database"] = cfg["use_database"]   # "every normalization/database setting"
    result = lib.execute(problem, **settings)
    ctx.check("execute returns an OptimizationResult", ctx.true() if isinstance(result, OptimizationResult) else ctx.false())
    items = db_items(problem.database)
    n_new = len(items) - n_before
    ctx.check(f"new database entries {n_new} <= budget {N}", ctx.true() if n_new <= N else ctx.false())
    ctx.observe("n_new_entries", [float(n_new)])
    # the original objective/constraint are called at no more than N distinct points
    pts = [xs for (name, xs) in log if name in ("f", "g", "df")]
    _check_at_most_distinct(ctx, "original functions called at <= N distinct points", pts, N)
    # the result is built from the recorded history: its point is a database key
    if isinstance(result, OptimizationResult) and result.x_opt is not None and items:
        xo = elems(result.x_opt)
        ctx.check("x_opt is a recorded point", ctx.or_(*[ctx.and_(*[ctx.eq(a, b) for a, b in zip(xo, elems(k))]) for k, _ in items]))


def _check_at_most_distinct(ctx, label, pts, N):
    if len(pts) <= N:
        ctx.check(label, ctx.true())
        return
    for comb in itertools.combinations(range(len(pts)), N + 1):
        some_equal = ctx.or_(*[ctx.and_(*[ctx.eq(a, b) for a, b in zip(pts[i], pts[j])]) for i, j in itertools.combinations(comb, 2)])
        ctx.check(f"{label} (calls {comb})", some_equal)


def h_two_runs(ctx, cfg):
    """Two successive executions on the same problem, with or without counter reset."""
    from gemseo.algos.optimization_result import OptimizationResult

    install_hash_stub(ctx)
    install_np_array_stub(ctx)
    n, K, N = cfg["n"], cfg["K"], cfg["N"]
    reset = cfg["reset"]
    log = []
    problem, ds = _mk_problem(ctx, cfg, log)
    counter = [0]

    def run(lib, pb):
        r = counter[0]
        for k in range(K):
            p = ctx.reals(f"r{r}p{k}_", n)
            for v in elems(p):
                ctx.assume(ctx.and_(ctx.le(0.0, v), ctx.le(v, 1.0)))
            pb.objective.evaluate(p)

    sizes = [len(problem.database)]
    for r in range(2):
        counter[0] = r
        lib = _stub_opt_library(run)
        res = lib.execute(problem, max_iter=N, enable_progress_bar=False, log_problem=False, reset_iteration_counters=reset)
        ctx.check(f"run{r} returns a result", ctx.true() if isinstance(res, OptimizationResult) else ctx.false())
        sizes.append(len(problem.database))
    new1, new2 = sizes[1] - sizes[0], sizes[2] - sizes[1]
    ctx.observe("new_entries", [float(new1), float(new2)])
    ctx.check(f"first run: {new1} new entries <= N={N}", ctx.true() if new1 <= N else ctx.false())
    if reset:
        ctx.check(f"second run (reset): {new2} new entries <= N={N}", ctx.true() if new2 <= N else ctx.false())
    else:
        ctx.check(f"both runs (no reset): {new1}+{new2} new entries <= N={N}", ctx.true() if new1 + new2 <= N else ctx.false())


def h_max_time(ctx, cfg):
    """The time limit stops the run with a result; the clock returns arbitrary non-decreasing instants."""
    import gemseo.algos.base_driver_library as bdl
    from gemseo.algos.optimization_result import OptimizationResult

    install_hash_stub(ctx)
    install_np_array_stub(ctx)
    n, K = cfg["n"], cfg["K"]
    log = []
    problem, ds = _mk_problem(ctx, cfg, log)
    now = [0.0]
    ticks = [0]

    def clock():
        d = ctx.real(f"dt{ticks[0]}")
        ticks[0] += 1
        ctx.assume(ctx.le(0.0, d))
        now[0] = now[0] + d
        return now[0]

    ctx.patch(bdl, "time", clock, symbolic_only=False)

    def run(lib, pb):
        for k in range(K):
            p = ctx.reals(f"p{k}_", n)
            for v in elems(p):
                ctx.assume(ctx.and_(ctx.le(0.0, v), ctx.le(v, 1.0)))
            pb.objective.evaluate(p)

    lib = _stub_opt_library(run)
    res = lib.execute(problem, max_iter=10, max_time=1.0, enable_progress_bar=False, log_problem=False)
    ctx.check("execute returns an OptimizationResult", ctx.true() if isinstance(res, OptimizationResult) else ctx.false())
    ctx.observe("n_entries", [float(len(problem.database))])


# ---------------------------------------------------------------------------------------------------------------------
def _stub_doe_library(sampler):
    from gemseo.algos.doe.base_doe_library import BaseDOELibrary, DOEAlgorithmDescription
    from gemseo.algos.doe.base_doe_settings import BaseDOESettings

    class StubDOE(BaseDOELibrary):
        ALGORITHM_INFOS = {"StubDOE": DOEAlgorithmDescription(algorithm_name="StubDOE", internal_algorithm_name="StubDOE", Settings=BaseDOESettings)}

        def _generate_unit_samples(self, design_space, **settings):
            return sampler(design_space)

    return StubDOE("StubDOE")


def h_doe(ctx, cfg):
    """A DOE evaluates each distinct generated sample once and records them in generation order."""
    install_hash_stub(ctx)
    install_np_array_stub(ctx)
    n, S = cfg["n"], cfg["S"]
    log = []
    problem, ds = _mk_problem(ctx, cfg, log)
    rows = []

    def sampler(design_space):
        for s in range(S):
            r = [ctx.real(f"u{s}_{j}") for j in range(n)]
            for v in r:
                ctx.assume(ctx.and_(ctx.le(0.0, v), ctx.le(v, 1.0)))
            rows.append(r)
        return ctx.array(rows)

    lib = _stub_doe_library(sampler)
    lib.execute(problem, enable_progress_bar=False, log_problem=False)
    phys = [[-1.0 + 4.0 * v for v in r] for r in rows]
    items = db_items(problem.database)
    calls = [xs for (name, xs) in log if name == "f"]
    # each distinct sample evaluated once
    for a, b in itertools.combinations(range(len(calls)), 2):
        ctx.check(f"objective evaluated once per distinct sample (calls {a},{b})", ctx.not_(ctx.and_(*[ctx.eq(x, y) for x, y in zip(calls[a], calls[b])])))
    # every sample evaluated
    for s, p in enumerate(phys):
        ctx.check(f"sample {s} evaluated", ctx.or_(*[ctx.and_(*[ctx.eq(x, y) for x, y in zip(p, c)]) for c in calls]))
        ctx.check(f"sample {s} recorded", ctx.or_(*[ctx.and_(*[ctx.eq(x, y) for x, y in zip(p, elems(k))]) for k, _ in items]))
    # generation order: the e-th key is the e-th distinct sample
    distinct = []
    for s, p in enumerate(phys):
        is_new = ctx.and_(*[ctx.not_(ctx.and_(*[ctx.eq(x, y) for x, y in zip(p, q)])) for q in phys[:s]])
        distinct.append(is_new)
    # on each path the code has decided all equalities between keys, so "is_new" is decided too: count concretely via checks
    order = []
    for s, p in enumerate(phys):
        if _decided(ctx, distinct[s]):
            order.append(p)
    ctx.check(f"number of entries {len(items)} == number of distinct samples {len(order)}", ctx.true() if len(items) == len(order) else ctx.false())
    for e, ((k, _), p) in enumerate(zip(items, order)):
        ctx.check(f"entry {e} is the {e}-th distinct sample", ctx.and_(*[ctx.eq(x, y) for x, y in zip(elems(k), p)]))
    ctx.observe("n_entries", [float(len(items))])


def h_doe_raise(ctx, cfg):
    """A sequential DOE whose objective raises ValueError at one (solver-chosen) sample: the documented behaviour is to log the error,
    leave that sample out and go on, so every OTHER generated sample is still evaluated once and recorded in generation order."""
    from gemseo.algos.design_space import DesignSpace
    from gemseo.algos.optimization_problem import OptimizationProblem
    from gemseo.core.mdo_functions.mdo_function import MDOFunction

    install_hash_stub(ctx)
    install_np_array_stub(ctx)
    S = cfg["S"]
    raise_at = ctx.choice("raise_at", S + 1)  # S: no sample raises
    ds = DesignSpace()
    ds.add_variable("x", size=1, lower_bound=-1.0, upper_bound=3.0, value=1.0)
    F = ctx.uf("f", 1)
    calls = []
    rows = []

    def fun(x):
        xs = elems(x)
        calls.append(xs)
        if raise_at < S and ctx.symbolic is not None and _same_point(ctx, xs, [-1.0 + 4.0 * rows[raise_at][0]]):
            raise ValueError("the user function fails at this sample")
        return ctx.array([F(*xs)])

    problem = OptimizationProblem(ds)
    problem.objective = MDOFunction(fun, "f")

    def sampler(design_space):
        for k in range(S):
            r = [ctx.real(f"u{k}_0")]
            ctx.assume(ctx.and_(ctx.le(0.0, r[0]), ctx.le(r[0], 1.0)))
            for q in rows:  # pairwise distinct samples (coinciding samples: harness doe)
                ctx.assume(ctx.not_(ctx.eq(r[0], q[0])))
            rows.append(r)
        return ctx.array(rows)

    lib = _stub_doe_library(sampler)
    lib.execute(problem, enable_progress_bar=False, log_problem=False)
    phys = [[-1.0 + 4.0 * r[0]] for r in rows]
    items = db_items(problem.database)
    good = [k for k in range(S) if k != raise_at]
    for k in range(S):
        n_calls = sum(1 for c in calls if _same_point(ctx, c, phys[k]))
        ctx.check(f"raise_at={raise_at}: sample {k} passed once to the objective (passed {n_calls} times)", ctx.true() if n_calls == 1 else ctx.false())
    ctx.check(f"raise_at={raise_at}: the database holds the {len(good)} samples that did not raise (holds {len(items)})", ctx.true() if len(items) == len(good) else ctx.false())
    for e, ((key, _), k) in enumerate(zip(items, good)):
        ctx.check(f"raise_at={raise_at}: entry {e} is sample {k} (generation order)", ctx.eq(elems(key)[0], phys[k][0]))
    ctx.observe("n_entries", [float(len(items))])


def _same_point(ctx, a, b):
    return _decided(ctx, ctx.and_(*[ctx.eq(x, y) for x, y in zip(a, b)]))


def _decided(ctx, formula):
    """Truth value of a formula already decided by the path condition (forks otherwise, which is sound)."""
    if ctx.symbolic:
        from symgem.core import SymBool

        return bool(SymBool(formula))
    return bool(formula)


def configs(tier):
    out = []
    quick = tier == "quick"
    for K in ([2, 3] if quick else [2, 3, 4]):
        for N in range(1, K + 2):
            for normalized in (True, False):
                for constraint in (False, True):
                    if quick and K == 3 and (constraint or not normalized):
                        continue
                    if K == 4 and (constraint or not normalized or N > 3):
                        continue  # K=4 with a budget that never fires explodes (27k paths) and adds nothing over K=3
                    out.append(("budget", dict(n=1, K=K, N=N, normalized=normalized, constraint=constraint)))
    for N in (1, 2, 3):
        out.append(("budget", dict(n=2, K=2, N=N, normalized=True, constraint=True)))
        out.append(("budget", dict(n=1, K=2, N=N, normalized=True, constraint=True, nan=True)))
        out.append(("budget", dict(n=1, K=3 if not quick else 2, N=N + 1, normalized=True, constraint=False, tol=0.25)))
    for N in (1, 2, 3):
        out.append(("budget", dict(n=1, K=2, N=N, normalized=True, constraint=False, kkt=0.25)))
    for N in (1, 2):
        for normalized in (True, False):
            out.append(("budget", dict(n=1, K=2, N=N, normalized=normalized, constraint=False, use_database=False)))
    for reset in (True, False):
        for N in (1, 2, 3):
            out.append(("two_runs", dict(n=1, K=1, N=N, reset=reset)))
            if not quick:
                out.append(("two_runs", dict(n=1, K=2, N=N, reset=reset)))
    out.append(("max_time", dict(n=1, K=2)))
    if not quick:
        out.append(("max_time", dict(n=1, K=3)))
    for S in ((2, 3) if quick else (2, 3, 4)):
        out.append(("doe", dict(n=1, S=S)))
    out.append(("doe", dict(n=2, S=2)))
    out.append(("doe_raise", dict(S=3)))
    if not quick:
        out.append(("doe_raise", dict(S=4)))
    return out


HARNESSES = {"budget": h_budget, "two_runs": h_two_runs, "max_time": h_max_time, "doe": h_doe, "doe_raise": h_doe_raise}
