"""C20 - serialized disciplines, processes and problems behave like the originals.

What is decided here.  ``pickle`` / ``copy.deepcopy`` are compiled serializers: every round trip of this harness runs CONCRETELY on a
concrete object (a real gemseo discipline, process, function, design space or problem, at a concrete moment of its life).  The solver
part is (a) the "for every input" quantifier: after the round trip the ORIGINAL and the RESTORED object are run on the same SYMBOLIC
input data and every output / Jacobian component must be the same term and must equal an explicit formula written in this file
(polynomial templates), on every feasible path (cache hit / cache miss / within the cache tolerance / piecewise branches);
(b) the enumeration of the discrete choices (serialization route, which inputs are omitted so that the default values are used, who
runs first, which object is mutated afterwards) through ``ctx.choice`` / ``ctx.flag``.  The classes, grammar types, cache policies and
moments of life are configurations.  Each explored path is concrete as far as the serializer is concerned.

Real code under test: ``Serializable.__getstate__/__setstate__``, ``ExecutionStatistics/ExecutionStatus._init_shared_memory_attrs_before``,
``JSONGrammar.__getstate__/__setstate__``, ``Defaults``, ``DisciplineData.__getstate__/__setstate__``, ``AnalyticDiscipline.__setstate__``,
``HDF5Cache.__getstate__/__setstate__``, ``ProblemFunction._init_shared_memory_attrs_before``, ``to_pickle/from_pickle`` and, after the round
trip, ``execute`` / ``linearize`` of the restored objects.
"""
from __future__ import annotations

import copy
import os
import pickle
import shutil
import tempfile

import numpy as np

from harness.common import _plain, _py, elems
from symgem.core import SymArray, _is_sym, has_sym

META = dict(
    bounds=dict(
        quick="EVERY ROUND TRIP IS CONCRETE (pickle / deepcopy are compiled serializers): the solver decides the 'for every input' part after the "
              "round trip and enumerates the discrete choices; the (class, grammar type, cache policy, moment of life) combinations are configurations.  "
              "Objects: AnalyticDiscipline (polynomial; one piecewise Abs/Max variant), LinearCombination, Splitter, Concatenater, FilteringDiscipline, "
              "ArrayBasedFunctionDiscipline (module-level callables), TaylorDiscipline (executions only), MDOChain, MDOParallelChain(n_processes=1), "
              "MDOAdditiveChain of AnalyticDisciplines; MDAGaussSeidel (plain / over-relaxed), MDAJacobi, MDAChain (inner Gauss-Seidel / Jacobi), MDASequential on a "
              "3-discipline linear system with dyadic contraction coefficients; MDOFunction, MDOLinearFunction (vector-valued), MDOQuadraticFunction, sums / "
              "products / negation / offset of them, a function generated from a discipline (DisciplineAdapterGenerator); a DesignSpace (float / half-bounded / "
              "integer / fixed variables, integer normalization on or off); an OptimizationProblem (objective, vector inequality constraint, observable; fresh / "
              "preprocessed / evaluated, normalized or physical inputs); DOEScenario and MDOScenario (DisciplinaryOpt, MDF; fresh / executed).  "
              "Grammar types JSON and Simple (Simpler for the processes, their own default).  Cache policies: none, SimpleCache (tolerance 0 and 1/4), "
              "HDF5Cache (tolerance 0 and 1/4; concrete inputs only), MemoryFullCache shared / unshared (own harness).  Moments of life (concrete dyadic data): fresh; "
              "after 1 or 2 executions; after linearize(all Jacobians); after add_differentiated_inputs/outputs (with or without a linearization); after the default "
              "values were replaced; after set_jacobian_approximation(finite differences, step 1/8) + linearization_mode; with a namespaced input (leaf discipline); "
              "combinations of these; the full matrix for AnalyticDiscipline and MDOChain, 3-4 moments for the other classes.  Routes (ctx.choice): pickle.dumps/loads, "
              "gemseo.utils.pickle.to_pickle/from_pickle on a temporary file, copy.deepcopy; a second round trip of the restored object in some configurations.  "
              "After the round trip: ORIGINAL and RESTORED run on the same symbolic input (inputs omitted: none / the first / all, ctx.choice; who runs first: ctx.flag): "
              "outputs and Jacobian blocks are the same terms and equal the explicit formula of the template on every path (cache hit on the recorded concrete input, "
              "miss, within the tolerance, both branches of Abs/Max); then one of the two (ctx.flag) is executed at a second symbolic point, linearized, its defaults "
              "modified in place and by replacement, its caches cleared, its grammars extended, its counter overwritten, and the other one must expose the same facts, "
              "hold the same local data, still compute with its own defaults and serve the repeated input from its own cache.",
        thorough="same with the full matrix of moments for every discipline / chain class and every MDA class",
    ),
    outside=[
        "the serializers themselves (pickle, copy, h5py are compiled: every round trip is concrete) and therefore 'pickled at ANY moment': only the listed moments, "
        "with the listed concrete data, are explored; a defect that needs another class, another attribute value or a longer life is not detected",
        "classes left out because their bodies are not dtype-agnostic on symbols or need external tools: AutoPyDiscipline (float() in its data processor), "
        "RemappingDiscipline (writes its inputs into preallocated float64 buffers), SurrogateDiscipline and every ML model (sklearn / compiled), XLSDiscipline, "
        "DiscFromExe, ODE disciplines, scalable / Sobieski problem disciplines, MDANewtonRaphson / MDAQuasiNewton / MDAGSNewton (LAPACK / scipy), BiLevel / IDF scenarios, "
        "ParameterSpace (OpenTURNS / SciPy distributions), PydanticGrammar, optimizers and DOE libraries other than CustomDOE / SLSQP run concretely",
        "multiprocessing itself (the implicit pickling between processes): only the explicit routes are run, in one process",
        "HDF5Cache on symbolic inputs (h5py stores machine floats): its harness uses concrete inputs only and is a plain example-based test run by this framework",
        "interleaved recording of NEW inputs by the original and the restored object through two live HDF5Cache objects on one file node (each keeps the entry "
        "counter it read when created; the second writer raises RuntimeError 'Failed to cache dataset': observed, tools/C20-repro.py, not asserted: the property "
        "only says the cache stays attached to its file); whether a restored SHARED MemoryFullCache still shares its content with the original",
        "Jacobians of the piecewise template against a formula (tie conventions of Abs/Max derivatives are not specified: original and restored are compared with each "
        "other only); Jacobians with a namespaced input (AnalyticDiscipline leaves that block at zero, serialized or not); linearization of a TaylorDiscipline and "
        "TaylorDiscipline with a cache (KeyError at the first execution after a linearization or a cache hit, serialized or not)",
        "total derivatives of the MDAs at symbolic points (JacobianAssembly / scipy.sparse: computed at a concrete point, where they are constant for the linear "
        "system, compared with the exact values within 1e-9 and bitwise between original and restored); MDA executions started away from the solution",
        "the optimizer run of MDOScenario (SLSQP runs concretely on both objects; results compared with each other only); after it the objective is compared between "
        "original and restored only (the caches then hold arbitrary floats whose float64 outputs differ from the exact formula)",
        "execution durations, logging, progress bars, observers of the execution status",
    ],
    stubs=[
        "gemseo.disciplines.analytic.array, gemseo.utils.derivatives.base_gradient_approximator.array -> value-preserving object arrays when an element is symbolic",
        "gemseo.utils.derivatives.derivatives_approx.zeros, gemseo.core.mdo_functions.discipline_adapter.empty, gemseo.core.discipline.discipline.csr_array -> "
        "object-dtype zeros (functions / scenarios harnesses)",
        "JSONGrammar.__cast_value: an array holding symbols is shown to fastjsonschema as an array of 0.0 of the same shape (the schemas used constrain types only)",
        "Discipline.default_grammar_type set per configuration (both modes) to get JSON or Simple grammars from the unmodified gemseo classes",
        "module global float() in gemseo.mda.base_mda_solver -> identity on symbolic reals (MDA harness)",
        "harness.common.install_hash_stub / install_np_array_stub (problem and MemoryFullCache harnesses): symbolic keys collide, look-ups decided by equality",
    ],
    assumptions=[
        "the life of the object before serialization uses the concrete dyadic points of the templates; afterwards inputs are arbitrary reals",
        "SimpleCache with tolerance 1/4: an input is 'within the tolerance' of the recorded one under either documented reading of the reference point (as in C05) and "
        "inputs closer than 2**-10 to the boundary of the tolerance test are excluded",
        "normalized points in [0,1], physical points within the bounds (problem harness); unnormalize_vect on points of [0,1] (design-space harness)",
        "MDAs are started at a symbolic exact solution of the linear system (they return it at once, as in C06/C17)",
        "design-space widths are powers of two and the linear-system coefficients dyadic, so that float64 replays are exact",
    ],
)

EXPLORER_OPTS = {"quick": dict(max_paths=4000, wall_budget_s=200.0), "thorough": dict(max_paths=40000, wall_budget_s=1500.0)}


# ------------------------------------------------------------------------------------------------
# module-level (hence picklable by reference) dtype-agnostic callables
# ------------------------------------------------------------------------------------------------
def arr_func(v):
    """R^3 -> R^2 polynomial used by ArrayBasedFunctionDiscipline (dtype-agnostic)."""
    out = np.empty(2, dtype=v.dtype if isinstance(v, np.ndarray) else float)
    out[0] = v[0] * v[1] + v[2]
    out[1] = v[0] - 3.0 * v[2] * v[2]
    return out


def arr_jac(v):
    out = np.empty((2, 3), dtype=v.dtype if isinstance(v, np.ndarray) else float)
    out[0, 0], out[0, 1], out[0, 2] = v[1], v[0], 1.0
    out[1, 0], out[1, 1], out[1, 2] = 1.0, 0.0, -6.0 * v[2]
    return out


def fn_f(x):
    """f(a0, a1, b) = a0 a1 + b (dtype-agnostic, module-level: pickled by reference)."""
    return x[0] * x[1] + x[2]


def fn_df(x):
    out = np.empty_like(x)  # (same array class and dtype as the argument)
    out[0], out[1], out[2] = x[1], x[0], 1.0
    return out


# ------------------------------------------------------------------------------------------------
# templates: a builder of a REAL gemseo object + the explicit oracle (values / partial derivatives as python arithmetic on scalars)
# ------------------------------------------------------------------------------------------------
class Template:
    def __init__(self, build, inputs, defaults, outputs, value, jac=None, lin=True, x0=None, x1=None, piecewise=False,
                 omit_modes=None, diff0=((), ())):
        self.build, self.inputs, self.defaults, self.outputs = build, inputs, defaults, outputs
        self.value, self.jac, self.lin, self.piecewise = value, jac, lin, piecewise
        # which inputs the caller may leave out (their default values are then used): none / the first one / all of them
        self.omit_modes = omit_modes if omit_modes is not None else (("none", "first", "all") if defaults else ("none",))
        self.diff0 = diff0  # differentiated inputs / outputs registered by the constructor
        self.x0, self.x1 = x0, x1  # two concrete points (dyadic rationals): the life of the object before it is serialized


def _restricted(T):
    """The template seen after ``output_grammar.restrict_to([first output])`` (moment step ``restrict``)."""
    first = next(iter(T.outputs))
    return Template(T.build, T.inputs, T.defaults, {first: T.outputs[first]}, lambda v: {first: T.value(v)[first]},
                    (lambda v: {first: T.jac(v)[first]}) if T.jac is not None else None, lin=T.lin, x0=T.x0, x1=T.x1,
                    piecewise=T.piecewise, omit_modes=T.omit_modes, diff0=T.diff0)


def _A1():
    from gemseo.disciplines.analytic import AnalyticDiscipline

    return AnalyticDiscipline({"y": "2*x+3*z*x", "w": "x**2-z"}, name="A1")


def _A2():
    from gemseo.disciplines.analytic import AnalyticDiscipline

    return AnalyticDiscipline({"v": "y*w-y"}, name="A2")


def _A3():
    from gemseo.disciplines.analytic import AnalyticDiscipline

    return AnalyticDiscipline({"u": "x-z"}, name="A3")


def _a1_value(v):
    x, z = v["x"][0], v["z"][0]
    return {"y": [2.0 * x + 3.0 * z * x], "w": [x * x - z]}


def _a1_jac(v):
    x, z = v["x"][0], v["z"][0]
    return {"y": {"x": [[2.0 + 3.0 * z]], "z": [[3.0 * x]]}, "w": {"x": [[2.0 * x]], "z": [[-1.0]]}}


def _chain_value(v):
    r = _a1_value(v)
    y, w = r["y"][0], r["w"][0]
    r["v"] = [y * w - y]
    return r


def _chain_jac(v):
    x, z = v["x"][0], v["z"][0]
    val = _a1_value(v)
    y, w = val["y"][0], val["w"][0]
    j = _a1_jac(v)
    dv_dy, dv_dw = w - 1.0, y
    j["v"] = {"x": [[dv_dy * j["y"]["x"][0][0] + dv_dw * j["w"]["x"][0][0]]], "z": [[dv_dy * j["y"]["z"][0][0] + dv_dw * j["w"]["z"][0][0]]]}
    return j


def _par_value(v):
    r = _a1_value(v)
    r["u"] = [v["x"][0] - v["z"][0]]
    return r


def _par_jac(v):
    j = _a1_jac(v)
    j["u"] = {"x": [[1.0]], "z": [[-1.0]]}
    return j


def _build_chain():
    from gemseo.core.chains.chain import MDOChain

    return MDOChain([_A1(), _A2()], name="CH")


def _build_par():
    from gemseo.core.chains.parallel_chain import MDOParallelChain

    return MDOParallelChain([_A1(), _A3()], name="PAR", n_processes=1)


def _build_add():
    from gemseo.core.chains.additive_chain import MDOAdditiveChain
    from gemseo.disciplines.analytic import AnalyticDiscipline

    return MDOAdditiveChain([AnalyticDiscipline({"s": "x+z"}, name="P1"), AnalyticDiscipline({"s": "x*z"}, name="P2")], ["s"], name="ADD", n_processes=1)


def _build_lincomb():
    from gemseo.disciplines.linear_combination import LinearCombination

    return LinearCombination(["a", "b"], "s", {"a": 2.0, "b": -1.0}, offset=0.5, input_size=2)


def _build_splitter():
    from gemseo.disciplines.splitter import Splitter

    return Splitter("al", {"be": [0, 1], "de": 2})


def _build_concat():
    from gemseo.disciplines.concatenater import Concatenater

    return Concatenater(["a", "b"], "c", {"a": 2.0})


def _build_filter():
    from gemseo.disciplines.wrappers.filtering_discipline import FilteringDiscipline

    return FilteringDiscipline(_A1(), output_names=["y"])


def _build_arrayfn():
    from gemseo.disciplines.array_based_function import ArrayBasedFunctionDiscipline

    return ArrayBasedFunctionDiscipline(arr_func, {"p": 2, "q": 1}, {"r": 1, "t": 1}, arr_jac)


def _build_taylor():
    from gemseo.disciplines.taylor import TaylorDiscipline

    return TaylorDiscipline(_A1(), {"x": np.array([0.5]), "z": np.array([2.0])}, name="TAY")


def _build_pw():
    from gemseo.disciplines.analytic import AnalyticDiscipline

    return AnalyticDiscipline({"y": "Abs(x) + Max(x, z)"}, name="PW")


def _abs(a):
    return abs(a)


def _max(a, b):
    from symgem.core import _maximum

    return _maximum(a, b)


TEMPLATES = {
    "analytic": Template(_A1, {"x": 1, "z": 1}, {"x": [0.0], "z": [0.0]}, {"y": 1, "w": 1}, _a1_value, _a1_jac,
                         x0={"x": [0.5], "z": [2.0]}, x1={"x": [-1.5], "z": [0.25]}),
    "piecewise": Template(_build_pw, {"x": 1, "z": 1}, {"x": [0.0], "z": [0.0]}, {"y": 1},
                          lambda v: {"y": [_abs(v["x"][0]) + _max(v["x"][0], v["z"][0])]}, None, piecewise=True,
                          x0={"x": [0.5], "z": [2.0]}, x1={"x": [-1.5], "z": [0.25]}),
    "lincomb": Template(_build_lincomb, {"a": 2, "b": 2}, {"a": [0.0, 0.0], "b": [0.0, 0.0]}, {"s": 2},
                        lambda v: {"s": [0.5 + 2.0 * v["a"][k] - v["b"][k] for k in range(2)]},
                        lambda v: {"s": {"a": [[2.0, 0.0], [0.0, 2.0]], "b": [[-1.0, 0.0], [0.0, -1.0]]}},
                        x0={"a": [0.5, 1.0], "b": [2.0, -1.0]}, x1={"a": [1.5, 0.25], "b": [0.0, 4.0]},
                        # (LinearCombination accumulates in place: a float64 default followed by a symbolic input is not dtype-agnostic)
                        omit_modes=("none", "all")),
    "splitter": Template(_build_splitter, {"al": 3}, {}, {"be": 2, "de": 1},
                         lambda v: {"be": [v["al"][0], v["al"][1]], "de": [v["al"][2]]},
                         lambda v: {"be": {"al": [[1.0, 0.0, 0.0], [0.0, 1.0, 0.0]]}, "de": {"al": [[0.0, 0.0, 1.0]]}},
                         x0={"al": [0.5, 1.0, -2.0]}, x1={"al": [1.5, 0.25, 3.0]}),
    "concat": Template(_build_concat, {"a": 2, "b": 1}, {}, {"c": 3},
                       lambda v: {"c": [2.0 * v["a"][0], 2.0 * v["a"][1], v["b"][0]]},
                       lambda v: {"c": {"a": [[2.0, 0.0], [0.0, 2.0], [0.0, 0.0]], "b": [[0.0], [0.0], [1.0]]}},
                       x0={"a": [0.5, 1.0], "b": [-2.0]}, x1={"a": [1.5, 0.25], "b": [3.0]}),
    "filter": Template(_build_filter, {"x": 1, "z": 1}, {"x": [0.0], "z": [0.0]}, {"y": 1},
                       lambda v: {"y": _a1_value(v)["y"]}, lambda v: {"y": _a1_jac(v)["y"]},
                       x0={"x": [0.5], "z": [2.0]}, x1={"x": [-1.5], "z": [0.25]},
                       # (its constructor calls add_differentiated_inputs/outputs with the empty lists of the wrapped discipline = all names)
                       diff0=(("x", "z"), ("y",))),
    "arrayfn": Template(_build_arrayfn, {"p": 2, "q": 1}, {"p": [0.0, 0.0], "q": [0.0]}, {"r": 1, "t": 1},
                        lambda v: {"r": [v["p"][0] * v["p"][1] + v["q"][0]], "t": [v["p"][0] - 3.0 * v["q"][0] * v["q"][0]]},
                        lambda v: {"r": {"p": [[v["p"][1], v["p"][0]]], "q": [[1.0]]}, "t": {"p": [[1.0, 0.0]], "q": [[-6.0 * v["q"][0]]]}},
                        x0={"p": [0.5, 2.0], "q": [1.0]}, x1={"p": [-1.5, 0.25], "q": [0.5]}),
    # first-order Taylor polynomial of A1 at (x, z) = (1/2, 2): y ~ -3 + 8 x + 3/2 z, w ~ -1/4 + x - z.  Executions only: on the
    # unchanged tree a TaylorDiscipline raises KeyError at the first execution that follows a linearize() (not a serialization matter)
    "taylor": Template(_build_taylor, {"x": 1, "z": 1}, {"x": [0.5], "z": [2.0]}, {"y": 1, "w": 1},
                       lambda v: {"y": [-3.0 + 8.0 * v["x"][0] + 1.5 * v["z"][0]], "w": [-0.25 + v["x"][0] - v["z"][0]]}, None, lin=False,
                       x0={"x": [0.25], "z": [1.0]}, x1={"x": [-1.5], "z": [0.25]}),
    "chain": Template(_build_chain, {"x": 1, "z": 1}, {"x": [0.0], "z": [0.0]}, {"y": 1, "w": 1, "v": 1}, _chain_value, _chain_jac,
                      x0={"x": [0.5], "z": [2.0]}, x1={"x": [-1.5], "z": [0.25]}),
    "parallel": Template(_build_par, {"x": 1, "z": 1}, {"x": [0.0], "z": [0.0]}, {"y": 1, "w": 1, "u": 1}, _par_value, _par_jac,
                         x0={"x": [0.5], "z": [2.0]}, x1={"x": [-1.5], "z": [0.25]}),
    "additive": Template(_build_add, {"x": 1, "z": 1}, {"x": [0.0], "z": [0.0]}, {"s": 1},
                         lambda v: {"s": [v["x"][0] + v["z"][0] + v["x"][0] * v["z"][0]]},
                         lambda v: {"s": {"x": [[1.0 + v["z"][0]]], "z": [[1.0 + v["x"][0]]]}},
                         x0={"x": [0.5], "z": [2.0]}, x1={"x": [-1.5], "z": [0.25]}),
}

ROUTES = ("pickle", "to_pickle", "deepcopy")
CACHE_TOL = 0.25
FD_STEP = 0.125


# ------------------------------------------------------------------------------------------------
# stubs
# ------------------------------------------------------------------------------------------------
def _zeros_obj(shape, dtype=None, **k):
    a = np.empty(shape, dtype=object)
    a[...] = 0.0
    return a.view(SymArray)


def _install(ctx, grammar="json"):
    """Grammar type of every discipline built on this path (both modes) + the value-preserving stubs of the symbolic mode."""
    from gemseo.core.discipline import Discipline

    gt = {"json": Discipline.GrammarType.JSON, "simple": Discipline.GrammarType.SIMPLE}[grammar]
    ctx.patch(Discipline, "default_grammar_type", gt, symbolic_only=False)
    if not ctx.symbolic:
        return
    import gemseo.disciplines.analytic as am
    import gemseo.utils.derivatives.base_gradient_approximator as bga
    import gemseo.utils.derivatives.derivatives_approx as da
    from gemseo.core.grammars.json_grammar import JSONGrammar

    def array_keep(a, dtype=None, **k):
        o = np.array(a, dtype=object)
        if has_sym(o):
            return SymArray(o)
        return np.array(a, dtype=dtype, **k)

    ctx.patch(am, "array", array_keep)
    ctx.patch(bga, "array", array_keep)
    ctx.patch(da, "zeros", _zeros_obj)
    real_cast = JSONGrammar.__dict__["_JSONGrammar__cast_value"].__func__

    def cast_value(cls, value):
        # fastjsonschema tests isinstance(item, (int, float, Decimal)): a symbolic real is presented as the float 0.0 (the schemas
        # of this harness carry no constraint on the values, only on the types)
        if isinstance(value, np.ndarray) and value.dtype == object:
            return np.zeros(value.shape).tolist()
        return real_cast(cls, value)

    ctx.patch(JSONGrammar, "_JSONGrammar__cast_value", classmethod(cast_value))


# ------------------------------------------------------------------------------------------------
# helpers
# ------------------------------------------------------------------------------------------------
def _dense(b):
    return b.toarray() if hasattr(b, "toarray") else b


def _conc(point):
    return {n: np.array(v, dtype=float) for n, v in point.items()}


def _round_trip(obj, route, tmp):
    if route == "pickle":
        return pickle.loads(pickle.dumps(obj))
    if route == "deepcopy":
        return copy.deepcopy(obj)
    from gemseo.utils.pickle import from_pickle, to_pickle

    path = os.path.join(tmp, f"obj{len(os.listdir(tmp))}.pkl")
    to_pickle(obj, path)
    return from_pickle(path)


def _truth(ctx, b):
    return ctx.true() if b else ctx.false()


def _same_values(a, b):
    a, b = np.asarray(_dense(a)), np.asarray(_dense(b))
    return a.shape == b.shape and bool(np.all(a == b))


def _check_values(ctx, label, got, exp_list, size, alt=None):
    """``got`` (array) has ``size`` components equal to ``exp_list`` (or, all of them, to ``alt[1]`` when the formula ``alt[0]`` holds)."""
    g = elems(got) if got is not None else None
    if g is None or len(g) != size:
        ctx.check(f"{label}: missing or of the wrong size", ctx.false())
        return None
    if alt is None:
        for k in range(size):
            ctx.check(f"{label}[{k}]", ctx.eq(g[k], exp_list[k]))
    else:
        here = ctx.and_(*[ctx.eq(g[k], exp_list[k]) for k in range(size)])
        there = ctx.and_(alt[0], *[ctx.eq(g[k], alt[1][k]) for k in range(size)])
        ctx.check(f"{label} (at the input, or at the cached input within the tolerance)", ctx.or_(here, there))
    return g


def _check_block(ctx, label, got, rows):
    m, n = len(rows), len(rows[0])
    if got is None:
        ctx.check(f"{label}: block missing", ctx.false())
        return
    got = _dense(got)
    if tuple(np.shape(got)) != (m, n):
        ctx.check(f"{label}: shape {tuple(np.shape(got))} != {(m, n)}", ctx.false())
        return
    g = _plain(got) if isinstance(got, np.ndarray) else np.asarray(got, dtype=object)
    for r in range(m):
        for c in range(n):
            ctx.check(f"{label}[{r},{c}]", ctx.eq(_py(g[r, c]), rows[r][c]))


def _grammar_facts(g):
    """What a grammar exposes: element names (ordered), required names, default values, namespaces."""
    return dict(cls=type(g).__name__, names=list(g), required=sorted(g.required_names),
                defaults={k: (repr(elems(v)) if has_sym(np.asarray(v, dtype=object)) else np.array(v, dtype=float).tolist()) for k, v in g.defaults.items()},
                to_ns={k: list(v) if isinstance(v, (list, tuple)) else v for k, v in dict(g.to_namespaced).items()})


def _disc_facts(d):
    from gemseo.core.discipline import Discipline

    c = getattr(d, "cache", None)
    f = dict(cls=type(d).__name__, name=d.name, inp=_grammar_facts(d.io.input_grammar), out=_grammar_facts(d.io.output_grammar),
             cache=None if c is None else type(c).__name__, cache_tol=None if c is None else float(c.tolerance),
             cache_len=None if c is None else len(c), lin_mode=str(d.linearization_mode),
             diff_in=sorted(d._differentiated_input_names), diff_out=sorted(d._differentiated_output_names),
             n_exec=d.execution_statistics.n_executions, n_lin=d.execution_statistics.n_linearizations,
             status=str(d.execution_status.value), local=sorted(d.io.data))
    if isinstance(d, Discipline) and d._jac_approx is not None:
        ap = d._jac_approx
        f["approx"] = (str(ap.approx_method), float(np.real(ap.step)) if np.ndim(ap.step) == 0 else [float(np.real(s)) for s in np.ravel(ap.step)])
    subs = getattr(d, "disciplines", None) or ()
    if subs and not isinstance(subs, property):
        f["subs"] = [_disc_facts(s) for s in subs]
    return f


def _diff_facts(a, b, path=""):
    """Human-readable list of the differences between two fact dictionaries."""
    out = []
    for k in sorted(set(a) | set(b)):
        va, vb = a.get(k, "<absent>"), b.get(k, "<absent>")
        if isinstance(va, dict) and isinstance(vb, dict):
            out += _diff_facts(va, vb, f"{path}{k}.")
        elif isinstance(va, list) and isinstance(vb, list) and va and isinstance(va[0], dict) and len(va) == len(vb):
            for i, (x, y) in enumerate(zip(va, vb)):
                out += _diff_facts(x, y, f"{path}{k}[{i}].")
        elif va != vb:
            out.append(f"{path}{k}: {va!r} != {vb!r}")
    return out


# ------------------------------------------------------------------------------------------------
# disciplines and chains
# ------------------------------------------------------------------------------------------------
def _set_cache(d, cache, tmp):
    from gemseo.core.discipline import Discipline

    if cache == "none":
        d.set_cache(Discipline.CacheType.NONE)
    elif cache == "simple":
        d.set_cache(Discipline.CacheType.SIMPLE)
    elif cache == "simple_tol":
        d.set_cache(Discipline.CacheType.SIMPLE, tolerance=CACHE_TOL)
    elif cache == "hdf5":
        d.set_cache(Discipline.CacheType.HDF5, hdf_file_path=os.path.join(tmp, "cache.h5"), hdf_node_path="node", name="the_cache")
    elif cache == "hdf5_tol":
        d.set_cache(Discipline.CacheType.HDF5, tolerance=CACHE_TOL, hdf_file_path=os.path.join(tmp, "cache.h5"), hdf_node_path="node", name="the_cache")
    else:
        raise ValueError(cache)
    for s in getattr(d, "disciplines", None) or ():
        if cache == "none":
            s.set_cache(Discipline.CacheType.NONE)


def _live(ctx, d, T, moment, ns, has_cache):
    """The life of the object before it is serialized (concrete data only).  Returns the oracle-side expectations."""
    from gemseo.core.discipline import Discipline

    cached = {}  # id(point) -> has a Jacobian (the two concrete points are far apart w.r.t. the tolerance)

    def ran(point, lin):
        """Oracle-side bookkeeping of the counters: a SimpleCache serves the repetition of the last input, a full cache any recorded one."""
        hit = has_cache and id(point) in cached
        if not hit:
            exp["n_exec"] += 1
            if has_cache != "full":
                cached.clear()
            cached[id(point)] = False
        if lin and not (hit and cached[id(point)]):
            exp["n_lin"] += 1
            cached[id(point)] = True
        exp["last"] = point

    exp = dict(n_exec=0, n_lin=0, diff_in=[ns.get(k, k) for k in T.diff0[0]], diff_out=list(T.diff0[1]), defaults={k: list(v) for k, v in T.defaults.items()}, last=None,
               mode="auto", approx=False)
    x0, x1 = {ns.get(k, k): v for k, v in T.x0.items()}, {ns.get(k, k): v for k, v in T.x1.items()}
    first_in, first_out = next(iter(T.inputs)), next(iter(T.outputs))
    for step in moment.split("+"):
        if step == "fresh":
            pass
        elif step == "exec":
            d.execute(_conc(x0))
            ran(T.x0, False)
        elif step == "exec2":
            d.execute(_conc(x0))
            ran(T.x0, False)
            d.execute(_conc(x1))
            ran(T.x1, False)
        elif step == "lin":
            d.linearize(_conc(x0), compute_all_jacobians=True)
            ran(T.x0, True)
        elif step == "diff":
            d.add_differentiated_inputs([ns.get(first_in, first_in)])
            d.add_differentiated_outputs([first_out])
            exp["diff_in"] = sorted(set(exp["diff_in"]) | {ns.get(first_in, first_in)})
            exp["diff_out"] = sorted(set(exp["diff_out"]) | {first_out})
        elif step == "difflin":
            d.add_differentiated_inputs([ns.get(first_in, first_in)])
            d.add_differentiated_outputs([first_out])
            exp["diff_in"] = sorted(set(exp["diff_in"]) | {ns.get(first_in, first_in)})
            exp["diff_out"] = sorted(set(exp["diff_out"]) | {first_out})
            d.linearize(_conc(x0))
            ran(T.x0, True)
        elif step == "defaults":
            # new default values: one replaced, the others modified through the mapping interface
            for k in T.defaults:
                new = [1.25 + 0.5 * i for i in range(T.inputs[k])]
                d.io.input_grammar.defaults[ns.get(k, k)] = np.array(new)
                exp["defaults"][k] = new
        elif step == "restrict":
            # an output is dropped from the grammar of a discipline that may already have validated data (cached JSON schema)
            d.io.output_grammar.restrict_to([first_out])
        elif step == "fd":
            d.set_jacobian_approximation(jac_approx_type=Discipline.ApproximationMode.FINITE_DIFFERENCES, jax_approx_step=FD_STEP)
            d.linearization_mode = Discipline.LinearizationMode.FINITE_DIFFERENCES
            exp["mode"], exp["approx"] = "finite_differences", True
        else:
            raise ValueError(step)
    return exp


def _fd_jac(T, v, h):
    """Forward finite differences of the template's value formula (explicit quotient, exact for polynomials)."""
    base = T.value(v)
    out = {o: {} for o in T.outputs}
    for i, si in T.inputs.items():
        cols = []
        for c in range(si):
            pert = {k: list(val) for k, val in v.items()}
            pert[i][c] = pert[i][c] + h
            pv = T.value(pert)
            cols.append({o: [(pv[o][r] - base[o][r]) / h for r in range(T.outputs[o])] for o in T.outputs})
        for o in T.outputs:
            out[o][i] = [[cols[c][o][r] for c in range(si)] for r in range(T.outputs[o])]
    return out


def h_disc(ctx, cfg):
    tmp = tempfile.mkdtemp(prefix="c20_", dir="/tmp")
    try:
        _disc(ctx, cfg, tmp)
    finally:
        shutil.rmtree(tmp, ignore_errors=True)


def _disc(ctx, cfg, tmp):
    T = TEMPLATES[cfg["obj"]]
    cache, moment, grammar = cfg.get("cache", "none"), cfg.get("moment", "fresh"), cfg.get("grammar", "json")
    _install(ctx, grammar)
    if "restrict" in moment.split("+"):
        T = _restricted(T)  # expectations for the outputs kept by the ``restrict`` step (build() is the unrestricted object)

    # ---- the original and its life ---------------------------------------------------------------
    O = T.build()
    _set_cache(O, cache, tmp)
    ns = {}
    if cfg.get("namespace"):
        first_in = next(iter(T.inputs))
        O.add_namespace_to_input(first_in, "ns")
        ns[first_in] = f"ns:{first_in}"
    # the grammar type is the configured one unless the class chooses its own (MDOParallelChain / MDOAdditiveChain: SIMPLER)
    grammar_cls = {"JSON": "JSONGrammar", "SIMPLE": "SimpleGrammar", "SIMPLER": "SimplerGrammar"}[type(O).default_grammar_type.name]
    exp = _live(ctx, O, T, moment, ns, cache != "none")
    before = _disc_facts(O)

    # ---- the round trip (concrete) -----------------------------------------------------------------
    routes = cfg.get("routes") or ROUTES
    k_route = ctx.choice("route", len(routes))
    route = routes[k_route]
    pre = f"{cfg['obj']}/{grammar}/{cache}/{moment}/{route}: "
    R = _round_trip(O, route, tmp)
    if cfg.get("twice"):
        R = _round_trip(R, routes[(k_route + 1) % len(routes)], tmp)  # the restored object is serialized again, by the next route

    # ---- what the restored object exposes -------------------------------------------------------------
    after_o, after_r = _disc_facts(O), _disc_facts(R)
    d0 = _diff_facts(before, after_o)
    ctx.check(pre + f"serializing does not change the original {d0[:3]}", _truth(ctx, not d0))
    d1 = _diff_facts(before, after_r)
    ctx.check(pre + f"restored exposes the same grammars, defaults, settings, cache policy and counters {d1[:3]}", _truth(ctx, not d1))
    # ... and these are the ones the life of the object defines (independent expectations)
    fr = after_r
    in_names = [ns.get(k, k) for k in T.inputs]
    ctx.check(pre + f"restored input names {fr['inp']['names']} == {in_names}", _truth(ctx, sorted(fr["inp"]["names"]) == sorted(in_names)))
    ctx.check(pre + f"restored output names {fr['out']['names']}", _truth(ctx, sorted(fr["out"]["names"]) == sorted(T.outputs)))
    ctx.check(pre + f"restored grammar classes {fr['inp']['cls']}/{fr['out']['cls']}", _truth(ctx, fr["inp"]["cls"] == grammar_cls and fr["out"]["cls"] == grammar_cls))
    ctx.check(pre + f"restored required input names {fr['inp']['required']}", _truth(ctx, fr["inp"]["required"] == sorted(in_names)))
    ctx.check(pre + f"restored required output names {fr['out']['required']}", _truth(ctx, fr["out"]["required"] == sorted(T.outputs)))
    exp_def = {ns.get(k, k): [float(x) for x in v] for k, v in exp["defaults"].items()}
    ctx.check(pre + f"restored default values {fr['inp']['defaults']} == {exp_def}", _truth(ctx, fr["inp"]["defaults"] == exp_def))
    ctx.check(pre + f"restored counters (n_executions, n_linearizations) = {(fr['n_exec'], fr['n_lin'])} == {(exp['n_exec'], exp['n_lin'])}",
              _truth(ctx, (fr["n_exec"], fr["n_lin"]) == (exp["n_exec"], exp["n_lin"])))
    ctx.check(pre + f"restored differentiated inputs/outputs {fr['diff_in']}/{fr['diff_out']}",
              _truth(ctx, fr["diff_in"] == sorted(exp["diff_in"]) and fr["diff_out"] == sorted(exp["diff_out"])))
    ctx.check(pre + f"restored linearization mode {fr['lin_mode']}", _truth(ctx, fr["lin_mode"] == exp["mode"]))
    if exp["approx"]:
        ctx.check(pre + f"restored Jacobian approximation {fr.get('approx')}", _truth(ctx, fr.get("approx") == ("finite_differences", FD_STEP)))
    exp_cache = {"none": (None, None), "simple": ("SimpleCache", 0.0), "simple_tol": ("SimpleCache", CACHE_TOL)}[cache]
    ctx.check(pre + f"restored cache policy {(fr['cache'], fr['cache_tol'])}", _truth(ctx, (fr["cache"], fr["cache_tol"]) == exp_cache))
    if cache != "none":
        ctx.check(pre + f"restored cache holds {fr['cache_len']} entries", _truth(ctx, fr["cache_len"] == (1 if exp["last"] else 0)))
        if exp["last"]:
            ent = R.cache.last_entry
            ok = all(_same_values(ent.inputs.get(ns.get(k, k)), np.array(v)) for k, v in exp["last"].items())
            ok = ok and all(_same_values(ent.outputs.get(o), np.array([float(x) for x in vals])) for o, vals in T.value(exp["last"]).items())
            ctx.check(pre + "restored cache entry = last inputs and outputs of the original", _truth(ctx, ok))
    # distinct objects all the way down
    ctx.check(pre + "restored is a distinct object (io, grammars, defaults, local data, cache, statistics)",
              _truth(ctx, R is not O and R.io is not O.io and R.io.input_grammar is not O.io.input_grammar
                     and R.io.input_grammar.defaults is not O.io.input_grammar.defaults and R.io.data is not O.io.data
                     and (cache == "none" or R.cache is not O.cache) and R.execution_statistics is not O.execution_statistics))

    # ---- behaviour on symbolic inputs ---------------------------------------------------------------
    names = list(T.inputs)
    xs = {k: [ctx.real(f"x_{k}{i}") for i in range(T.inputs[k])] for k in names}
    omit_modes = T.omit_modes if cfg.get("omit", True) else ("none",)
    omit_mode = omit_modes[ctx.choice("omit", len(omit_modes))]
    omitted = {"none": [], "first": names[:1], "all": list(names)}[omit_mode]
    vals = {k: (list(exp["defaults"][k]) if k in omitted else xs[k]) for k in names}

    def data(point, omit=()):
        return {ns.get(k, k): ctx.array(list(point[k])) for k in names if k not in omit}

    # with a tolerance, an input within the tolerance of the cached one is served from the cache (C05: both readings of the reference)
    alt = None
    if cache == "simple_tol" and exp["last"]:
        last = exp["last"]
        near_doc, near_code = [], []
        for k in names:
            if T.inputs[k] != 1:
                raise ValueError("tolerance configurations use size-1 inputs")
            diff = abs(vals[k][0] - last[k][0])
            near_doc.append(ctx.le(diff, CACHE_TOL * (1.0 + abs(last[k][0]))))
            near_code.append(ctx.le(diff, CACHE_TOL * (1.0 + abs(vals[k][0]))))
        alt_cond = ctx.or_(ctx.and_(*near_doc), ctx.and_(*near_code))
        alt = (alt_cond, T.value(last))
        # stay off the boundary of the tolerance test (its float64 evaluation is rounding-sensitive there)
        margin = 2.0 ** -10
        for k in names:
            diff = abs(vals[k][0] - last[k][0])
            for bound in (CACHE_TOL * (1.0 + abs(last[k][0])), CACHE_TOL * (1.0 + abs(vals[k][0]))):
                ctx.assume(ctx.or_(ctx.le(diff, bound - margin), ctx.le(bound + margin, diff)))

    expected = T.value(vals)
    mutate_restored = ctx.flag("mutate_restored")  # which of the two is used / modified in the last part; it also runs second here
    order = ("O", "R") if mutate_restored else ("R", "O")
    objs = {"O": O, "R": R}
    got = {}
    for who in order:
        out = objs[who].execute(data(xs, omitted))
        got[who] = {}
        for o, so in T.outputs.items():
            ctx.observe(f"{who} {o}", np.ravel(out[o]).copy() if o in out else np.zeros(so))
            g = _check_values(ctx, pre + f"{'original' if who == 'O' else 'restored'}.execute(x) output {o}", out.get(o), expected[o], so,
                              alt=None if alt is None else (alt[0], alt[1][o]))
            got[who][o] = g
    for o, so in T.outputs.items():
        a, b = got["O"][o], got["R"][o]
        if a is not None and b is not None:
            for k in range(so):
                ctx.check(pre + f"restored.execute(x) == original.execute(x): {o}[{k}]", ctx.eq(a[k], b[k]))

    # ---- Jacobians at the symbolic point --------------------------------------------------------------
    jac_checked = False
    if T.lin and cfg.get("linearize", True) and alt is None:
        all_blocks = not exp["diff_in"]
        ej = (_fd_jac(T, vals, FD_STEP) if exp["approx"] else T.jac(vals)) if T.jac is not None else None
        O_in = list(T.inputs) if all_blocks else [k for k in T.inputs if ns.get(k, k) in exp["diff_in"]]
        O_out = list(T.outputs) if all_blocks else list(exp["diff_out"])
        jj = {}
        for who in order:
            j = objs[who].linearize(data(xs, omitted), compute_all_jacobians=all_blocks)
            jj[who] = {(o, i): (_dense(j[o][ns.get(i, i)]).copy() if o in j and ns.get(i, i) in j[o] else None) for o in O_out for i in O_in}
            for (o, i), blk in jj[who].items():
                if blk is not None:
                    ctx.observe(f"{who} d{o}/d{i}", np.ravel(blk))
                if ej is not None:
                    _check_block(ctx, pre + f"{'original' if who == 'O' else 'restored'}.linearize(x) d{o}/d{i}", blk, ej[o][i])
        for key in jj["O"]:
            a, b = jj["O"][key], jj["R"][key]
            if a is None or b is None or tuple(np.shape(a)) != tuple(np.shape(b)):
                ctx.check(pre + f"restored.linearize(x) has the block d{key[0]}/d{key[1]} of the original", ctx.false())
            else:
                ctx.check_eq(pre + f"restored.linearize(x) == original.linearize(x): d{key[0]}/d{key[1]}", a, b)
        jac_checked = True

    # ---- no shared mutable state: use / modify ONE of the two, the other one must not notice --------------
    victim, actor = (O, R) if mutate_restored else (R, O)
    vname = "original" if victim is O else "restored"
    snap = _disc_facts(victim)
    held = {o: list(elems(victim.io.data[o])) for o in T.outputs if o in victim.io.data}
    qs = {k: [ctx.real(f"q_{k}{i}") for i in range(T.inputs[k])] for k in names}
    for p in (actor, *(getattr(actor, "disciplines", None) or ())):
        if p.cache is not None:
            p.cache.clear()
    actor.execute(data(qs))
    if jac_checked:
        actor.linearize(data(qs), compute_all_jacobians=True)
    for k in T.defaults:
        arr = actor.io.input_grammar.defaults[ns.get(k, k)]
        if isinstance(arr, np.ndarray) and arr.flags.writeable and not has_sym(arr):
            arr[...] = 7.5                                            # in place, through the array
    for k in T.defaults:
        actor.io.input_grammar.defaults[ns.get(k, k)] = np.full(T.inputs[k], -3.0)  # and by replacement
    actor.io.input_grammar.update_from_names(["extra_input"])
    actor.io.output_grammar.update_from_names(["extra_output"])
    actor.add_differentiated_inputs([ns.get(names[-1], names[-1])])
    actor.execution_statistics.n_executions = 40
    now = _disc_facts(victim)
    dd = _diff_facts(snap, now)
    ctx.check(pre + f"using and modifying the other object leaves the {vname} untouched {dd[:3]}", _truth(ctx, not dd))
    for o, old in held.items():
        cur = elems(victim.io.data[o]) if o in victim.io.data else []
        ctx.check(pre + f"local data {o} of the {vname} untouched", ctx.and_(_truth(ctx, len(cur) == len(old)), *[ctx.eq(a, b) for a, b in zip(cur, old)]))
    # the untouched object still computes with ITS defaults and serves ITS cache
    n_before = victim.execution_statistics.n_executions
    out = victim.execute(data(xs, omitted))
    for o, so in T.outputs.items():
        _check_values(ctx, pre + f"{vname}.execute(x) again, output {o}", out.get(o), expected[o], so, alt=None if alt is None else (alt[0], alt[1][o]))
    if cache in ("simple", "simple_tol"):
        ctx.check(pre + f"the {vname} serves the repeated input from its own cache (no new execution)",
                  _truth(ctx, victim.execution_statistics.n_executions == n_before))
    else:
        ctx.check(pre + f"the counter of the {vname} evolves on its own", _truth(ctx, victim.execution_statistics.n_executions == n_before + 1))


# ------------------------------------------------------------------------------------------------
# file-based cache: stays attached to its file (every value concrete: h5py stores machine floats)
# ------------------------------------------------------------------------------------------------
def h_hdf5(ctx, cfg):
    tmp = tempfile.mkdtemp(prefix="c20_", dir="/tmp")
    try:
        _hdf5(ctx, cfg, tmp)
    finally:
        shutil.rmtree(tmp, ignore_errors=True)


def _hdf5(ctx, cfg, tmp):
    T = TEMPLATES[cfg["obj"]]
    tol, moment = cfg.get("tol", 0.0), cfg["moment"]
    _install(ctx, cfg.get("grammar", "json"))
    O = T.build()
    _set_cache(O, "hdf5_tol" if tol else "hdf5", tmp)
    exp = _live(ctx, O, T, moment, {}, "full")
    before = _disc_facts(O)
    route = ROUTES[ctx.choice("route", len(ROUTES))]
    pre = f"{cfg['obj']}/hdf5(tol={tol})/{moment}/{route}: "
    R = _round_trip(O, route, tmp)
    d1 = _diff_facts(before, _disc_facts(R))
    ctx.check(pre + f"restored exposes the same grammars, defaults, settings, cache policy and counters {d1[:3]}", _truth(ctx, not d1))
    co, cr = O.cache, R.cache
    ok = type(cr).__name__ == "HDF5Cache" and cr is not co
    ctx.check(pre + "restored has its own HDF5Cache object", _truth(ctx, ok))
    if not ok:
        return
    path = os.path.join(tmp, "cache.h5")
    ctx.check(pre + f"restored cache attached to the same file {cr.hdf_file.hdf_file_path}", _truth(ctx, str(cr.hdf_file.hdf_file_path) == path == str(co.hdf_file.hdf_file_path)))
    ctx.check(pre + f"restored cache attached to the same node {cr.hdf_node_path}", _truth(ctx, cr.hdf_node_path == "node"))
    ctx.check(pre + f"restored cache tolerance {cr.tolerance}", _truth(ctx, float(cr.tolerance) == float(tol)))
    ctx.check(pre + f"restored cache name {cr.name}", _truth(ctx, cr.name == co.name == "the_cache"))
    n = 2 if "exec2" in moment else 1
    ctx.check(pre + f"restored cache sees the {n} recorded entries (sees {len(cr)})", _truth(ctx, len(cr) == n == len(co)))
    # the recorded input is served without a new execution, with the recorded outputs
    last = exp["last"]
    n0 = R.execution_statistics.n_executions
    out = R.execute(_conc(last))
    for o, vals in T.value(last).items():
        _check_values(ctx, pre + f"restored.execute(recorded input) output {o}", out.get(o), [float(v) for v in vals], T.outputs[o])
    ctx.check(pre + "recorded input served from the file (no new execution)", _truth(ctx, R.execution_statistics.n_executions == n0))
    if tol:
        # an input within the tolerance of the recorded one is served too (relative distance 1/16 < 1/4)
        near = {k: [v * (1.0 + 1.0 / 16.0) for v in vals] for k, vals in last.items()}
        R.execute(_conc(near))
        ctx.check(pre + "input within the tolerance served from the file (no new execution)", _truth(ctx, R.execution_statistics.n_executions == n0))
    if "lin" in moment and T.jac is not None:
        l0 = R.execution_statistics.n_linearizations
        j = R.linearize(_conc(last), compute_all_jacobians=True)
        ej = T.jac(last)
        for o in T.outputs:
            for i in T.inputs:
                _check_block(ctx, pre + f"restored.linearize(recorded input) d{o}/d{i}", j.get(o, {}).get(i), ej[o][i])
        ctx.check(pre + "recorded Jacobian served from the file (no new linearization)", _truth(ctx, R.execution_statistics.n_linearizations == l0))
    # a new input executed by the restored object is recorded in the file (seen by a cache opened afresh on the same file and node)
    x2 = {k: [v + 3.0 for v in vals] for k, vals in T.x1.items()}
    out = R.execute(_conc(x2))
    for o, vals in T.value(x2).items():
        _check_values(ctx, pre + f"restored.execute(new input) output {o}", out.get(o), [float(v) for v in vals], T.outputs[o])
    ctx.check(pre + "new input executed once by the restored object", _truth(ctx, R.execution_statistics.n_executions == n0 + 1))
    from gemseo.caches.hdf5_cache import HDF5Cache

    fresh = HDF5Cache(hdf_file_path=path, hdf_node_path="node")
    ctx.check(pre + f"the restored object records into the file of the original ({len(fresh)} entries in the file)", _truth(ctx, len(fresh) == n + 1 == len(cr)))
    # the original still serves what it recorded, and the counters are independent
    m0 = O.execution_statistics.n_executions
    out = O.execute(_conc(last))
    for o, vals in T.value(last).items():
        _check_values(ctx, pre + f"original.execute(recorded input) output {o}", out.get(o), [float(v) for v in vals], T.outputs[o])
    ctx.check(pre + "counters stay independent", _truth(ctx, O.execution_statistics.n_executions == m0 == exp["n_exec"] and R.execution_statistics.n_executions == exp["n_exec"] + 1))


# ------------------------------------------------------------------------------------------------
# grammars on their own (classes and user subclasses), at solver-chosen moments of their life
# ------------------------------------------------------------------------------------------------
def _grammar_class(kind):
    """JSONGrammar / SimpleGrammar or a user subclass of them (module-level, hence picklable by reference)."""
    from gemseo.core.grammars.json_grammar import JSONGrammar
    from gemseo.core.grammars.simple_grammar import SimpleGrammar

    base = {"json": JSONGrammar, "simple": SimpleGrammar}[kind.split("_")[0]]
    if not kind.endswith("_sub"):
        return base
    name = f"Sub{base.__name__}"
    if name not in globals() or globals()[name].__mro__[1] is not base:
        cls = type(name, (base,), {"__module__": __name__, "__qualname__": name, "__doc__": "A user subclass without any change."})
        globals()[name] = cls
    return globals()[name]


GRAMMAR_EDITS = ("none", "restrict", "delete", "rename", "optional", "default", "add", "namespace")


def h_grammar(ctx, cfg):
    tmp = tempfile.mkdtemp(prefix="c20_", dir="/tmp")
    try:
        _grammar(ctx, cfg, tmp)
    finally:
        shutil.rmtree(tmp, ignore_errors=True)


def _grammar(ctx, cfg, tmp):
    """A grammar (not attached to a discipline) serialized after validate? -> edit -> validate?: the restored one exposes the same
    elements, required names, defaults and namespaces, accepts / rejects the same data, and shares no state with the original."""
    from gemseo.core.grammars.errors import InvalidDataError

    cls = _grammar_class(cfg["cls"])
    g = cls("g")
    g.update_from_types({"a": float, "b": int, "c": str})
    g.defaults["b"] = 3
    names, required, defaults = ["a", "b", "c"], {"a", "b", "c"}, {"b": 3}
    good = {"a": 1.5, "b": 2, "c": "s", "d": 0.5}

    def observe(tag):
        for present in (("a", "b", "c"), ("a", "c"), ("b", "c")):
            data = {k: good[k] for k in present if k in good}
            try:
                g.validate(data)
            except InvalidDataError:
                pass

    if ctx.flag("validated_before_edit"):  # (a JSON grammar caches its schema and validator at the first validation)
        observe("before")
    edit = GRAMMAR_EDITS[ctx.choice("edit", len(GRAMMAR_EDITS))]
    if edit == "restrict":
        g.restrict_to(["a", "b"]); names = ["a", "b"]; required -= {"c"}
    elif edit == "delete":
        del g["b"]; names = ["a", "c"]; required -= {"b"}; defaults = {}
    elif edit == "rename":
        g.rename_element("a", "d"); names = ["d", "b", "c"]; required = {"d", "b", "c"}
    elif edit == "optional":
        g.required_names.discard("c"); required -= {"c"}
    elif edit == "default":
        g.defaults["a"] = 0.25; defaults = {"b": 3, "a": 0.25}
    elif edit == "add":
        g.update_from_types({"d": float}); names = ["a", "b", "c", "d"]; required |= {"d"}
    elif edit == "namespace":
        g.add_namespace("a", "ns"); names = ["ns:a", "b", "c"]; required = {"ns:a", "b", "c"}
    if ctx.flag("validated_after_edit"):
        observe("after")
    route = ROUTES[ctx.choice("route", len(ROUTES))]
    pre = f"grammar/{cfg['cls']}/{edit}/{route}: "
    before = _grammar_facts(g)
    r = _round_trip(g, route, tmp)
    ctx.check(pre + f"restored is an instance of the same class ({type(r).__name__})", _truth(ctx, type(r) is cls and r is not g))
    fo, fr = _grammar_facts(g), _grammar_facts(r)
    ctx.check(pre + f"serializing does not change the original {_diff_facts(before, fo)[:3]}", _truth(ctx, not _diff_facts(before, fo)))
    ctx.check(pre + f"restored exposes the same elements, required names, defaults and namespaces {_diff_facts(fo, fr)[:3]}", _truth(ctx, not _diff_facts(fo, fr)))
    # ... and these are the ones the life of the grammar defines (independent expectations; the order of the elements is not asserted)
    ctx.check(pre + f"restored names {fr['names']} == {sorted(names)}", _truth(ctx, sorted(fr["names"]) == sorted(names)))
    ctx.check(pre + f"restored required names {fr['required']} == {sorted(required)}", _truth(ctx, fr["required"] == sorted(required)))
    ctx.check(pre + f"restored defaults {sorted(fr['defaults'])} == {sorted(defaults)}", _truth(ctx, sorted(fr["defaults"]) == sorted({("ns:a" if (k == "a" and edit == "namespace") else k) for k in defaults})))
    # same verdicts on the same data (required names missing, a wrong type, an unknown extra name)
    key = {"a": "ns:a" if edit == "namespace" else ("d" if edit == "rename" else "a")}
    cases = [dict(good), {k: v for k, v in good.items() if k != "c"}, {k: v for k, v in good.items() if k != "a"}, dict(good, b="x"), dict(good, c=1.5)]
    for i, data in enumerate(cases):
        data = {key.get(k, k): v for k, v in data.items() if key.get(k, k) in names or k == "d"}
        verdicts = []
        for who in (g, r):
            try:
                who.validate(dict(data))
                verdicts.append(True)
            except InvalidDataError:
                verdicts.append(False)
        ctx.check(pre + f"case {i}: restored.validate agrees with original.validate ({verdicts})", _truth(ctx, verdicts[0] == verdicts[1]))
    # no shared state: an element added to one is not seen by the other
    target, other = (r, g) if ctx.flag("mutate_restored") else (g, r)
    target.update_from_types({"zz": float})
    target.defaults["zz"] = 1.0
    ctx.check(pre + "original and restored share no state", _truth(ctx, "zz" not in other and "zz" not in other.defaults and "zz" not in other.required_names))


def h_memory_full(ctx, cfg):
    """A discipline with a MemoryFullCache: the round trip must work; an unshared cache is carried over by value."""
    from gemseo.core.discipline import Discipline

    tmp = tempfile.mkdtemp(prefix="c20_", dir="/tmp")
    try:
        T = TEMPLATES[cfg["obj"]]
        shared = cfg["shared"]
        _install(ctx, "json")
        O = T.build()
        O.set_cache(Discipline.CacheType.MEMORY_FULL, is_memory_shared=shared)
        O.execute(_conc(T.x0))
        O.execute(_conc(T.x1))
        before = _disc_facts(O)
        route = ROUTES[ctx.choice("route", len(ROUTES))]
        pre = f"{cfg['obj']}/MemoryFullCache(is_memory_shared={shared})/{route}: "
        try:
            R = _round_trip(O, route, tmp)
        except (RuntimeError, TypeError, pickle.PicklingError, AttributeError) as e:
            ctx.check(pre + f"a discipline with a MemoryFullCache can be serialized ({type(e).__name__}: {str(e)[:80]})", ctx.false())
            return
        d1 = _diff_facts(before, _disc_facts(R))
        ctx.check(pre + f"restored exposes the same grammars, defaults, settings, cache policy and counters {d1[:3]}", _truth(ctx, not d1))
        n0 = R.execution_statistics.n_executions
        out = R.execute(_conc(T.x0))
        for o, vals in T.value(T.x0).items():
            _check_values(ctx, pre + f"restored.execute(recorded input) output {o}", out.get(o), [float(v) for v in vals], T.outputs[o])
        ctx.check(pre + "recorded input served from the restored cache (no new execution)", _truth(ctx, R.execution_statistics.n_executions == n0))
        if shared:
            # (the multiprocessing manager pickles every entry: concrete inputs only; whether a restored SHARED cache should still
            # share its content with the original is not stated by the property: not asserted)
            xs = {k: [v + 3.0 for v in vals] for k, vals in T.x1.items()}
        else:
            from harness.common import install_hash_stub

            install_hash_stub(ctx)
            xs = {k: [ctx.real(f"x_{k}{i}") for i in range(T.inputs[k])] for k in T.inputs}
        out = R.execute(_conc(xs) if shared else {k: ctx.array(v) for k, v in xs.items()})
        for o, vals in T.value(xs).items():
            _check_values(ctx, pre + f"restored.execute(x) output {o}", out.get(o), vals, T.outputs[o])
        if not shared:
            R.cache.clear()
            ctx.check(pre + "clearing the restored unshared cache leaves the original cache untouched", _truth(ctx, len(O.cache) == 2))
    finally:
        shutil.rmtree(tmp, ignore_errors=True)


# ------------------------------------------------------------------------------------------------
# MDAs on a linear system with dyadic contraction coefficients: y0 = y1/2 + x0, y1 = -y0/4 + x1, t = y0 + 2 y1 + x0
# ------------------------------------------------------------------------------------------------
def _mda_disciplines():
    from gemseo.disciplines.analytic import AnalyticDiscipline

    return [AnalyticDiscipline({"y0": "y1/2+x0"}, name="D0"), AnalyticDiscipline({"y1": "-y0/4+x1"}, name="D1"),
            AnalyticDiscipline({"t": "y0+2*y1+x0"}, name="D2")]


def _build_mda(kind):
    from gemseo.mda.gauss_seidel import MDAGaussSeidel
    from gemseo.mda.jacobi import MDAJacobi
    from gemseo.mda.mda_chain import MDAChain
    from gemseo.mda.sequential_mda import MDASequential

    d = _mda_disciplines()
    if kind == "gs":
        return MDAGaussSeidel(d, max_mda_iter=3, tolerance=1e-6, log_convergence=False)
    if kind == "gs_relax":
        return MDAGaussSeidel(d, max_mda_iter=4, tolerance=1e-4, over_relaxation_factor=0.5, log_convergence=False)
    if kind == "jacobi":
        return MDAJacobi(d, max_mda_iter=3, tolerance=1e-6, n_processes=1, log_convergence=False)
    if kind == "chain":
        return MDAChain(d, max_mda_iter=3, tolerance=1e-6, inner_mda_name="MDAGaussSeidel", log_convergence=False)
    if kind == "chain_jacobi":
        return MDAChain(d, max_mda_iter=3, tolerance=1e-6, inner_mda_name="MDAJacobi", inner_mda_settings=dict(n_processes=1), log_convergence=False)
    if kind == "sequential":
        return MDASequential(d, [MDAJacobi(d, max_mda_iter=2, n_processes=1, log_convergence=False), MDAGaussSeidel(d, max_mda_iter=3, log_convergence=False)],
                             max_mda_iter=3, tolerance=1e-6, log_convergence=False)
    raise ValueError(kind)


def _mda_solution(x0, x1):
    y0 = (8.0 * x0 + 4.0 * x1) / 9
    y1 = x1 - y0 / 4
    return {"y0": y0, "y1": y1, "t": y0 + 2.0 * y1 + x0}


_MDA_JAC = {"y0": {"x0": 8.0 / 9.0, "x1": 4.0 / 9.0}, "y1": {"x0": -2.0 / 9.0, "x1": 8.0 / 9.0}, "t": {"x0": 13.0 / 9.0, "x1": 20.0 / 9.0}}


def _mda_facts(m):
    f = _disc_facts(m)
    f["settings"] = {k: (v if isinstance(v, (int, float, str, bool, type(None))) else repr(v)) for k, v in m.settings.model_dump().items()}
    f["residual_history"] = [repr(v) if _is_sym(_py(v)) else float(v) for v in m.residual_history]
    f["scaling"] = str(m.scaling)
    f["couplings"] = (sorted(m.coupling_structure.strong_couplings), sorted(m.coupling_structure.all_couplings))
    inner = getattr(m, "inner_mdas", None) or getattr(m, "mda_sequence", None) or ()
    f["inner"] = [_mda_facts(i) for i in inner]
    return f


def h_mda(ctx, cfg):
    tmp = tempfile.mkdtemp(prefix="c20_", dir="/tmp")
    try:
        _mda(ctx, cfg, tmp)
    finally:
        shutil.rmtree(tmp, ignore_errors=True)


def _mda(ctx, cfg, tmp):
    _install(ctx, cfg.get("grammar", "json"))
    if ctx.symbolic:
        import gemseo.mda.base_mda_solver as bms
        from symgem.core import SymReal

        ctx.patch(bms, "float", lambda v: v if isinstance(v, SymReal) else float(v))
    kind, moment = cfg["mda"], cfg["moment"]
    O = _build_mda(kind)
    c0 = {"x0": np.array([1.0]), "x1": np.array([2.0])}
    n_exec = n_lin = 0
    for step in moment.split("+"):
        if step == "exec":
            O.execute(dict(c0))
            n_exec += 1
        elif step == "lin":
            O.add_differentiated_inputs(["x0", "x1"])
            O.add_differentiated_outputs(["y0", "y1", "t"])
            O.linearize(dict(c0))
            n_exec += 0 if (n_exec and O.cache is not None) else 1  # (the default SimpleCache serves the repeated input)
            n_lin += 1
        elif step == "cache_none":
            from gemseo.core.discipline import Discipline

            O.set_cache(Discipline.CacheType.NONE)
    before = _mda_facts(O)
    routes = cfg.get("routes") or ROUTES
    route = routes[ctx.choice("route", len(routes))]
    pre = f"{kind}/{moment}/{route}: "
    R = _round_trip(O, route, tmp)
    d0 = _diff_facts(before, _mda_facts(O))
    ctx.check(pre + f"serializing does not change the original {d0[:3]}", _truth(ctx, not d0))
    d1 = _diff_facts(before, _mda_facts(R))
    ctx.check(pre + f"restored MDA exposes the same grammars, defaults, settings, histories and counters {d1[:3]}", _truth(ctx, not d1))
    ctx.check(pre + f"restored counters {(R.execution_statistics.n_executions, R.execution_statistics.n_linearizations)} == {(n_exec, n_lin)}",
              _truth(ctx, (R.execution_statistics.n_executions, R.execution_statistics.n_linearizations) == (n_exec, n_lin)))
    ctx.check(pre + "restored MDA is made of distinct objects", _truth(ctx, R is not O and all(a is not b for a, b in zip(R.disciplines, O.disciplines))
                                                                       and R.coupling_structure is not O.coupling_structure and R.settings is not O.settings))

    # both started at a symbolic exact solution: they return it at once, whatever they did before
    x0, x1 = ctx.real("x0"), ctx.real("x1")
    sol = _mda_solution(x0, x1)
    mutate_restored = ctx.flag("mutate_restored")
    objs = {"O": O, "R": R}
    order = ("O", "R") if mutate_restored else ("R", "O")
    got = {}
    for who in order:
        out = objs[who].execute({"x0": ctx.array([x0]), "x1": ctx.array([x1]), "y0": ctx.array([sol["y0"]]), "y1": ctx.array([sol["y1"]])})
        got[who] = {}
        for o in ("y0", "y1", "t"):
            ctx.observe(f"{who} {o}", np.ravel(out[o]).copy())
            got[who][o] = _check_values(ctx, pre + f"{'original' if who == 'O' else 'restored'}.execute(x) started at the solution: {o}", out.get(o), [sol[o]], 1)
    for o in ("y0", "y1", "t"):
        if got["O"][o] is not None and got["R"][o] is not None:
            ctx.check(pre + f"restored.execute(x) == original.execute(x): {o}", ctx.eq(got["O"][o][0], got["R"][o][0]))
    ctx.check(pre + f"residual histories grow alike ({len(O.residual_history)}, {len(R.residual_history)})", _truth(ctx, len(O.residual_history) == len(R.residual_history)))

    # total derivatives (constant for a linear system) at a concrete point: same blocks, equal to the exact ones
    victim, actor = (O, R) if mutate_restored else (R, O)
    vname = "original" if victim is O else "restored"
    c1 = {"x0": np.array([-0.5]), "x1": np.array([1.5])}
    snap = _mda_facts(victim)
    held = {o: list(elems(victim.io.data[o])) for o in ("y0", "y1", "t")}
    ja = actor.linearize(dict(c1), compute_all_jacobians=True)
    for o, row in _MDA_JAC.items():
        for i, v in row.items():
            blk = _dense(ja.get(o, {}).get(i)) if ja.get(o, {}).get(i) is not None else None
            ok = blk is not None and tuple(np.shape(blk)) == (1, 1) and abs(float(np.ravel(blk)[0]) - v) <= 1e-9
            ctx.check(pre + f"{'restored' if actor is R else 'original'}.linearize: d{o}/d{i} = {None if blk is None else np.ravel(blk)} ~ {v}", _truth(ctx, ok))
    actor.io.input_grammar.defaults["x0"] = np.array([9.0])
    actor.settings.max_mda_iter = 7
    actor.execution_statistics.n_executions = 40
    dd = _diff_facts(snap, _mda_facts(victim))
    ctx.check(pre + f"using and modifying the other MDA leaves the {vname} untouched {dd[:3]}", _truth(ctx, not dd))
    for o, old in held.items():
        cur = elems(victim.io.data[o])
        ctx.check(pre + f"local data {o} of the {vname} untouched", ctx.and_(*[ctx.eq(a, b) for a, b in zip(cur, old)]))
    jv = victim.linearize(dict(c1), compute_all_jacobians=True)
    for o, row in _MDA_JAC.items():
        for i, v in row.items():
            a, b = ja.get(o, {}).get(i), jv.get(o, {}).get(i)
            ctx.check(pre + f"restored.linearize == original.linearize: d{o}/d{i}", _truth(ctx, a is not None and b is not None and _same_values(a, b)))


# ------------------------------------------------------------------------------------------------
# functions
# ------------------------------------------------------------------------------------------------
_LIN_A = [[1.0, -2.0, 0.5], [0.0, 3.0, -1.0]]
_LIN_B = [0.25, -1.0]
_QUAD = [[1.0, 0.5, 0.0], [0.5, 2.0, 0.0], [0.0, 0.0, 0.0]]
_QUAD_L = [1.0, 0.0, -1.0]


def _f_mdo():
    from gemseo.core.mdo_functions.mdo_function import MDOFunction

    return MDOFunction(fn_f, "f", jac=fn_df, input_names=["a0", "a1", "b"], dim=1, expr="a0*a1+b", f_type="obj", output_names=["f"])


def _f_lin1():
    from gemseo.core.mdo_functions.mdo_linear_function import MDOLinearFunction

    return MDOLinearFunction(np.array(_LIN_A[0]), "g1", input_names=["a0", "a1", "b"], value_at_zero=_LIN_B[0], f_type="ineq")


def _f_lin2():
    from gemseo.core.mdo_functions.mdo_linear_function import MDOLinearFunction

    return MDOLinearFunction(np.array(_LIN_A), "g", input_names=["a0", "a1", "b"], value_at_zero=np.array(_LIN_B), f_type="ineq")


def _f_quad():
    from gemseo.core.mdo_functions.mdo_quadratic_function import MDOQuadraticFunction

    return MDOQuadraticFunction(np.array(_QUAD), "q", input_names=["a0", "a1", "b"], linear_coeffs=np.array(_QUAD_L), value_at_zero=1.0)


def _v_f(x):
    return [x[0] * x[1] + x[2]]


def _j_f(x):
    return [[x[1], x[0], 1.0]]


def _v_lin(x, rows=(0, 1)):
    return [_LIN_B[r] + sum(_LIN_A[r][c] * x[c] for c in range(3)) for r in rows]


def _v_quad(x):
    return [1.0 + sum(_QUAD_L[c] * x[c] for c in range(3)) + sum(_QUAD[r][c] * x[r] * x[c] for r in range(3) for c in range(3))]


def _j_quad(x):
    return [[_QUAD_L[c] + sum((_QUAD[r][c] + _QUAD[c][r]) * x[r] for r in range(3)) for c in range(3)]]


def _build_adapter():
    from gemseo.core.mdo_functions.discipline_adapter_generator import DisciplineAdapterGenerator

    return DisciplineAdapterGenerator(_A1()).get_function(["x", "z"], ["y", "w"])


FUNCS = {
    # name: (builder, n inputs, value(x) -> list, jac(x) -> rows)
    "mdo": (_f_mdo, 3, _v_f, _j_f),
    "linear": (_f_lin2, 3, _v_lin, lambda x: [list(r) for r in _LIN_A]),
    "quadratic": (_f_quad, 3, _v_quad, _j_quad),
    "algebra": (lambda: _f_mdo() * 2.0 + _f_lin1() - _f_quad(), 3,
                lambda x: [2.0 * _v_f(x)[0] + _v_lin(x, (0,))[0] - _v_quad(x)[0]],
                lambda x: [[2.0 * _j_f(x)[0][c] + _LIN_A[0][c] - _j_quad(x)[0][c] for c in range(3)]]),
    "neg_offset": (lambda: (-_f_mdo()).offset(1.5), 3, lambda x: [1.5 - _v_f(x)[0]], lambda x: [[-v for v in _j_f(x)[0]]]),
    "product": (lambda: _f_mdo() * _f_lin1(), 3, lambda x: [_v_f(x)[0] * _v_lin(x, (0,))[0]],
                lambda x: [[_j_f(x)[0][c] * _v_lin(x, (0,))[0] + _v_f(x)[0] * _LIN_A[0][c] for c in range(3)]]),
    "adapter": (_build_adapter, 2, lambda x: [2.0 * x[0] + 3.0 * x[1] * x[0], x[0] * x[0] - x[1]],
                lambda x: [[2.0 + 3.0 * x[1], 3.0 * x[0]], [2.0 * x[0], -1.0]]),
}


def _func_facts(f):
    return dict(cls=type(f).__name__, name=f.name, f_type=str(f.f_type), expr=str(f.expr), input_names=list(f.input_names), dim=f.dim,
                output_names=list(f.output_names), has_jac=bool(f.has_jac), special_repr=str(f.special_repr), repr=repr(f))


def _install_func_stubs(ctx):
    if not ctx.symbolic:
        return
    import gemseo.core.mdo_functions.discipline_adapter as da
    import gemseo.core.discipline.discipline as dmod

    ctx.patch(da, "empty", _zeros_obj)
    ctx.patch(dmod, "csr_array", _zeros_obj)


def h_func(ctx, cfg):
    tmp = tempfile.mkdtemp(prefix="c20_", dir="/tmp")
    try:
        _install(ctx, "json")
        _install_func_stubs(ctx)
        build, n, value, jac = FUNCS[cfg["func"]]
        O = build()
        c0 = np.array([0.5, 2.0, 1.0][:n])
        if cfg.get("used"):
            O.evaluate(c0)
            O.jac(c0)
        before = _func_facts(O)
        route = ROUTES[ctx.choice("route", len(ROUTES))]
        pre = f"{cfg['func']}/{'used' if cfg.get('used') else 'fresh'}/{route}: "
        R = _round_trip(O, route, tmp)
        d1 = _diff_facts(before, _func_facts(R))
        ctx.check(pre + f"restored function exposes the same name, type, expression, input/output names, dimension {d1[:3]}", _truth(ctx, not d1 and R is not O))
        if cfg.get("used"):
            ctx.check(pre + "last evaluation carried over", _truth(ctx, _same_values(np.atleast_1d(R.last_eval), np.atleast_1d(O.last_eval))))
        xs = [ctx.real(f"x{i}") for i in range(n)]
        ev, ej = value(xs), jac(xs)
        first = ctx.flag("restored_first")
        for who, f in ((("R", R), ("O", O)) if first else (("O", O), ("R", R))):
            nm = "original" if who == "O" else "restored"
            v = f.evaluate(ctx.array(list(xs)))
            ctx.observe(f"{who} value", np.ravel(v))
            _check_values(ctx, pre + f"{nm}.evaluate(x)", np.atleast_1d(v), ev, len(ev))
            j = f.jac(ctx.array(list(xs)))
            ctx.observe(f"{who} jac", np.ravel(j))
            _check_block(ctx, pre + f"{nm}.jac(x)", np.atleast_2d(j), ej)
    finally:
        shutil.rmtree(tmp, ignore_errors=True)


# ------------------------------------------------------------------------------------------------
# design spaces
# ------------------------------------------------------------------------------------------------
def _build_space():
    from gemseo.algos.design_space import DesignSpace

    ds = DesignSpace(name="space")
    ds.add_variable("a", size=2, lower_bound=np.array([-1.0, 0.0]), upper_bound=np.array([3.0, 0.5]), value=np.array([0.5, 0.25]))
    ds.add_variable("b", size=1, lower_bound=0.0, value=2.0)
    ds.add_variable("i", size=1, type_="integer", lower_bound=0, upper_bound=4, value=2)
    ds.add_variable("c", size=1, lower_bound=2.0, upper_bound=2.0)
    return ds


_SPACE_LB = [-1.0, 0.0, 0.0, 0.0, 2.0]
_SPACE_UB = [3.0, 0.5, float("inf"), 4.0, 2.0]  # (finite widths are powers of two: 1/width is exact in float64)


def _space_facts(ds):
    def lst(a):
        return None if a is None else [float(v) for v in np.ravel(a)]

    return dict(cls=type(ds).__name__, name=ds.name, names=list(ds.variable_names), sizes=dict(ds.variable_sizes),
                types={k: [str(t) for t in np.ravel(v)] if not isinstance(v, str) else str(v) for k, v in ds.variable_types.items()},
                lb={k: lst(ds.get_lower_bound(k)) for k in ds.variable_names}, ub={k: lst(ds.get_upper_bound(k)) for k in ds.variable_names},
                value={k: lst(v) for k, v in ds.get_current_value(as_dict=True, complex_to_real=True).items()} if ds.has_current_value or True else None,
                int_norm=bool(ds.enable_integer_variables_normalization), dim=ds.dimension)


def h_space(ctx, cfg):
    tmp = tempfile.mkdtemp(prefix="c20_", dir="/tmp")
    try:
        O = _build_space()
        if cfg.get("used"):
            # (the normalization data are computed lazily and kept: serialize after they exist)
            O.normalize_vect(np.array([1.0, 0.25, 2.0, 3.0, 2.0]))
            O.set_current_value(np.array([1.0, 0.25, 3.0, 3.0, 2.0]))
        if cfg.get("int_norm"):
            O.enable_integer_variables_normalization = True
        before = _space_facts(O)
        route = ROUTES[ctx.choice("route", len(ROUTES))]
        pre = f"space/{'used' if cfg.get('used') else 'fresh'}{'/int_norm' if cfg.get('int_norm') else ''}/{route}: "
        R = _round_trip(O, route, tmp)
        d1 = _diff_facts(before, _space_facts(R))
        ctx.check(pre + f"restored design space has the same variables, types, bounds and current value {d1[:3]}", _truth(ctx, not d1 and R is not O))
        ctx.check(pre + "restored == original and original == restored", _truth(ctx, bool(R == O) and bool(O == R)))
        # normalization of a symbolic point: explicit affine map on the bounded float components
        from harness.common import rint

        xs = [ctx.real(f"x{i}") for i in range(5)]
        us = [ctx.real(f"u{i}") for i in range(5)]
        exp_n, exp_u = [], []
        for j in range(5):
            bounded = np.isfinite(_SPACE_UB[j]) and (j != 3 or cfg.get("int_norm"))
            w = _SPACE_UB[j] - _SPACE_LB[j] if bounded else None
            if bounded:
                ctx.assume(ctx.and_(ctx.le(0.0, us[j]), ctx.le(us[j], 1.0)))  # documented precondition of unnormalize_vect
            exp_n.append(xs[j] if not bounded else ((xs[j] - _SPACE_LB[j]) / w if w else xs[j] - _SPACE_LB[j]))
            e = us[j] if not bounded else _SPACE_LB[j] + us[j] * w
            exp_u.append(rint(ctx, e) if j == 3 else e)  # (the integer variable is rounded to the nearest integer)
        victim, actor = (O, R) if ctx.flag("mutate_restored") else (R, O)
        for nm, ds in (("original", O), ("restored", R)):
            got = ds.normalize_vect(ctx.array(list(xs)))
            ctx.observe(f"{nm} normalized", np.ravel(got))
            _check_values(ctx, pre + f"{nm}.normalize_vect(x)", got, exp_n, 5)
            got = ds.unnormalize_vect(ctx.array(list(us)))
            ctx.observe(f"{nm} unnormalized", np.ravel(got))
            _check_values(ctx, pre + f"{nm}.unnormalize_vect(u)", got, exp_u, 5)
        # no shared state
        vname = "original" if victim is O else "restored"
        snap = _space_facts(victim)
        actor.set_current_value(np.array([0.0, 0.0, 1.0, 1.0, 2.0]))
        actor.set_lower_bound("a", np.array([-2.0, -2.0]))
        actor.set_upper_bound("b", np.array([10.0]))
        actor.remove_variable("c")
        actor.add_variable("extra", lower_bound=0.0, upper_bound=1.0)
        dd = _diff_facts(snap, _space_facts(victim))
        ctx.check(pre + f"modifying the other design space leaves the {vname} untouched {dd[:3]}", _truth(ctx, not dd))
        got = victim.normalize_vect(ctx.array(list(xs)))
        _check_values(ctx, pre + f"{vname}.normalize_vect(x) after the other one was modified", got, exp_n, 5)
    finally:
        shutil.rmtree(tmp, ignore_errors=True)


# ------------------------------------------------------------------------------------------------
# optimization problems
# ------------------------------------------------------------------------------------------------
_P_LB, _P_UB = [-1.0, -1.0, 0.0], [3.0, 3.0, 4.0]


def _build_problem():
    from gemseo.algos.design_space import DesignSpace
    from gemseo.algos.optimization_problem import OptimizationProblem

    ds = DesignSpace()
    ds.add_variable("a", size=2, lower_bound=-1.0, upper_bound=3.0, value=np.array([0.5, 1.0]))
    ds.add_variable("b", size=1, lower_bound=0.0, upper_bound=4.0, value=2.0)
    p = OptimizationProblem(ds)
    p.objective = _f_mdo()
    p.add_constraint(_f_lin2(), value=1.0, constraint_type="ineq")
    p.add_observable(_f_quad())
    return p


def _problem_facts(p):
    from harness.common import db_items

    fs = {}
    for f in p.functions:
        fs[f.name] = dict(_func_facts(f), n_calls=getattr(f, "n_calls", None))
    db = []
    for key, outs in db_items(p.database):
        db.append(dict(x=[repr(v) if _is_sym(v) else float(v) for v in elems(key)],
                       out={k: [repr(w) if _is_sym(w) else float(w) for w in elems(np.atleast_1d(v))] for k, v in outs.items()}))
    return dict(cls=type(p).__name__, space=_pspace_facts(p.design_space), functions=fs, objective=p.objective.name, minimize=bool(p.minimize_objective),
                constraints=[c.name for c in p.constraints], observables=[o.name for o in p.observables], database=db,
                counter=(p.evaluation_counter.current, p.evaluation_counter.maximum), preprocessed=bool(p._functions_are_preprocessed),
                diff=str(p.differentiation_method), tol=(float(p.tolerances.equality), float(p.tolerances.inequality)))


def _pspace_facts(ds):
    return dict(names=list(ds.variable_names), lb=[float(v) for v in ds.get_lower_bounds()], ub=[float(v) for v in ds.get_upper_bounds()],
                value=[float(v) for v in ds.get_current_value()] if ds.has_current_value else None)


def h_problem(ctx, cfg):
    from harness.common import install_hash_stub, install_np_array_stub

    tmp = tempfile.mkdtemp(prefix="c20_", dir="/tmp")
    try:
        install_hash_stub(ctx)
        install_np_array_stub(ctx)
        moment = cfg["moment"]
        O = _build_problem()
        n_calls = 0
        if moment in ("preprocessed", "evaluated"):
            O.preprocess_functions(is_function_input_normalized=cfg.get("normalized", True))
            O.evaluation_counter.maximum = 10
        if moment == "evaluated":
            pt = np.array([0.5, 0.25, 0.75]) if cfg.get("normalized", True) else np.array([1.0, 0.0, 3.0])
            O.objective.evaluate(pt)
            O.constraints[0].evaluate(pt)
            O.objective.jac(pt)
            n_calls = 1
        before = _problem_facts(O)
        route = ROUTES[ctx.choice("route", len(ROUTES))]
        pre = f"problem/{moment}/{'normalized' if cfg.get('normalized', True) else 'physical'}/{route}: "
        R = _round_trip(O, route, tmp)
        d0 = _diff_facts(before, _problem_facts(O))
        ctx.check(pre + f"serializing does not change the original {d0[:3]}", _truth(ctx, not d0))
        d1 = _diff_facts(before, _problem_facts(R))
        ctx.check(pre + f"restored problem: same design space, functions, database content, counters and settings {d1[:3]}", _truth(ctx, not d1 and R is not O))
        ctx.check(pre + "restored design space == original design space", _truth(ctx, bool(R.design_space == O.design_space)))
        if moment != "fresh":
            ctx.check(pre + f"restored objective counter {R.objective.n_calls} == {n_calls}", _truth(ctx, R.objective.n_calls == n_calls))
            ctx.check(pre + f"restored database holds {len(R.database)} entries", _truth(ctx, len(R.database) == n_calls and R.database is not O.database))
        calls = {"O": n_calls, "R": n_calls}
        if moment == "evaluated":
            # the recorded point is served from the restored database: no new call of the restored objective, nothing for the original
            v = R.objective.evaluate(pt.copy())
            calls["R"] += 1  # (the counter counts the requests, served from the database or not)
            ok = abs(float(v) - float(O.objective.last_eval)) <= 1e-12 and R.objective.n_calls == n_calls + 1 and O.objective.n_calls == n_calls
            ok = ok and len(R.database) == n_calls == len(O.database)
            ctx.check(pre + f"recorded point served from the restored database (no new entry; counters {R.objective.n_calls}, {O.objective.n_calls})", _truth(ctx, ok))
        if moment == "fresh":
            for p in (O, R):
                p.preprocess_functions(is_function_input_normalized=cfg.get("normalized", True))
        normalized = cfg.get("normalized", True)
        xs = [ctx.real(f"x{i}") for i in range(3)]
        if normalized:
            for v in xs:
                ctx.assume(ctx.and_(ctx.le(0.0, v), ctx.le(v, 1.0)))
        else:
            for j, v in enumerate(xs):
                ctx.assume(ctx.and_(ctx.le(_P_LB[j], v), ctx.le(v, _P_UB[j])))
        phys = [(_P_LB[j] + xs[j] * (_P_UB[j] - _P_LB[j])) if normalized else xs[j] for j in range(3)]
        scale = [(_P_UB[j] - _P_LB[j]) if normalized else 1.0 for j in range(3)]
        victim, actor = (O, R) if ctx.flag("mutate_restored") else (R, O)
        snap = _problem_facts(victim)
        # the actor evaluates first: the victim must not notice (own database, own counters)
        for nm, p in (("actor", actor), ("victim", victim)):
            who = "original" if p is O else "restored"
            if nm == "victim":
                dd = _diff_facts(snap, _problem_facts(victim))
                ctx.check(pre + f"evaluations by the other problem leave the {who} untouched (database, counters) {dd[:3]}", _truth(ctx, not dd))
            v = p.objective.evaluate(ctx.array(list(xs)))
            ctx.observe(f"{who} f", np.ravel(v))
            _check_values(ctx, pre + f"{who}.objective.evaluate(x)", np.atleast_1d(v), _v_f(phys), 1)
            g = p.constraints[0].evaluate(ctx.array(list(xs)))
            ctx.observe(f"{who} g", np.ravel(g))
            _check_values(ctx, pre + f"{who}.constraint.evaluate(x)", g, [a - 1.0 for a in _v_lin(phys)], 2)
            q = p.observables[0].evaluate(ctx.array(list(xs)))
            _check_values(ctx, pre + f"{who}.observable.evaluate(x)", np.atleast_1d(q), _v_quad(phys), 1)
            j = p.objective.jac(ctx.array(list(xs)))
            ctx.observe(f"{who} df", np.ravel(j))
            _check_block(ctx, pre + f"{who}.objective.jac(x)", np.atleast_2d(j), [[_j_f(phys)[0][c] * scale[c] for c in range(3)]])
            c = calls["O" if p is O else "R"]
            ctx.check(pre + f"{who}: objective counter {p.objective.n_calls} == {c} + 1, database {len(p.database)} entries",
                      _truth(ctx, p.objective.n_calls == c + 1 and len(p.database) == n_calls + 1))
    finally:
        shutil.rmtree(tmp, ignore_errors=True)


# ------------------------------------------------------------------------------------------------
# scenarios (structure, carried-over results, the objective on a symbolic point; the DOE itself runs on concrete samples)
# ------------------------------------------------------------------------------------------------
_SAMPLES = [[0.5, 2.0], [1.0, 1.0], [2.0, 0.5]]
_SAMPLES2 = [[0.0, 1.0], [-0.5, 3.0]]


def _build_scenario(kind, formulation):
    from gemseo.algos.design_space import DesignSpace
    from gemseo.scenarios.doe_scenario import DOEScenario
    from gemseo.scenarios.mdo_scenario import MDOScenario

    ds = DesignSpace()
    ds.add_variable("x", lower_bound=-1.0, upper_bound=3.0, value=0.5)
    ds.add_variable("z", lower_bound=0.0, upper_bound=4.0, value=2.0)
    cls = {"doe": DOEScenario, "mdo": MDOScenario}[kind]
    sc = cls([_A1(), _A2()], "v", ds, formulation_name=formulation, name="SC")
    sc.add_constraint("w", constraint_type="ineq", value=2.0)
    return sc


def _scenario_facts(sc):
    p = sc.formulation.optimization_problem
    f = dict(cls=type(sc).__name__, name=sc.name, formulation=type(sc.formulation).__name__, problem=_problem_facts(p),
             disciplines=[_disc_facts(d) for d in sc.disciplines], top=[d.name for d in sc.formulation.get_top_level_disciplines()],
             n_exec=sc.execution_statistics.n_executions, status=str(sc.execution_status.value))
    res = sc.optimization_result if p.database else None
    f["result"] = None if res is None else dict(x_opt=[float(v) for v in res.x_opt], f_opt=float(res.f_opt), feasible=bool(res.is_feasible), n_obj_call=res.n_obj_call)
    return f


def _run_doe(sc, samples):
    sc.execute(algo_name="CustomDOE", samples=np.array(samples))


def h_scenario(ctx, cfg):
    tmp = tempfile.mkdtemp(prefix="c20_", dir="/tmp")
    try:
        _install(ctx, "json")
        _install_func_stubs(ctx)
        kind, formulation, moment = cfg["kind"], cfg["formulation"], cfg["moment"]
        O = _build_scenario(kind, formulation)
        if moment == "executed":
            if kind == "doe":
                _run_doe(O, _SAMPLES)
            else:
                O.execute(algo_name="SLSQP", max_iter=4)
        before = _scenario_facts(O)
        route = ROUTES[ctx.choice("route", len(ROUTES))]
        pre = f"scenario/{kind}/{formulation}/{moment}/{route}: "
        R = _round_trip(O, route, tmp)
        d0 = _diff_facts(before, _scenario_facts(O))
        ctx.check(pre + f"serializing does not change the original {d0[:3]}", _truth(ctx, not d0))
        d1 = _diff_facts(before, _scenario_facts(R))
        ctx.check(pre + f"restored scenario: same formulation, problem, database, result, disciplines and counters {d1[:3]}", _truth(ctx, not d1 and R is not O))
        # both run the same (further) samples / the same optimizer: same results
        if kind == "doe":
            more = _SAMPLES2 if moment == "executed" else _SAMPLES
            _run_doe(R, more)
            _run_doe(O, more)
            pts = (_SAMPLES + _SAMPLES2) if moment == "executed" else _SAMPLES
            feas = [pt for pt in pts if pt[0] * pt[0] - pt[1] <= 2.0 + 1e-12]
            best = min(feas, key=lambda pt: _chain_value({"x": [pt[0]], "z": [pt[1]]})["v"][0])
            for nm, sc in (("original", O), ("restored", R)):
                res = sc.optimization_result
                ok = [float(v) for v in res.x_opt] == [float(v) for v in best] and abs(float(res.f_opt) - _chain_value({"x": [best[0]], "z": [best[1]]})["v"][0]) <= 1e-12
                ctx.check(pre + f"{nm} scenario: optimum of all samples {res.x_opt} == {best}", _truth(ctx, ok))
                ctx.check(pre + f"{nm} scenario: database holds {len(sc.formulation.optimization_problem.database)} == {len(pts)} samples",
                          _truth(ctx, len(sc.formulation.optimization_problem.database) == len(pts)))
        elif moment == "fresh":
            R.execute(algo_name="SLSQP", max_iter=4)
            O.execute(algo_name="SLSQP", max_iter=4)
        a, b = _scenario_facts(O), _scenario_facts(R)
        dd = _diff_facts(a, b)
        ctx.check(pre + f"restored scenario returns the same optimization result and history as the original, and is in the same state {dd[:3]}", _truth(ctx, not dd))
        # the objective and the constraint of both problems on a symbolic physical point (through the disciplines); after an optimizer the
        # caches of the disciplines hold arbitrary floats, whose float64 outputs differ from the exact formula: relational check only
        x, z = ctx.real("x"), ctx.real("z")
        val = _chain_value({"x": [x], "z": [z]})
        got = {}
        for who, sc in ((("R", R), ("O", O)) if ctx.flag("restored_first") else (("O", O), ("R", R))):
            nm = "original" if who == "O" else "restored"
            p = sc.formulation.optimization_problem
            v = np.atleast_1d(p.objective.original.evaluate(ctx.array([x, z])))
            w = np.atleast_1d(p.constraints[0].original.evaluate(ctx.array([x, z])))
            ctx.observe(f"{who} v", np.ravel(v))
            got[who] = (elems(v), elems(w))
            if kind == "doe":
                _check_values(ctx, pre + f"{nm} objective at a symbolic point", v, val["v"], 1)
                _check_values(ctx, pre + f"{nm} constraint at a symbolic point", w, [val["w"][0] - 2.0], 1)
        ok = len(got["O"][0]) == len(got["R"][0]) == 1 and len(got["O"][1]) == len(got["R"][1]) == 1
        ctx.check(pre + "objective and constraint of both scenarios are scalar", _truth(ctx, ok))
        if ok:
            ctx.check(pre + "restored objective == original objective at a symbolic point", ctx.eq(got["O"][0][0], got["R"][0][0]))
            ctx.check(pre + "restored constraint == original constraint at a symbolic point", ctx.eq(got["O"][1][0], got["R"][1][0]))
    finally:
        shutil.rmtree(tmp, ignore_errors=True)


# ------------------------------------------------------------------------------------------------
FULL = ("analytic", "chain")


def configs(tier):
    out = []
    quick = tier == "quick"

    def add(obj, grammar, cache, moment, **kw):
        out.append(("disc", dict(obj=obj, grammar=grammar, cache=cache, moment=moment, **kw)))

    for obj, T in TEMPLATES.items():
        scalar = all(sz == 1 for sz in T.inputs.values())
        rich = "exec+lin+defaults" if T.lin else "defaults+exec"
        if obj == "taylor":
            # (no cache: on the unchanged tree a TaylorDiscipline raises KeyError at the first execution that follows a cache hit or
            # a linearization, because both reset the ``jac`` attribute its body reads; not a serialization matter)
            add(obj, "json", "none", "fresh")
            add(obj, "json", "none", "exec2")
            add(obj, "simple", "none", rich, twice=True)
        elif obj in FULL or not quick:
            for moment in ["fresh", "exec", "exec2", "defaults", "defaults+exec"] + (["lin", "diff", "difflin", rich] if T.lin else []):
                add(obj, "json", "none", moment)
            for moment in ["exec", "defaults+exec"] + (["lin", "difflin"] if T.lin else []):
                add(obj, "json", "simple", moment)
            for moment in ["exec2"] + (["lin"] if T.lin else []):
                add(obj, "simple", "simple", moment)
            add(obj, "simple", "none", "fresh")
            add(obj, "simple", "none", rich, twice=True)
            add(obj, "json", "simple", "exec", twice=True)
        else:
            add(obj, "json", "none", "fresh")
            add(obj, "json", "simple", rich)
            add(obj, "simple", "simple", "difflin" if T.lin else "exec2")
            add(obj, "simple", "none", rich, twice=True)
        if T.lin and T.jac is not None and T.defaults and (obj in ("analytic", "chain", "arrayfn") or not quick):
            add(obj, "json", "none", "fd")
            add(obj, "simple", "none", "fd+exec")
            # (no linearization by finite differences BEFORE the round trip: the perturbed executions count as executions and
            # compute_all_jacobians registers differentiated names, which the independent bookkeeping of _live does not model)
        if scalar and not T.piecewise and obj != "taylor":
            add(obj, "json", "simple_tol", "exec")
            if obj in FULL or not quick:
                add(obj, "simple", "simple_tol", "exec2")
        if obj in ("analytic", "arrayfn"):
            # an output removed from the grammar before / after the first validation (a JSON grammar caches its schema then)
            for grammar in ("json", "simple"):
                add(obj, grammar, "none", "restrict")
                add(obj, grammar, "none", "exec+restrict")
                add(obj, grammar, "none", "exec+restrict+exec")
        if obj == "analytic":
            # (a leaf discipline only: a namespace added to the grammar of a process is not forwarded to its disciplines; no
            # linearization: AnalyticDiscipline leaves the Jacobian block of a namespaced input at zero, serialized or not)
            add(obj, "json", "simple", "exec", namespace=True, linearize=False)
            add(obj, "simple", "none", "defaults+exec", namespace=True, linearize=False)
    # grammars on their own, user subclasses included
    for cls in ("json", "json_sub", "simple", "simple_sub"):
        out.append(("grammar", dict(cls=cls)))
    # file-based cache (concrete)
    for obj, moment, tol in (("analytic", "exec", 0.0), ("analytic", "exec2+lin", 0.25), ("chain", "lin", 0.0), ("arrayfn", "exec2", 0.25)):
        out.append(("hdf5", dict(obj=obj, moment=moment, tol=tol)))
    for shared in (False, True):
        out.append(("memory_full", dict(obj="analytic", shared=shared)))
    # MDAs
    for kind in ("gs", "jacobi", "chain", "gs_relax", "chain_jacobi", "sequential"):
        for moment in (("fresh", "exec", "exec+lin") if kind in ("gs", "jacobi", "chain") or not quick else ("exec+lin",)):
            for route in ROUTES:  # (one configuration per route: an MDA is slow to build and its default caches fork the paths)
                out.append(("mda", dict(mda=kind, moment=moment, routes=[route])))
    out.append(("mda", dict(mda="gs", moment="cache_none+exec", grammar="simple")))
    for func in FUNCS:
        out.append(("func", dict(func=func, used=False)))
        out.append(("func", dict(func=func, used=True)))
    for used in (False, True):
        for int_norm in (False, True):
            out.append(("space", dict(used=used, int_norm=int_norm)))
    for moment in ("fresh", "preprocessed", "evaluated"):
        out.append(("problem", dict(moment=moment, normalized=True)))
    out.append(("problem", dict(moment="evaluated", normalized=False)))
    for kind, formulation, moment in (("doe", "DisciplinaryOpt", "fresh"), ("doe", "DisciplinaryOpt", "executed"), ("doe", "MDF", "executed"),
                                      ("mdo", "MDF", "fresh"), ("mdo", "DisciplinaryOpt", "executed")):
        out.append(("scenario", dict(kind=kind, formulation=formulation, moment=moment)))
    return out


HARNESSES = {"grammar": h_grammar, "disc": h_disc, "hdf5": h_hdf5, "memory_full": h_memory_full, "mda": h_mda, "func": h_func, "space": h_space,
             "problem": h_problem, "scenario": h_scenario}
