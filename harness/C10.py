"""C10 - function algebra and transformations evaluate and differentiate exactly.

Harnesses: ``algebra`` (sums/products/quotients/negation/offset/scaling of uninterpreted functions), ``linear`` (MDOLinearFunction and
its -f, offset, restrict, normalize, f+-g, c*f), ``quadratic`` (MDOQuadraticFunction), ``restriction`` (FunctionRestriction),
``composite`` (LinearCompositeFunction), ``concatenate`` (Concatenate), ``taylor`` (compute_linear/quadratic_approximation),
``aggregation`` (aggregation/core.py and the aggregate_* wrappers), ``discipline`` (ConstraintAggregation).  All oracles are explicit scalar formulas written here.
"""
from __future__ import annotations

import sys

import numpy as np

sys.set_int_max_str_digits(0)  # solver models of non-linear queries may hold rationals with thousands of digits

from harness.common import _plain, _py, check_array, check_log_untouched, elems, uf_function

META = dict(
    bounds=dict(
        quick="algebra: operand dims (m,n) in {1,2,3}x{1,2,3} for single operations; depth-2 expression trees over {+,-,*,/,neg,offset,scale} for "
              "(m,n) in {(1,2),(2,2),(2,3)}.  linear/restriction/taylor/concatenate/composite: output and input sizes in {1,2,3} (m == n "
              "included), every set of frozen inputs leaving at least one active input (pairs in one non-monotone order), design spaces with "
              "bounded/unbounded/half-bounded/equal-bounds components and symbolic bounds, symbolic coefficients, expansion points, Hessian "
              "approximations (symmetric and non-symmetric symbolic, plus one fixed non-symmetric matrix for n = 3), two evaluation "
              "points.  aggregation: m in {2,3} constraints, n in {1,2,3} variables, scale in {absent, symbolic s > 0, 2, vector}, indices in "
              "{None, [1] (m=2), [2,0] (m=3)}, rho in {2, 64, 100}, raw functions of aggregation/core.py (values, total and partial "
              "Jacobians) and the aggregate_* wrappers on an uninterpreted constraint function.  discipline: ConstraintAggregation on one "
              "symbolic vector constraint of size 2-3, every method, same scales/indices: execute() and linearize() w.r.t. the constraint",
        thorough="same; all depth-2 algebra trees for (m,n) in {1,2,3}^2; frozen pairs in both orders; all 27 (m,k,n) of the vector-valued "
                 "linear composition; more index subsets and (m,1) shapes for the aggregations",
    ),
    outside=["sparse Jacobians / sparse coefficient matrices (scipy.sparse cannot hold symbols)", "string expressions / names of the composed functions",
             "rounding error of float64", "complex inputs",
             "freezing every input (restrict / FunctionRestriction raise IndexError on the empty array of active indexes): degenerate, not claimed",
             "MDOLinearFunction built with expr=... and without input_names has no input names (restrict then raises IndexError): names are not claimed",
             "ConvexLinearApprox: its docstring gives no formula and the formula pinned by gemseo's own test (reciprocal term c/(x - x0)) is not the "
             "CONLIN approximation of the literature (c (1/x - 1/x0)): no unambiguous definition to check against, left out",
             "ConstraintAggregation discipline: one vector constraint input only (several constraint names declare one output per name but a single "
             "value is computed), SIMPLE grammar, no cache",
             "compute_quadratic_approximation of a function returning (1,) arrays and (1,n) Jacobians ('must be scalar-valued': number + 1-D gradient only)",
             "sum-of-squares aggregations with a scale: 'scale multiplies the constraints' is ambiguous, sum s_i g_i^2 (the code) and sum (s_i g_i)^2 "
             "are both accepted, the Jacobian must be the derivative of the accepted reading",
             "vector scale shorter/longer than the aggregated subset; non-positive scales; ties of the maximum for the Jacobian of max",
             "KS bounds for rho = 100 (1.0/rho is not exact in float64 and float arithmetic is modelled as exact: only rho = 2, 64); "
             "'IKS <= max' (not documented by gemseo; z3 needs > 10 s): dropped",
             ],
    stubs=["none for the algebra part",
           "function_restriction.empty -> object-dtype array (value-preserving storage)",
           "aggregation/core.py: math.log -> the engine's uninterpreted log (ground axioms), zeros -> object-dtype zeros",
           "MDOLinearFunction._generate_1d_expr and MDOQuadraticFunction.__build_expression -> constant string in the normalize/taylor harnesses "
           "(pretty-printing forks on the sign of every coefficient; no effect on values)",
           "design-space bounds written into Variable.__dict__ (harness.common.build_space)",
           "ConstraintAggregation.default_grammar_type -> SIMPLE (a gemseo option) so that arrays of symbols validate"],
    assumptions=["operand functions are uninterpreted symbols F_i(x), their Jacobians independent symbols dF_ij(x); denominators assumed non-zero",
                 "design-space bounds l < u (or l == u for kind E)",
                 "aggregations: scale > 0; a vector scale has one entry per aggregated constraint (after the selection by indices)",
                 "KS bounds: besides the engine's ground exp/log axioms, two ground instances of identities of the real logarithm are assumed: "
                 "log(exp(rho)) == rho and log(k exp(rho)) == log(k) + rho (k = number of aggregated constraints)",
                 "the oracle of the KS/IKS weights uses the shift exp(rho (g_i + 1 - max g)) of the implementation (the weights are invariant under the shift)"],
)

OPS_BIN_FUNC = ["add", "sub", "mul", "div"]
OPS_UNARY = ["neg"]
OPS_CONST = ["add_c", "sub_c", "mul_c", "div_c", "offset_c", "add_v", "sub_v", "mul_v", "div_v", "offset_v"]


class Node:
    def __init__(self, val, jac):
        self.val = val  # list of m terms
        self.jac = jac  # m x n list


def _oracle(op, a: Node, b=None, m=1, n=1):
    """Value/Jacobian of the combination by the textbook rules, explicit loops."""
    if op == "neg":
        return Node([-v for v in a.val], [[-a.jac[i][j] for j in range(n)] for i in range(m)])
    if op in ("add", "sub"):
        s = 1 if op == "add" else -1
        return Node([a.val[i] + s * b.val[i] for i in range(m)], [[a.jac[i][j] + s * b.jac[i][j] for j in range(n)] for i in range(m)])
    if op == "mul":
        return Node([a.val[i] * b.val[i] for i in range(m)],
                    [[a.jac[i][j] * b.val[i] + a.val[i] * b.jac[i][j] for j in range(n)] for i in range(m)])
    if op == "div":
        return Node([a.val[i] / b.val[i] for i in range(m)],
                    [[(a.jac[i][j] * b.val[i] - a.val[i] * b.jac[i][j]) / (b.val[i] * b.val[i]) for j in range(n)] for i in range(m)])
    # constants: b is a list of m constants (scalar repeated)
    if op in ("add_c", "add_v", "offset_c", "offset_v"):
        return Node([a.val[i] + b[i] for i in range(m)], a.jac)
    if op in ("sub_c", "sub_v"):
        return Node([a.val[i] - b[i] for i in range(m)], a.jac)
    if op in ("mul_c", "mul_v"):
        return Node([a.val[i] * b[i] for i in range(m)], [[a.jac[i][j] * b[i] for j in range(n)] for i in range(m)])
    if op in ("div_c", "div_v"):
        return Node([a.val[i] / b[i] for i in range(m)], [[a.jac[i][j] / b[i] for j in range(n)] for i in range(m)])
    raise ValueError(op)


def _apply(op, fa, fb):
    if op == "neg":
        return -fa
    if op in ("add", "add_c", "add_v"):
        return fa + fb
    if op in ("sub", "sub_c", "sub_v"):
        return fa - fb
    if op in ("mul", "mul_c", "mul_v"):
        return fa * fb
    if op in ("div", "div_c", "div_v"):
        return fa / fb
    if op in ("offset_c", "offset_v"):
        return fa.offset(fb)
    raise ValueError(op)


def _leaf(ctx, name, m, n, scalar, x, log):
    from gemseo.core.mdo_functions.mdo_function import MDOFunction

    func, jac, F, dF = uf_function(ctx, name, m, n, scalar=scalar, log=log)
    xs = elems(x)
    node = Node([F[i](*xs) for i in range(m)], [[dF[i][j](*xs) for j in range(n)] for i in range(m)])
    return MDOFunction(func, name, jac=jac, dim=m), node


def _const(ctx, name, op, m):
    """The constant operand of a *_c / *_v operation and its per-component oracle values."""
    if op.endswith("_c"):
        c = ctx.real(name)
        return c, [c] * m
    c = ctx.reals(name, m)
    return c, elems(c)


def h_algebra(ctx, cfg):
    """(f op1 g) [op2 h]: value and Jacobian against the sum/product/quotient rules; operands untouched."""
    m, n = cfg["m"], cfg["n"]
    scalar = cfg.get("scalar", False) and m == 1
    ops = cfg["ops"]
    x = ctx.reals("x", n)
    log = []
    consts = []
    names = iter("fgh")
    fa, na = _leaf(ctx, next(names), m, n, scalar, x, log)
    for k, op in enumerate(ops):
        if op in OPS_BIN_FUNC:
            fb, nb = _leaf(ctx, next(names), m, n, scalar, x, log)
            if op == "div":
                for v in nb.val:
                    ctx.assume(ctx.not_(ctx.eq(v, 0.0)))
            na = _oracle(op, na, nb, m, n)
            fa = _apply(op, fa, fb)
        elif op == "neg":
            na = _oracle(op, na, None, m, n)
            fa = -fa
        else:
            c, cvals = _const(ctx, f"c{k}_", op, m)
            if op.startswith("div"):
                for v in cvals:
                    ctx.assume(ctx.not_(ctx.eq(v, 0.0)))
            consts.append((c, list(cvals)))
            na = _oracle(op, na, cvals, m, n)
            fa = _apply(op, fa, c)
    val = fa.evaluate(x)
    ctx.observe("value", np.ravel(val))
    J = fa.jac(x)
    ctx.observe("jac", np.ravel(J))
    if scalar:
        check_array(ctx, "value", np.ravel(val) if isinstance(val, np.ndarray) else [val], na.val)
        check_array(ctx, "jac", J, na.jac[0])
    else:
        check_array(ctx, "value", val, na.val)
        check_array(ctx, "jac", J, na.jac)
    check_log_untouched(ctx, log)
    for k, (c, cvals) in enumerate(consts):
        if isinstance(c, np.ndarray):
            check_array(ctx, f"const{k}-untouched", c, cvals)
    xs0 = [ctx.real(f"x{i}") for i in range(n)]
    check_array(ctx, "x-untouched", x, xs0)


# ------------------------------------------------------------------------------------------------
# helpers of the transformation harnesses
# ------------------------------------------------------------------------------------------------
def _check_vec(ctx, label, got, exp):
    """A vector of len(exp) components; a function with one output may return a scalar, a 0-d or a (1,) array."""
    if len(exp) == 1 and np.shape(got) in ((), (1,)):
        ctx.check(f"{label}[0]", ctx.eq(elems(got)[0], exp[0]))
    else:
        check_array(ctx, label, got, exp)


def _check_jac(ctx, label, got, exp, m):
    """(m, n) Jacobian; for m == 1 the 1-D gradient (n,) is accepted as well (both conventions exist in gemseo)."""
    if m == 1 and np.ndim(got) == 1:
        check_array(ctx, label, got, exp[0])
    else:
        check_array(ctx, label, got, exp)


def _check_flat(ctx, label, got, exp):
    """Same number of elements and same elements in C order (shape conventions of scalar-valued functions are not asserted)."""
    g = elems(got)
    if len(g) != len(exp):
        ctx.check(f"{label}:size {len(g)} == {len(exp)}", ctx.false())
        return
    for i, (a, b) in enumerate(zip(g, exp)):
        ctx.check(f"{label}[{i}]", ctx.eq(a, b))


def _no_expr_stub(ctx):
    """MDOLinearFunction builds a pretty-printed expression from the signs of its coefficients: disabled (no effect on values)."""
    from gemseo.core.mdo_functions.mdo_linear_function import MDOLinearFunction

    ctx.patch(MDOLinearFunction, "_generate_1d_expr", lambda self, input_names: "linear")


def _no_quad_expr_stub(ctx):
    """Same for the expression string of MDOQuadraticFunction (it forks on the signs of the linear and constant coefficients)."""
    from gemseo.core.mdo_functions.mdo_quadratic_function import MDOQuadraticFunction

    ctx.patch(MDOQuadraticFunction, "_MDOQuadraticFunction__build_expression", classmethod(lambda cls, *a, **k: "quadratic"))


def _lin(ctx, name, m, n):
    """A linear function with symbolic coefficients; returns (function, A, b, rows of A, entries of b)."""
    from gemseo.core.mdo_functions.mdo_linear_function import MDOLinearFunction

    A = ctx.matrix(f"{name}A", m, n)
    b = ctx.reals(f"{name}b", m)
    # expr: the automatic expression string forks on the sign of every coefficient; input_names: not generated when expr is given
    # (restrict() then raises IndexError on the empty list of names: names are outside this claim)
    f = MDOLinearFunction(A, name, value_at_zero=b, expr=f"{name}A.x+{name}b", input_names=[f"x{j}" for j in range(n)])
    Ael = [[ctx.real(f"{name}A{i}_{j}") for j in range(n)] for i in range(m)]
    bel = [ctx.real(f"{name}b{i}") for i in range(m)]
    return f, A, b, Ael, bel


def _lin_val(Ael, bel, xs):
    return [sum((Ael[i][j] * xs[j] for j in range(len(xs))), bel[i]) for i in range(len(bel))]


def h_linear(ctx, cfg):
    """MDOLinearFunction: evaluation, Jacobian and the derived functions (-f, offset, restrict, normalize, f+-g, c*f)."""
    m, n, op = cfg["m"], cfg["n"], cfg["op"]
    f, A, b, Ael, bel = _lin(ctx, "f", m, n)
    x = ctx.reals("x", n)
    xs = [ctx.real(f"x{i}") for i in range(n)]
    y = ctx.reals("y", n)
    ys = [ctx.real(f"y{i}") for i in range(n)]

    def check(label, fn, pt, val, jac, mm=m):
        v = fn.evaluate(pt)
        ctx.observe(f"{label}:value", np.ravel(v))
        _check_vec(ctx, f"{label}:value", v, val)
        J = fn.jac(pt)
        ctx.observe(f"{label}:jac", np.ravel(J))
        if mm == 1:  # documented: the gradient of a scalar linear function is a 1-D array
            check_array(ctx, f"{label}:jac", J, jac[0])
        else:
            check_array(ctx, f"{label}:jac", J, jac)

    if op == "eval":
        check("f(x)", f, x, _lin_val(Ael, bel, xs), Ael)
        check("f(y)", f, y, _lin_val(Ael, bel, ys), Ael)
    elif op == "neg":
        g = -f
        check("-f", g, x, [-v for v in _lin_val(Ael, bel, xs)], [[-a for a in r] for r in Ael])
    elif op in ("offset_c", "offset_v"):
        if op == "offset_c":
            c = ctx.real("c")
            cs = [c] * m
        else:
            c = ctx.reals("c", m)
            cs = [ctx.real(f"c{i}") for i in range(m)]
        g = f.offset(c)
        check("offset", g, x, [v + cs[i] for i, v in enumerate(_lin_val(Ael, bel, xs))], Ael)
        if op == "offset_v":
            check_array(ctx, "offset-untouched", c, cs)
    elif op == "mul_c":
        c = ctx.real("c")
        g = f * c
        check("f*c", g, x, [c * v for v in _lin_val(Ael, bel, xs)], [[c * a for a in r] for r in Ael])
    elif op in ("add", "sub"):
        g, gA, gb, gAel, gbel = _lin(ctx, "g", m, n)
        sgn = 1 if op == "add" else -1
        h = f + g if op == "add" else f - g
        fv, gv = _lin_val(Ael, bel, xs), _lin_val(gAel, gbel, xs)
        check(op, h, x, [fv[i] + sgn * gv[i] for i in range(m)], [[Ael[i][j] + sgn * gAel[i][j] for j in range(n)] for i in range(m)])
        check("g after", g, x, gv, gAel)
        check_array(ctx, "gA-untouched", gA, gAel)
        check_array(ctx, "gb-untouched", gb, gbel)
    elif op == "restrict":
        frozen = list(cfg["frozen"])
        active = [j for j in range(n) if j not in frozen]
        fv = ctx.reals("v", len(frozen))
        fvs = [ctx.real(f"v{k}") for k in range(len(frozen))]
        g = f.restrict(np.array(frozen, dtype=int), fv)
        z = ctx.reals("z", len(active))
        zs = [ctx.real(f"z{k}") for k in range(len(active))]
        full = [None] * n
        for k, j in enumerate(active):
            full[j] = zs[k]
        for k, j in enumerate(frozen):
            full[j] = fvs[k]
        check("restrict", g, z, _lin_val(Ael, bel, full), [[Ael[i][j] for j in active] for i in range(m)])
        check_array(ctx, "frozen-values-untouched", fv, fvs)
    elif op == "normalize":
        from harness.common import build_space

        _no_expr_stub(ctx)
        ds, info = build_space(ctx, [("x", "float", cfg["layout"])])
        g = f.normalize(ds)
        phys = info.phys(ctx, xs)
        check("normalize", g, x, _lin_val(Ael, bel, phys), [[Ael[i][j] * info.scale(j) for j in range(n)] for i in range(m)])
        ctx.check("normalize:expects_normalized_inputs", ctx.true() if g.expects_normalized_inputs else ctx.false())
    else:
        raise ValueError(op)
    # the operand still is the function A x + b and the arrays passed by the caller hold the same values
    check("f after", f, x, _lin_val(Ael, bel, xs), Ael)
    check_array(ctx, "A-untouched", A, Ael)
    check_array(ctx, "b-untouched", b, bel)
    check_array(ctx, "x-untouched", x, xs)


def _quad_val(Q, c, d, xs):
    n = len(xs)
    return sum((Q[i][j] * xs[i] * xs[j] for i in range(n) for j in range(n)), sum((c[i] * xs[i] for i in range(n)), d))


def _quad_grad(Q, c, xs):
    n = len(xs)
    return [sum(((Q[i][j] + Q[j][i]) * xs[j] for j in range(n)), c[i]) for i in range(n)]


def h_quadratic(ctx, cfg):
    """MDOQuadraticFunction: value d + c'x + x'Qx and gradient (Q + Q')x + c for a non-symmetric symbolic Q."""
    from gemseo.core.mdo_functions.mdo_quadratic_function import MDOQuadraticFunction

    n, linear = cfg["n"], cfg["linear"]
    Q = ctx.matrix("Q", n, n)
    Qel = [[ctx.real(f"Q{i}_{j}") for j in range(n)] for i in range(n)]
    d = ctx.real("d")
    if linear:
        c = ctx.reals("c", n)
        cel = [ctx.real(f"c{i}") for i in range(n)]
    else:
        c, cel = None, [0.0] * n
    q = MDOQuadraticFunction(Q, "q", linear_coeffs=c, value_at_zero=d)
    for nm in ("x", "y"):  # two points: nothing may be remembered from the first evaluation
        x = ctx.reals(nm, n)
        xs = [ctx.real(f"{nm}{i}") for i in range(n)]
        v = q.evaluate(x)
        ctx.observe(f"value({nm})", np.ravel(v))
        _check_vec(ctx, f"value({nm})", v, [_quad_val(Qel, cel, d, xs)])
        g = q.jac(x)
        ctx.observe(f"jac({nm})", np.ravel(g))
        check_array(ctx, f"jac({nm})", g, _quad_grad(Qel, cel, xs))
        check_array(ctx, f"{nm}-untouched", x, xs)
    check_array(ctx, "Q-untouched", Q, Qel)
    if linear:
        check_array(ctx, "c-untouched", c, cel)


def _object_empty_stub(ctx, module):
    """``empty(n)`` of the module under test: an object array (value-preserving storage of the symbols written into it)."""
    from symgem.core import SymArray

    def empty(shape, *a, **k):
        return SymArray(np.zeros(shape, dtype=object))

    ctx.patch(module, "empty", empty)


def h_restriction(ctx, cfg):
    """FunctionRestriction of an uninterpreted f: f at the point completed with the frozen values, columns of the active inputs."""
    import gemseo.core.mdo_functions.function_restriction as fr
    from gemseo.core.mdo_functions.mdo_function import MDOFunction

    m, n, frozen = cfg["m"], cfg["n"], list(cfg["frozen"])
    scalar = cfg.get("scalar", False) and m == 1
    _object_empty_stub(ctx, fr)
    log = []
    func, jac, F, dF = uf_function(ctx, "f", m, n, scalar=scalar, log=log)
    f = MDOFunction(func, "f", jac=jac, dim=m)
    active = [j for j in range(n) if j not in frozen]
    fv = ctx.reals("v", len(frozen))
    fvs = [ctx.real(f"v{k}") for k in range(len(frozen))]
    r = fr.FunctionRestriction(np.array(frozen, dtype=int), fv, n, f, name="r")
    for nm in ("z", "w"):
        z = ctx.reals(nm, len(active))
        zs = [ctx.real(f"{nm}{k}") for k in range(len(active))]
        full = [None] * n
        for k, j in enumerate(active):
            full[j] = zs[k]
        for k, j in enumerate(frozen):
            full[j] = fvs[k]
        v = r.evaluate(z)
        ctx.observe(f"value({nm})", np.ravel(v))
        _check_vec(ctx, f"value({nm})", v, [F[i](*full) for i in range(m)])
        J = r.jac(z)
        ctx.observe(f"jac({nm})", np.ravel(J))
        exp = [[dF[i][j](*full) for j in active] for i in range(m)]
        if scalar:
            check_array(ctx, f"jac({nm})", J, exp[0])
        else:
            check_array(ctx, f"jac({nm})", J, exp)
        check_array(ctx, f"{nm}-untouched", z, zs)
    check_array(ctx, "frozen-values-untouched", fv, fvs)
    check_log_untouched(ctx, log)


def h_composite(ctx, cfg):
    """LinearCompositeFunction x -> f(Ax): value and the chain rule J_f(Ax) A  (for a 1-D gradient: A' grad f(Ax))."""
    from gemseo.core.mdo_functions.linear_composite_function import LinearCompositeFunction
    from gemseo.core.mdo_functions.mdo_function import MDOFunction

    m, k, n = cfg["m"], cfg["k"], cfg["n"]
    scalar = cfg.get("scalar", False) and m == 1
    log = []
    func, jac, F, dF = uf_function(ctx, "f", m, k, scalar=scalar, log=log)
    f = MDOFunction(func, "f", jac=jac, dim=m)
    A = ctx.matrix("A", k, n)
    Ael = [[ctx.real(f"A{i}_{j}") for j in range(n)] for i in range(k)]
    c = LinearCompositeFunction(f, A)
    x = ctx.reals("x", n)
    xs = [ctx.real(f"x{i}") for i in range(n)]
    ax = [sum((Ael[l][j] * xs[j] for j in range(n)), 0.0) for l in range(k)]
    v = c.evaluate(x)
    ctx.observe("value", np.ravel(v))
    _check_vec(ctx, "value", v, [F[i](*ax) for i in range(m)])
    J = c.jac(x)
    ctx.observe("jac", np.ravel(J))
    exp = [[sum((dF[i][l](*ax) * Ael[l][j] for l in range(k)), 0.0) for j in range(n)] for i in range(m)]
    _check_jac(ctx, "jac", J, exp, m)
    check_array(ctx, "A-untouched", A, Ael)
    check_array(ctx, "x-untouched", x, xs)
    check_log_untouched(ctx, log)


def h_concatenate(ctx, cfg):
    """Concatenate of functions with output sizes cfg["dims"] (0 = a function returning a scalar and a 1-D gradient)."""
    from gemseo.core.mdo_functions.concatenate import Concatenate
    from gemseo.core.mdo_functions.mdo_function import MDOFunction

    n, dims = cfg["n"], cfg["dims"]
    log = []
    parts = []
    for k, dk in enumerate(dims):
        mk = max(dk, 1)
        func, jac, F, dF = uf_function(ctx, f"f{k}", mk, n, scalar=dk == 0, log=log)
        parts.append((MDOFunction(func, f"f{k}", jac=jac, dim=mk), F, dF, mk))
    c = Concatenate([p[0] for p in parts], "c")
    for nm in ("x", "y"):
        x = ctx.reals(nm, n)
        xs = [ctx.real(f"{nm}{i}") for i in range(n)]
        v = c.evaluate(x)
        ctx.observe(f"value({nm})", np.ravel(v))
        check_array(ctx, f"value({nm})", v, [F[i](*xs) for (_, F, dF, mk) in parts for i in range(mk)])
        J = c.jac(x)
        ctx.observe(f"jac({nm})", np.ravel(J))
        check_array(ctx, f"jac({nm})", J, [[dF[i][j](*xs) for j in range(n)] for (_, F, dF, mk) in parts for i in range(mk)])
        check_array(ctx, f"{nm}-untouched", x, xs)
    ctx.check("dim", ctx.true() if c.dim == sum(p[3] for p in parts) else ctx.false())
    check_log_untouched(ctx, log)


def h_taylor(ctx, cfg):
    """First- and second-order Taylor polynomials at a symbolic expansion point x0, evaluated at a symbolic x."""
    from gemseo.core.mdo_functions.mdo_function import MDOFunction
    from gemseo.core.mdo_functions.taylor_polynomials import compute_linear_approximation, compute_quadratic_approximation

    m, n, order = cfg["m"], cfg["n"], cfg["order"]
    scalar = cfg.get("scalar", False) and m == 1
    _no_expr_stub(ctx)
    _no_quad_expr_stub(ctx)
    log = []
    func, jac, F, dF = uf_function(ctx, "f", m, n, scalar=scalar, log=log)
    f = MDOFunction(func, "f", jac=jac, dim=m)
    x0 = ctx.reals("a", n)
    x0s = [ctx.real(f"a{i}") for i in range(n)]
    x = ctx.reals("x", n)
    xs = [ctx.real(f"x{i}") for i in range(n)]
    dx = [xs[j] - x0s[j] for j in range(n)]
    f0 = [F[i](*x0s) for i in range(m)]
    J0 = [[dF[i][j](*x0s) for j in range(n)] for i in range(m)]
    if order == 1:
        t = compute_linear_approximation(f, x0)
        v = t.evaluate(x)
        ctx.observe("value", np.ravel(v))
        _check_vec(ctx, "value", v, [sum((J0[i][j] * dx[j] for j in range(n)), f0[i]) for i in range(m)])
        J = t.jac(x)
        ctx.observe("jac", np.ravel(J))
        _check_jac(ctx, "jac", J, J0, m)
    else:
        if cfg["symmetric"]:
            up = {(i, j): ctx.real(f"H{i}_{j}") for i in range(n) for j in range(i, n)}
            Hel = [[up[(min(i, j), max(i, j))] for j in range(n)] for i in range(n)]
        elif cfg.get("concrete_H"):
            # a fixed non-symmetric matrix (keeps the refutation of a wrong polynomial cheap for n = 3)
            Hel = [[float(v) for v in r[:n]] for r in ([1, 2, 0], [0, 3, -1], [4, 1, 2])[:n]]
        else:
            Hel = [[ctx.real(f"H{i}_{j}") for j in range(n)] for i in range(n)]
        H = ctx.array([list(r) for r in Hel])
        t = compute_quadratic_approximation(f, x0, H)
        v = t.evaluate(x)
        ctx.observe("value", np.ravel(v))
        half = 0.5
        quad = sum((Hel[i][j] * dx[i] * dx[j] for i in range(n) for j in range(n)), 0.0)
        _check_vec(ctx, "value", v, [f0[0] + sum((J0[0][j] * dx[j] for j in range(n)), 0.0) + half * quad])
        g = t.jac(x)
        ctx.observe("jac", np.ravel(g))
        # exact gradient of the documented polynomial: grad f(x0) + 1/2 (H + H')(x - x0)
        check_array(ctx, "jac", g, [J0[0][i] + half * sum(((Hel[i][j] + Hel[j][i]) * dx[j] for j in range(n)), 0.0) for i in range(n)])
        check_array(ctx, "H-untouched", H, Hel)
    check_array(ctx, "x0-untouched", x0, x0s)
    check_array(ctx, "x-untouched", x, xs)
    check_log_untouched(ctx, log)


# ------------------------------------------------------------------------------------------------
# constraint aggregations
# ------------------------------------------------------------------------------------------------
AGG = {  # method: (value function, total Jacobian, partial Jacobian, public wrapper, constraint type, has rho)
    "max": ("compute_max_agg", "compute_max_agg_jac", None, "aggregate_max", "ineq", False),
    "sum_square": ("compute_sum_square_agg", "compute_total_sum_square_agg_jac", "compute_partial_sum_square_agg_jac", "aggregate_sum_square", "eq", False),
    "pos_sum_square": ("compute_sum_positive_square_agg", "compute_total_sum_square_positive_agg_jac", "compute_partial_sum_positive_square_agg_jac",
                       "aggregate_positive_sum_square", "ineq", False),
    "ks_upper": ("compute_upper_bound_ks_agg", "compute_total_ks_agg_jac", "compute_partial_ks_agg_jac", "aggregate_upper_bound_ks", "ineq", True),
    "ks_lower": ("compute_lower_bound_ks_agg", "compute_total_ks_agg_jac", "compute_partial_ks_agg_jac", "aggregate_lower_bound_ks", "ineq", True),
    "iks": ("compute_iks_agg", "compute_total_iks_agg_jac", "compute_partial_iks_agg_jac", "aggregate_iks", "ineq", True),
}


DISC_METHOD = {"max": "MAX", "sum_square": "SUM", "pos_sum_square": "POS_SUM", "ks_upper": "upper_bound_KS", "ks_lower": "lower_bound_KS", "iks": "IKS"}


def _sym(v):
    from symgem.core import SymReal, lift

    return v if isinstance(v, SymReal) else SymReal(lift(v))


def _exp(ctx, v):
    if ctx.symbolic:
        from symgem.core import sym_exp

        return sym_exp(_sym(v))
    import math

    return math.exp(v)


def _log(ctx, v):
    if ctx.symbolic:
        from symgem.core import sym_log

        return sym_log(_sym(v))
    import math

    return math.log(v)


def _eq_rat(ctx, a, b):
    """a == b for rational expressions; symbolically the cross-multiplied polynomial identity is offered as a sufficient condition
    (symgem.diff.cross_equal: F => a == b, so ``F or a == b`` is equivalent to ``a == b``)."""
    if ctx.symbolic:
        from symgem.diff import cross_equal

        return ctx.or_(cross_equal(a, b), ctx.eq(a, b))
    return ctx.eq(a, b)


def _agg_stubs(ctx):
    """math.log -> the engine's uninterpreted log; zeros -> object zeros (both value-preserving), in aggregation/core.py."""
    import gemseo.algos.aggregation.core as ac
    from symgem.core import SymArray

    ctx.patch(ac, "log", lambda v: _log(ctx, v))
    ctx.patch(ac, "zeros", lambda shape, *a, **k: SymArray(np.zeros(shape, dtype=object)))


def h_aggregation(ctx, cfg):
    """Constraint aggregations: raw functions of aggregation/core.py (api core/partial) and the aggregate_* wrappers (api func)."""
    import gemseo.algos.aggregation.aggregation_func as af
    import gemseo.algos.aggregation.core as ac
    from gemseo.core.mdo_functions.mdo_function import MDOFunction

    method, m, n, api = cfg["method"], cfg["m"], cfg["n"], cfg["api"]
    skind, indices, rho = cfg["scale"], cfg["indices"], cfg.get("rho")
    f_val, f_jac, f_partial, f_wrap, ftype, has_rho = AGG[method]
    _agg_stubs(ctx)
    I = list(indices) if indices is not None else list(range(m))
    k = len(I)
    kw = {}
    if indices is not None:
        kw["indices"] = list(indices)
    if has_rho:
        kw["rho"] = float(rho)
    # scale: absent (1.0), a positive number (symbolic, or 2), or a positive vector with one entry per aggregated constraint (symbolic,
    # or [2, 3, 1/4]; the concrete kinds keep the refutation of a wrong scaling linear, they are used by a few configurations only).
    svec = None
    if skind == "one":
        sc = [1.0] * k
    elif skind in ("scalar", "scalar_c"):
        if skind == "scalar":
            s = ctx.real("s")
            ctx.assume(s > 0)
        else:
            s = 2.0
        kw["scale"] = s
        sc = [s] * k
    elif skind == "vector":
        svec = ctx.reals("s", k)
        sc = [ctx.real(f"s{i}") for i in range(k)]
        for v in sc:
            ctx.assume(v > 0)
        kw["scale"] = svec
    else:
        sc = [2.0, 3.0, 0.25][:k]
        svec = ctx.array(list(sc))
        kw["scale"] = svec
    untouched = True

    log = []
    if api == "func":
        func, jac, F, dF = uf_function(ctx, "g", m, n, log=log)
        x = ctx.reals("x", n)
        xs = [ctx.real(f"x{i}") for i in range(n)]
        g = [F[i](*xs) for i in range(m)]
        Jg = [[dF[i][j](*xs) for j in range(n)] for i in range(m)]
        agg = getattr(af, f_wrap)(MDOFunction(func, "g", f_type=ftype, jac=jac, dim=m), **kw)
    else:
        g = [ctx.real(f"g{i}") for i in range(m)]
        Jg = [[ctx.real(f"J{i}_{j}") for j in range(n)] for i in range(m)]
    if api == "discipline":  # the ConstraintAggregation discipline on one vector constraint "g"
        from gemseo.core.discipline import Discipline
        from gemseo.disciplines.constraint_aggregation import ConstraintAggregation

        ctx.patch(ConstraintAggregation, "default_grammar_type", Discipline.GrammarType.SIMPLE)
        disc = ConstraintAggregation(["g"], DISC_METHOD[method], **kw)
        disc.set_cache(Discipline.CacheType.NONE)
        out_name = f"{DISC_METHOD[method]}_g"

    lab = method
    callers = []  # (label, array, expected elements) of the arrays handed over to the code under test

    def vals():
        a = ctx.array(list(g))
        callers.append(("caller-values", a, list(g)))
        return a

    def jacs():
        a = ctx.array([list(r) for r in Jg])
        callers.append(("caller-jac", a, [v for r in Jg for v in r]))
        return a

    def check_untouched(stage):
        """The arrays handed over so far (caller's arrays / arrays returned by the constraint function) hold their original values."""
        if not untouched:
            return
        for nm, a, exp in callers:
            for i, (now, orig) in enumerate(zip(elems(a), exp)):
                ctx.check(f"{lab}:{nm}-untouched after {stage}[{i}]", ctx.eq(now, orig))
        check_log_untouched(ctx, log, label=f"{lab}:operand-untouched after {stage}")
        del callers[:], log[:]

    sg = [sc[q] * g[I[q]] for q in range(k)]                       # the scaled aggregated constraints
    sJ = [[sc[q] * Jg[I[q]][j] for j in range(n)] for q in range(k)]  # and their Jacobian rows
    # the maximum of the scaled constraints: the path forks on the comparisons (as the code's own max() does), so M is one of the sg
    amax = 0
    for q in range(1, k if has_rho else 0):
        if sg[q] > sg[amax]:
            amax = q
    M = sg[amax]  # (used by the KS/IKS oracles only)

    # ---- value ------------------------------------------------------------------------------------------------
    if api == "func":
        value = agg.evaluate(x)
    elif api == "discipline":
        out = disc.execute({"g": vals()})
        ctx.check(f"{lab}:output name", ctx.true() if out_name in out else ctx.false())
        value = out[out_name]
    else:
        value = getattr(ac, f_val)(vals(), **kw)
    if not has_rho:  # exp/log are uninterpreted: their values under a solver model are not comparable with float64 runs
        ctx.observe("value", np.ravel(value))
    ve = elems(value)
    ctx.check(f"{lab}:value is one number", ctx.true() if len(ve) == 1 else ctx.false())
    v = ve[0]
    readings = None  # for the sums of squares: [(value, d value / d g_q, ...)] for the admissible readings of "scale"
    if method == "max":
        ctx.check(f"{lab}:value >= every constraint", ctx.and_(*[ctx.le(t, v) for t in sg]))
        ctx.check(f"{lab}:value is one of the constraints", ctx.or_(*[ctx.eq(v, t) for t in sg]))
    elif method in ("sum_square", "pos_sum_square"):
        p = [g[I[q]] if method == "sum_square" else ctx.ite(ctx.lt(0.0, g[I[q]]), g[I[q]], 0.0) for q in range(k)]
        # "scale: the scaling factor for multiplying the constraints": sum s_q p_q^2 (what the code does) and sum (s_q p_q)^2 are both accepted
        readings = [(sum((sc[q] * p[q] * p[q] for q in range(k)), 0.0), [2.0 * sc[q] * p[q] for q in range(k)])]
        if skind != "one":
            readings.append((sum((sc[q] * p[q] * sc[q] * p[q] for q in range(k)), 0.0), [2.0 * sc[q] * sc[q] * p[q] for q in range(k)]))
        ctx.check(f"{lab}:value", ctx.or_(*[ctx.eq(v, r[0]) for r in readings]))
    else:
        e = [_exp(ctx, rho * (sg[q] + 1.0 - M)) for q in range(k)]
        S = sum(e[1:], e[0])
        w = [e[q] / S for q in range(k)]
        if method == "iks":
            N = sum((sg[q] * e[q] for q in range(k)), 0.0)
            ctx.check(f"{lab}:value", _eq_rat(ctx, v, N / S))
        elif (1.0 / rho) * rho == 1.0 and float(rho).hex().startswith("0x1.0000000000000p"):
            # bounds only when 1/rho is exact in float64 (a power of two): float arithmetic is modelled as exact real arithmetic
            E = _exp(ctx, float(rho))
            lE = _log(ctx, E)                                   # ground instance: log(exp(rho)) == rho (engine axiom)
            T = _log(ctx, k * E)
            lk = _log(ctx, float(k)) if k > 1 else 0.0
            ctx.assume(ctx.eq(lE, float(rho)))
            ctx.assume(ctx.eq(T, lk + float(rho)))           # ground instance of log(a b) = log a + log b, a mathematical identity
            if method == "ks_upper":
                ctx.check(f"{lab}:max <= value", ctx.le(M, v))
                ctx.check(f"{lab}:value <= max + log(k)/rho", ctx.le(v, M + lk / float(rho)))
            else:
                lm = _log(ctx, float(m))
                ctx.check(f"{lab}:value <= max", ctx.le(v, M))
                ctx.check(f"{lab}:max - log(m)/rho <= value", ctx.le(M - lm / float(rho), v))
        ctx.check(f"{lab}:weights >= 0", ctx.and_(*[ctx.le(0.0, t) for t in w]))
        ctx.check(f"{lab}:weights sum to 1", _eq_rat(ctx, sum(w[1:], w[0]), 1.0))

    check_untouched("value")
    if api == "core":  # a caller evaluating twice with the same array gets the same result
        a = ctx.array(list(g))
        first = elems(getattr(ac, f_val)(a, **kw))
        second = elems(getattr(ac, f_val)(a, **kw))
        ctx.check(f"{lab}:repeat: same array, same value", ctx.eq(first[0], second[0]))

    # d aggregate / d g_{I[q]} for q < k (None for max: row of the arg max)
    if method in ("ks_upper", "ks_lower"):
        partial = [[w[q] * sc[q] for q in range(k)]]
    elif method == "iks":
        dN = [sc[q] * e[q] + sg[q] * e[q] * rho * sc[q] for q in range(k)]
        dS = [rho * sc[q] * e[q] for q in range(k)]
        partial = [[(dN[q] * S - N * dS[q]) / (S * S) for q in range(k)]]
    elif readings is not None:
        partial = [r[1] for r in readings]
    else:
        partial = None

    # ---- Jacobian ---------------------------------------------------------------------------------------------
    if api in ("partial", "discipline"):
        if api == "partial":
            got = getattr(ac, f_partial)(vals(), **kw)
        else:
            got = disc.linearize({"g": vals()}, compute_all_jacobians=True)[out_name]["g"]
            ctx.check(f"{lab}:jacobian block is (1, m)", ctx.true() if np.shape(got) == (1, m) else ctx.false())
        if not has_rho:
            ctx.observe("partial", np.ravel(got))
        ge = elems(got)
        ctx.check(f"{lab}:partial has m entries", ctx.true() if len(ge) == m else ctx.false())
        if len(ge) == m:
            for i in range(m):
                if i in I:
                    q = I.index(i)
                    if method == "max":  # where the maximum is attained once: s_q for that constraint, 0 for the others
                        for r in range(k):
                            ctx.check(f"{lab}:partial[{i}] (argmax {r})", ctx.implies(ctx.and_(*[ctx.lt(sg[t], sg[r]) for t in range(k) if t != r]),
                                                                                   ctx.eq(ge[i], sc[q] if r == q else 0.0)))
                    elif readings is None:
                        ctx.check(f"{lab}:partial[{i}]", _eq_rat(ctx, ge[i], partial[0][q]))
                    else:
                        ctx.check(f"{lab}:partial[{i}]", ctx.or_(*[ctx.and_(ctx.eq(v, r[0]), ctx.eq(ge[i], pr[q])) for r, pr in zip(readings, partial)]))
                else:
                    ctx.check(f"{lab}:partial[{i}]", ctx.eq(ge[i], 0.0))
    else:
        if api == "func":
            got = agg.jac(x)
        else:
            got = getattr(ac, f_jac)(vals(), jacs(), **kw)
        if not has_rho:
            ctx.observe("jac", np.ravel(got))
        ge = elems(got)
        ctx.check(f"{lab}:jac has n entries", ctx.true() if len(ge) == n else ctx.false())
        if len(ge) == n:
            for j in range(n):
                if method == "max":  # differentiable only where the maximum is attained once: the row of that constraint
                    for q in range(k):
                        ctx.check(f"{lab}:jac[{j}] (argmax {q})", ctx.implies(ctx.and_(*[ctx.lt(sg[r], sg[q]) for r in range(k) if r != q]), ctx.eq(ge[j], sJ[q][j])))
                elif readings is None:
                    ctx.check(f"{lab}:jac[{j}]", _eq_rat(ctx, ge[j], sum((partial[0][q] * Jg[I[q]][j] for q in range(k)), 0.0)))
                else:
                    ctx.check(f"{lab}:jac[{j}]", ctx.or_(*[ctx.and_(ctx.eq(v, r[0]), ctx.eq(ge[j], sum((pr[q] * Jg[I[q]][j] for q in range(k)), 0.0)))
                                                         for r, pr in zip(readings, partial)]))

    check_untouched("jac")
    if svec is not None:
        for i, (now, orig) in enumerate(zip(elems(svec), sc)):
            ctx.check(f"{lab}:scale-untouched[{i}]", ctx.eq(now, orig))
    if api == "func":
        check_array(ctx, "x-untouched", x, xs)


def configs(tier):
    out = []
    dims = [(m, n) for m in (1, 2, 3) for n in (1, 2, 3)]
    for (m, n) in dims:
        for op in OPS_BIN_FUNC + OPS_UNARY + OPS_CONST:
            out.append(("algebra", dict(m=m, n=n, ops=[op])))
        if m == 1:
            for op in ["add", "mul", "div", "neg", "mul_c", "offset_c"]:
                out.append(("algebra", dict(m=m, n=n, ops=[op], scalar=True)))
    all_ops = OPS_BIN_FUNC + OPS_UNARY + OPS_CONST
    if tier == "quick":
        dims2 = [(1, 2), (2, 2), (2, 3)]
        pairs = [(a, b) for a in ["add", "mul", "div", "mul_v", "neg"] for b in ["sub", "mul", "div", "neg", "offset_v", "div_v", "mul_c"]]
    else:
        dims2 = dims
        pairs = [(a, b) for a in all_ops for b in all_ops]
    for (m, n) in dims2:
        for a, b in pairs:
            out.append(("algebra", dict(m=m, n=n, ops=[a, b])))
    return out + _transformation_configs(tier)


FROZEN = {1: [[]], 2: [[], [0], [1]], 3: [[], [0], [1], [2], [0, 1], [2, 0], [1, 2]]}  # every proper subset (two orders for pairs in T)
LAYOUTS = {1: ["B", "U"], 2: ["BB", "BU", "EL"], 3: ["BUB", "BRE"]}


def _transformation_configs(tier):
    out = []
    T = tier != "quick"
    dims = [(m, n) for m in (1, 2, 3) for n in (1, 2, 3)]
    frozen = {n: list(v) for n, v in FROZEN.items()}
    if T:
        frozen[3] = frozen[3] + [[1, 0], [0, 2], [2, 1]]
        frozen[2] = frozen[2]
    # linear
    for (m, n) in dims:
        for op in ["eval", "neg", "offset_c", "offset_v", "mul_c", "add", "sub"]:
            out.append(("linear", dict(m=m, n=n, op=op)))
        for fr in frozen[n]:
            out.append(("linear", dict(m=m, n=n, op="restrict", frozen=fr)))
        for lay in LAYOUTS[n]:
            out.append(("linear", dict(m=m, n=n, op="normalize", layout=lay)))
    # quadratic
    for n in (1, 2, 3):
        for lin in (True, False):
            out.append(("quadratic", dict(n=n, linear=lin)))
    # restriction
    for (m, n) in dims:
        for fr in frozen[n]:
            out.append(("restriction", dict(m=m, n=n, frozen=fr)))
            if m == 1:
                out.append(("restriction", dict(m=m, n=n, frozen=fr, scalar=True)))
    # linear composition f(Ax), f: R^k -> R^m, A: k x n
    for k in (1, 2, 3):
        for n in (1, 2, 3):
            out.append(("composite", dict(m=1, k=k, n=n, scalar=True)))
    vec = [(2, 2, 2), (2, 2, 3), (2, 3, 2), (2, 1, 2), (3, 3, 3), (1, 2, 2), (1, 1, 1), (3, 2, 1)]
    if T:
        vec = [(m, k, n) for m in (1, 2, 3) for k in (1, 2, 3) for n in (1, 2, 3)]
    for (m, k, n) in vec:
        out.append(("composite", dict(m=m, k=k, n=n)))
    # concatenation
    for n in (1, 2, 3):
        for d in [[0, 0], [0, 2], [2, 0], [1, 1], [3, 1], [0, 0, 0], [0, 2, 1], [2, 0, 3], [1, 0, 2]]:
            out.append(("concatenate", dict(n=n, dims=d)))
    # Taylor polynomials
    for (m, n) in dims:
        out.append(("taylor", dict(m=m, n=n, order=1)))
        if m == 1:
            out.append(("taylor", dict(m=m, n=n, order=1, scalar=True)))
    for n in (1, 2, 3):  # "the function must be scalar-valued": a function returning a number and a 1-D gradient
        for sym in (True, False):
            if n > 1 or sym:
                out.append(("taylor", dict(m=1, n=n, order=2, scalar=True, symmetric=sym)))
    out.append(("taylor", dict(m=1, n=3, order=2, scalar=True, symmetric=False, concrete_H=True)))
    # aggregations
    subset = {2: [[1]], 3: [[2, 0]]} if not T else {2: [[1], [0]], 3: [[2, 0], [1], [0, 1]]}
    for method, spec in AGG.items():
        rhos = [2.0] if spec[5] else [None]
        for rho in rhos:
            for api in ("core", "func", "partial"):
                if api == "partial" and spec[2] is None:
                    continue
                mn = [(2, 1), (3, 1)] if api == "partial" else [(2, 2), (3, 2), (2, 3), (3, 3)] + ([(2, 1), (3, 1)] if T else [])
                for (m, n) in mn:
                    for scale in ("one", "scalar", "vector") + (("scalar_c", "vector_c") if (m, n) in ((2, 2), (3, 1)) else ()):
                        for ind in [None] + subset[m]:
                            out.append(("aggregation", dict(method=method, m=m, n=n, api=api, scale=scale, indices=ind, rho=rho)))
        for m in (2, 3):  # the ConstraintAggregation discipline: execute() and linearize() w.r.t. the constraint
            for scale in ("one", "scalar", "vector"):
                for ind in [None] + subset[m]:
                    for rho in ([2.0] + ([64.0, 100.0] if (scale, ind) == ("scalar", None) else []) if spec[5] else [None]):
                        out.append(("discipline", dict(method=method, m=m, scale=scale, indices=ind, rho=rho)))
        if spec[5]:  # other aggregation parameters: 64 (1/rho exact: bounds checked) and the default 100 (bounds skipped, see META)
            for rho in (64.0, 100.0):
                for api, (m, n) in (("core", (3, 2)), ("func", (2, 2)), ("partial", (3, 1))):
                    for scale in ("one", "scalar"):
                        for ind in [None] + subset[m][:1]:
                            out.append(("aggregation", dict(method=method, m=m, n=n, api=api, scale=scale, indices=ind, rho=rho)))
    return out


HARNESSES = {"algebra": h_algebra, "linear": h_linear, "quadratic": h_quadratic, "restriction": h_restriction, "composite": h_composite,
             "concatenate": h_concatenate, "taylor": h_taylor, "aggregation": h_aggregation,
             "discipline": lambda ctx, cfg: h_aggregation(ctx, dict(cfg, api="discipline", n=1))}
