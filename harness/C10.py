"""C10 - function algebra and transformations evaluate and differentiate exactly."""
from __future__ import annotations

import numpy as np

from harness.common import _plain, _py, check_array, check_log_untouched, elems, uf_function

META = dict(
    bounds=dict(
        quick="operand dims (m,n) in {1,2,3}x{1,2,3} for single operations; depth-2 expression trees over {+,-,*,/,neg,offset,scale} for (m,n) in {(1,2),(2,2),(2,3)}",
        thorough="same operand dims; all depth-2 trees for (m,n) in {1,2,3}^2",
    ),
    outside=["sparse Jacobians (scipy.sparse cannot hold symbols)", "string expressions / names of the composed functions",
             "rounding error of float64", "complex inputs"],
    stubs=["none for the algebra part"],
    assumptions=["operand functions are uninterpreted symbols F_i(x), their Jacobians independent symbols dF_ij(x); denominators assumed non-zero"],
)

OPS_BIN_FUNC = ["add", "sub", "mul", "div"]
OPS_UNARY = ["neg"]
OPS_CONST = ["add_c", "sub_c", "mul_c", "div_c", "offset_c", "add_v", "sub_v", "mul_v", "div_v", "offset_v"]


class Node:
    def __init__(self, val, jac):
        self.val = val  # list of m terms
        self.jac = jac  # m x n list


def _oracle(op, a: Node, b=None, m=1, n=1):
    """Value/Jacobian of the combination by the textbook rules, explicit loops."""
    if op == "neg":
        return Node([-v for v in a.val], [[-a.jac[i][j] for j in range(n)] for i in range(m)])
    if op in ("add", "sub"):
        s = 1 if op == "add" else -1
        return Node([a.val[i] + s * b.val[i] for i in range(m)], [[a.jac[i][j] + s * b.jac[i][j] for j in range(n)] for i in range(m)])
    if op == "mul":
        return Node([a.val[i] * b.val[i] for i in range(m)],
                    [[a.jac[i][j] * b.val[i] + a.val[i] * b.jac[i][j] for j in range(n)] for i in range(m)])
    if op == "div":
        return Node([a.val[i] / b.val[i] for i in range(m)],
                    [[(a.jac[i][j] * b.val[i] - a.val[i] * b.jac[i][j]) / (b.val[i] * b.val[i]) for j in range(n)] for i in range(m)])
    # constants: b is a list of m constants (scalar repeated)
    if op in ("add_c", "add_v", "offset_c", "offset_v"):
        return Node([a.val[i] + b[i] for i in range(m)], a.jac)
    if op in ("sub_c", "sub_v"):
        return Node([a.val[i] - b[i] for i in range(m)], a.jac)
    if op in ("mul_c", "mul_v"):
        return Node([a.val[i] * b[i] for i in range(m)], [[a.jac[i][j] * b[i] for j in range(n)] for i in range(m)])
    if op in ("div_c", "div_v"):
        return Node([a.val[i] / b[i] for i in range(m)], [[a.jac[i][j] / b[i] for j in range(n)] for i in range(m)])
    raise ValueError(op)


def _apply(op, fa, fb):
    if op == "neg":
        return -fa
    if op in ("add", "add_c", "add_v"):
        return fa + fb
    if op in ("sub", "sub_c", "sub_v"):
        return fa - fb
    if op in ("mul", "mul_c", "mul_v"):
        return fa * fb
    if op in ("div", "div_c", "div_v"):
        return fa / fb
    if op in ("offset_c", "offset_v"):
        return fa.offset(fb)
    raise ValueError(op)


def _leaf(ctx, name, m, n, scalar, x, log):
    from gemseo.core.mdo_functions.mdo_function import MDOFunction

    func, jac, F, dF = uf_function(ctx, name, m, n, scalar=scalar, log=log)
    xs = elems(x)
    node = Node([F[i](*xs) for i in range(m)], [[dF[i][j](*xs) for j in range(n)] for i in range(m)])
    return MDOFunction(func, name, jac=jac, dim=m), node


def _const(ctx, name, op, m):
    """The constant operand of a *_c / *_v operation and its per-component oracle values."""
    if op.endswith("_c"):
        c = ctx.real(name)
        return c, [c] * m
    c = ctx.reals(name, m)
    return c, elems(c)


def h_algebra(ctx, cfg):
    """(f op1 g) [op2 h]: value and Jacobian against the sum/product/quotient rules; operands untouched."""
    m, n = cfg["m"], cfg["n"]
    scalar = cfg.get("scalar", False) and m == 1
    ops = cfg["ops"]
    x = ctx.reals("x", n)
    log = []
    consts = []
    names = iter("fgh")
    fa, na = _leaf(ctx, next(names), m, n, scalar, x, log)
    for k, op in enumerate(ops):
        if op in OPS_BIN_FUNC:
            fb, nb = _leaf(ctx, next(names), m, n, scalar, x, log)
            if op == "div":
                for v in nb.val:
                    ctx.assume(ctx.not_(ctx.eq(v, 0.0)))
            na = _oracle(op, na, nb, m, n)
            fa = _apply(op, fa, fb)
        elif op == "neg":
            na = _oracle(op, na, None, m, n)
            fa = -fa
        else:
            c, cvals = _const(ctx, f"c{k}_", op, m)
            if op.startswith("div"):
                for v in cvals:
                    ctx.assume(ctx.not_(ctx.eq(v, 0.0)))
            consts.append((c, list(cvals)))
            na = _oracle(op, na, cvals, m, n)
            fa = _apply(op, fa, c)
    val = fa.evaluate(x)
    ctx.observe("value", np.ravel(val))
    J = fa.jac(x)
    ctx.observe("jac", np.ravel(J))
    if scalar:
        check_array(ctx, "value", np.ravel(val) if isinstance(val, np.ndarray) else [val], na.val)
        check_array(ctx, "jac", J, na.jac[0])
    else:
        check_array(ctx, "value", val, na.val)
        check_array(ctx, "jac", J, na.jac)
    check_log_untouched(ctx, log)
    for k, (c, cvals) in enumerate(consts):
        if isinstance(c, np.ndarray):
            check_array(ctx, f"const{k}-untouched", c, cvals)
    xs0 = [ctx.real(f"x{i}") for i in range(n)]
    check_array(ctx, "x-untouched", x, xs0)


def configs(tier):
    out = []
    dims = [(m, n) for m in (1, 2, 3) for n in (1, 2, 3)]
    for (m, n) in dims:
        for op in OPS_BIN_FUNC + OPS_UNARY + OPS_CONST:
            out.append(("algebra", dict(m=m, n=n, ops=[op])))
        if m == 1:
            for op in ["add", "mul", "div", "neg", "mul_c", "offset_c"]:
                out.append(("algebra", dict(m=m, n=n, ops=[op], scalar=True)))
    all_ops = OPS_BIN_FUNC + OPS_UNARY + OPS_CONST
    if tier == "quick":
        dims2 = [(1, 2), (2, 2), (2, 3)]
        pairs = [(a, b) for a in ["add", "mul", "div", "mul_v", "neg"] for b in ["sub", "mul", "div", "neg", "offset_v", "div_v", "mul_c"]]
    else:
        dims2 = dims
        pairs = [(a, b) for a in all_ops for b in all_ops]
    for (m, n) in dims2:
        for a, b in pairs:
            out.append(("algebra", dict(m=m, n=n, ops=[a, b])))
    return out


HARNESSES = {"algebra": h_algebra}
