"""C01 extension - sparse linear functions and sparse user Jacobians (hooked into harness/C01.py).

scipy.sparse is compiled environment that cannot hold symbols.  In symbolic mode it is replaced by ``SparseStub``: a value-preserving
CSR/CSC contract stub that keeps the STRUCTURE gemseo's code relies on (``data`` / ``indices`` / ``indptr`` of a concrete sparsity
pattern, ``format``, ``tocsr()`` returning SELF for a CSR matrix, aliasing of ``.real`` / ``.T``, in-place ``data *= ...`` visible through
the matrix).  The non-zero VALUES are symbolic, the pattern and the storage format are configuration.  In concrete mode (replays and the
differential self-test) the harness builds genuine ``scipy.sparse.csr_array`` / ``csc_array`` objects, so the stub is validated against
scipy on every explored path (returned values, dense Jacobians AND the raw ``data`` vectors, i.e. the storage order).

The stub derives from ``scipy.sparse.sparray``, which is an empty marker class (``class sparray: pass``): every
``isinstance(x, sparse_classes)`` test of gemseo recognises it without any patch of a gemseo module.  All the Python glue of gemseo
(MDOLinearFunction.__init__/normalize/_func_to_wrap/_jac_to_wrap/expression generation, EvaluationProblem._preprocess_function and its
``_convert_array_to_dense``, ProblemFunction._compute_*, DesignSpace.normalize_vect/unnormalize_vect sparse branches, Database) is real code.
"""
from __future__ import annotations

import numpy as np
from scipy.sparse import sparray as _sparray_marker

from harness.common import _plain, _py, build_space, check_array, check_shape, db_items, elems, install_hash_stub, install_np_array_stub

FLOAT64 = np.dtype("float64")


# ------------------------------------------------------------------------------------------------------------------------------------
# the contract stub
# ------------------------------------------------------------------------------------------------------------------------------------
class SparseStub(_sparray_marker):
    """Stands for ``scipy.sparse.csr_array`` / ``csc_array`` (float64): compressed storage over a concrete pattern, symbolic values.

    Every method mirrors the behaviour of scipy 1.14 observed with small scripts (see tools/C01x-notes.md): identity/aliasing included.
    Anything else raises ``Unsupported`` (inconclusive, never a verdict)."""

    ndim = 2
    __array_ufunc__ = None  # numpy defers to the stub; ``numpy.isnan(stub)`` raises TypeError as it does for a scipy sparse array

    def __init__(self, fmt, shape, indptr, indices, data):
        from symgem.core import as_symarray

        if fmt not in ("csr", "csc"):
            raise ValueError(fmt)
        self.format = fmt
        self._shape = (int(shape[0]), int(shape[1]))
        self.indptr = np.asarray(indptr, dtype=np.int32)
        self.indices = np.asarray(indices, dtype=np.int32)
        d = as_symarray(data) if len(data) else as_symarray(np.empty(0, dtype=object))
        self.data = d  # a plain attribute, as in scipy: ``m.data *= v`` rebinds it to the same (in-place modified) array
        major = self._shape[0] if fmt == "csr" else self._shape[1]
        if len(self.indptr) != major + 1 or len(self.indices) != len(self.data) or int(self.indptr[-1]) != len(self.data):
            raise ValueError("inconsistent compressed storage")

    shape = property(lambda self: self._shape)
    dtype = property(lambda self: FLOAT64)
    nnz = property(lambda self: len(self.data))
    size = property(lambda self: len(self.data))

    def __repr__(self):
        return f"<SparseStub {self.format} {self._shape} indptr={self.indptr.tolist()} indices={self.indices.tolist()} data={list(_plain(self.data))}>"

    def __getattr__(self, name):
        # only reached for names the stub does not define: what csr_array does not have either is an AttributeError (gemseo's ``get_row``
        # probes ``hasattr(matrix, "getrow")``); a genuine scipy method outside the contract is ``Unsupported`` (inconclusive, never a verdict)
        from scipy.sparse import csr_array

        from symgem.core import Unsupported

        if name.startswith("_") or not hasattr(csr_array, name):
            raise AttributeError(name)
        raise Unsupported(f"SparseStub.{name} is outside the contract stub")

    def __len__(self):
        raise TypeError("sparse array length is ambiguous; use getnnz() or shape[0]")

    def __bool__(self):
        raise ValueError("The truth value of an array with more than one element is ambiguous.")

    # -- structure --------------------------------------------------------------------------------------------------------------
    def _entries(self):
        """[(row, column, position in data)] in storage order."""
        out = []
        for p in range(len(self.indptr) - 1):
            for k in range(int(self.indptr[p]), int(self.indptr[p + 1])):
                q = int(self.indices[k])
                out.append((p, q, k) if self.format == "csr" else (q, p, k))
        return out

    @classmethod
    def _from_entries(cls, fmt, shape, entries):
        """Canonical compressed storage (sorted indices) of [(row, column, value)] without duplicates."""
        key = (lambda e: (e[0], e[1])) if fmt == "csr" else (lambda e: (e[1], e[0]))
        entries = sorted(entries, key=key)
        major = shape[0] if fmt == "csr" else shape[1]
        indptr = [0] * (major + 1)
        indices, data = [], []
        for (i, j, v) in entries:
            a, b = (i, j) if fmt == "csr" else (j, i)
            indptr[a + 1] += 1
            indices.append(b)
            data.append(v)
        for a in range(major):
            indptr[a + 1] += indptr[a]
        return cls(fmt, shape, indptr, indices, data)

    def copy(self):
        return SparseStub(self.format, self._shape, self.indptr.copy(), self.indices.copy(), self.data.copy())

    def __deepcopy__(self, memo):
        return self.copy()

    def _convert(self, fmt, copy):
        if fmt == self.format:
            return self.copy() if copy else self  # scipy: csr.tocsr() IS the matrix itself
        d = _plain(self.data)
        return SparseStub._from_entries(fmt, self._shape, [(i, j, d[k]) for (i, j, k) in self._entries()])

    def tocsr(self, copy=False):
        return self._convert("csr", copy)

    def tocsc(self, copy=False):
        return self._convert("csc", copy)

    def asformat(self, format, copy=False):
        if format is None:
            return self.copy() if copy else self
        return self._convert(format, copy)

    def toarray(self, order=None, out=None):
        from symgem.core import SymArray

        if out is not None:
            from symgem.core import Unsupported

            raise Unsupported("SparseStub.toarray(out=)")
        a = np.empty(self._shape, dtype=object)
        a[...] = 0.0
        d = _plain(self.data)
        for (i, j, k) in self._entries():
            a[i, j] = a[i, j] + _py(d[k]) if not _is_zero_float(a[i, j]) else _py(d[k])
        return SymArray(a)

    todense = toarray  # sparse ARRAYS densify to ndarray (numpy.matrix is what sparse MATRICES give: outside the stub)

    def transpose(self, axes=None, copy=False):
        other = "csc" if self.format == "csr" else "csr"
        if copy:
            return SparseStub(other, self._shape[::-1], self.indptr.copy(), self.indices.copy(), self.data.copy())
        return SparseStub(other, self._shape[::-1], self.indptr, self.indices, self.data)  # shares the three arrays, as scipy does

    T = property(lambda self: self.transpose())

    @property
    def real(self):
        # scipy: ``_with_data(self.data.real)``: new matrix, copied structure, data = a VIEW of the same buffer for a real matrix
        return SparseStub(self.format, self._shape, self.indptr.copy(), self.indices.copy(), self.data.real)

    def conjugate(self, copy=True):
        return self.copy() if copy else self

    conj = conjugate

    def astype(self, dtype, casting="unsafe", copy=True):
        dt = np.dtype(dtype)
        if dt == FLOAT64:
            return self.copy() if copy else self
        if dt.kind in "fc":
            return self.copy()
        from symgem.core import Unsupported

        raise Unsupported(f"SparseStub.astype({dt})")

    def __neg__(self):
        return SparseStub(self.format, self._shape, self.indptr.copy(), self.indices.copy(), -self.data)

    # -- products ---------------------------------------------------------------------------------------------------------------
    def _matmul_dense(self, other):
        from symgem.core import SymArray, as_symarray

        o = _plain(as_symarray(other) if not isinstance(other, np.ndarray) else other)
        if o.ndim not in (1, 2):
            raise ValueError("matmul: operand must be 1-D or 2-D")
        if o.shape[0] != self._shape[1]:
            raise ValueError("dimension mismatch")
        o2 = o.reshape(-1, 1) if o.ndim == 1 else o
        res = np.empty((self._shape[0], o2.shape[1]), dtype=object)
        res[...] = 0.0
        d = _plain(self.data)
        for (i, j, k) in self._entries():
            for c in range(o2.shape[1]):
                t = _py(d[k]) * _py(o2[j, c])
                res[i, c] = t if _is_zero_float(res[i, c]) else res[i, c] + t
        return SymArray(res.reshape(-1) if o.ndim == 1 else res)

    def __matmul__(self, other):
        if isinstance(other, SparseStub) or hasattr(other, "tocsr"):
            from symgem.core import Unsupported

            raise Unsupported("SparseStub @ sparse")
        if np.isscalar(other):
            raise ValueError("Scalar operands are not allowed, use '*' instead")
        return self._matmul_dense(other)

    dot = __matmul__

    def __rmatmul__(self, other):
        o = _plain(other) if isinstance(other, np.ndarray) else np.asarray(other, dtype=object)
        r = self.transpose()._matmul_dense(o.T if o.ndim == 2 else o)
        return r.T if o.ndim == 2 else r

    # -- indexing (index lists / slices on both axes; what ``get_row`` and ``restrict`` use) ------------------------------------------
    @staticmethod
    def _axis(ix, n):
        if isinstance(ix, slice):
            return list(range(*ix.indices(n)))
        if isinstance(ix, (list, tuple, np.ndarray)):
            return [int(v) % n if -n <= int(v) < n else _raise_index() for v in np.asarray(ix).ravel()]
        from symgem.core import Unsupported

        raise Unsupported(f"SparseStub indexing with {type(ix).__name__}")

    def __getitem__(self, idx):
        if not isinstance(idx, tuple) or len(idx) != 2:
            from symgem.core import Unsupported

            raise Unsupported("SparseStub indexing: two indices expected")
        rows, cols = self._axis(idx[0], self._shape[0]), self._axis(idx[1], self._shape[1])
        d = _plain(self.data)
        pos = {(i, j): k for (i, j, k) in self._entries()}
        ent = [(a, b, d[pos[(i, j)]]) for a, i in enumerate(rows) for b, j in enumerate(cols) if (i, j) in pos]
        return SparseStub._from_entries(self.format, (len(rows), len(cols)), ent)


def _raise_index():
    raise IndexError("index out of range")


def _is_zero_float(v):
    return isinstance(v, float) and v == 0.0


# ------------------------------------------------------------------------------------------------------------------------------------
# harness-side helpers
# ------------------------------------------------------------------------------------------------------------------------------------
def parse_pattern(text):
    """'x.x/...' -> (m, n, [(i, j)] in row-major order)."""
    rows = text.split("/")
    m, n = len(rows), len(rows[0])
    assert all(len(r) == n for r in rows), text
    return m, n, [(i, j) for i in range(m) for j in range(n) if rows[i][j] == "x"]


def make_sparse(ctx, fmt, shape, entries):
    """A sparse array of the given storage format holding [(i, j, value)]: the stub symbolically, the genuine scipy object concretely."""
    st = SparseStub._from_entries(fmt, shape, entries)
    if ctx.symbolic:
        return st
    from scipy.sparse import csc_array, csr_array

    cls = csr_array if fmt == "csr" else csc_array
    return cls((np.array([float(v) for v in _plain(st.data)], dtype=float), st.indices.copy(), st.indptr.copy()), shape=shape)


def storage_order(fmt, pattern):
    key = (lambda e: (e[0], e[1])) if fmt == "csr" else (lambda e: (e[1], e[0]))
    return sorted(pattern, key=key)


def is_sparse(x):
    return isinstance(x, SparseStub) or (hasattr(x, "indptr") and hasattr(x, "format"))


def dense_of(x):
    """Oracle-side reading of a returned object (stub, genuine scipy sparse, ndarray or numpy.matrix) as a 2-D/1-D object array.

    For sparse objects the compressed storage is decoded HERE from the public ``format/indptr/indices/data`` (not with the stub's ``toarray``)."""
    if is_sparse(x):
        fmt = x.format
        if fmt not in ("csr", "csc"):
            x = x.tocsr()
            fmt = "csr"
        out = np.empty(x.shape, dtype=object)
        out[...] = 0.0
        data = _plain(x.data) if isinstance(x.data, np.ndarray) else np.asarray(x.data)
        ptr, ind = np.asarray(x.indptr), np.asarray(x.indices)
        for p in range(len(ptr) - 1):
            for k in range(int(ptr[p]), int(ptr[p + 1])):
                i, j = (p, int(ind[k])) if fmt == "csr" else (int(ind[k]), p)
                out[i, j] = _py(data[k]) if _is_zero_float(out[i, j]) else out[i, j] + _py(data[k])
        return out
    if isinstance(x, np.matrix):
        return np.asarray(x)
    return _plain(x) if isinstance(x, np.ndarray) else np.asarray(x, dtype=object)


def _all_eq(ctx, a, b):
    if len(a) != len(b):
        return ctx.false()
    return ctx.and_(*[ctx.eq(x, y) for x, y in zip(a, b)])


def _r(ctx, v):
    from harness.common import rint

    return rint(ctx, v)


LAYOUTS = {
    "BB": [("x", "float", "BB")],
    "BU": [("x", "float", "B"), ("yy", "float", "U")],
    "UB": [("yy", "float", "U"), ("x", "float", "B")],
    "BE": [("x", "float", "BE")],
    "LR": [("x", "float", "LR")],
    "BL": [("x", "float", "BL")],
    "Ci": [("x", "float", "C"), ("k", "integer", [(0, 5)])],
    "BUB": [("x", "float", "B"), ("yy", "float", "U"), ("z", "float", "B")],
    "BEL": [("x", "float", "BEL")],
    "UBB": [("yy", "float", "U"), ("x", "float", "BB")],
}


def _check_jac(ctx, label, J, exp, m):
    """Values of a returned/recorded Jacobian (dense or sparse); for m == 1 the shapes (n,) and (1, n) are both accepted."""
    D = dense_of(J)
    if m == 1 and D.ndim == 2 and D.shape[0] == 1:
        D = D[0]
    if m == 1 and D.ndim == 1:
        check_array(ctx, label, D, exp[0])
    else:
        check_array(ctx, label, D, exp)
    return D


def h_sparse(ctx, cfg):
    """Request histories on a problem whose objective is (fkind='linear') an ``MDOLinearFunction`` with SPARSE coefficients given in CSR or
    CSC storage, or (fkind='generic') an uninterpreted function whose user Jacobian is returned as a sparse array in CSR or CSC storage."""
    from gemseo.algos.optimization_problem import OptimizationProblem
    from gemseo.core.mdo_functions.mdo_function import MDOFunction
    from gemseo.core.mdo_functions.mdo_linear_function import MDOLinearFunction

    install_hash_stub(ctx)
    install_np_array_stub(ctx)
    ds, info = build_space(ctx, LAYOUTS[cfg["layout"]])
    m, n_, pattern = parse_pattern(cfg["pattern"])
    n = info.n
    assert n_ == n, (cfg, n)
    fmt = cfg["fmt"]
    normalized, use_db, store_jac, round_ints, ssj = cfg["normalized"], cfg["use_db"], cfg["store_jac"], cfg.get("round_ints", True), cfg["ssj"]
    fkind = cfg["fkind"]
    has_int = any(info.is_int)
    order = storage_order(fmt, pattern)
    log = []
    user_matrix, user_values = None, None
    if fkind == "linear":
        avals = {(i, j): ctx.real(f"A{i}_{j}") for (i, j) in pattern}
        b = ctx.reals("b", m)
        bel = elems(b)
        user_matrix = make_sparse(ctx, fmt, (m, n), [(i, j, avals[(i, j)]) for (i, j) in pattern])
        user_values = [avals[e] for e in order]
        f = MDOLinearFunction(user_matrix, "f", value_at_zero=b, expr="A.x+b")
        F = [lambda *xs, i=i: sum((avals[(i, j)] * xs[j] for j in range(n) if (i, j) in avals), bel[i]) for i in range(m)]
        dF = [[(lambda *xs, i=i, j=j: avals[(i, j)]) if (i, j) in avals else (lambda *xs: 0.0) for j in range(n)] for i in range(m)]
    else:
        Fs = [ctx.uf(f"F_{i}", n) for i in range(m)]
        dFs = {(i, j): ctx.uf(f"dF_{i}_{j}", n) for (i, j) in pattern}
        F = Fs
        dF = [[dFs[(i, j)] if (i, j) in dFs else (lambda *xs: 0.0) for j in range(n)] for i in range(m)]

        def func(x):
            xs = [_py(v) for v in _plain(x).ravel()]
            vals = [g(*xs) for g in Fs]
            out = ctx.array(vals)
            log.append(("func", xs, out, list(vals)))
            return out

        def jac(x):
            xs = [_py(v) for v in _plain(x).ravel()]
            vals = {e: dFs[e](*xs) for e in pattern}
            out = make_sparse(ctx, fmt, (m, n), [(i, j, vals[(i, j)]) for (i, j) in pattern])
            log.append(("jac", xs, out, [vals[e] for e in order]))
            return out

        f = MDOFunction(func, "f", jac=jac)

    def user_matrix_untouched(stage):
        if user_matrix is None:
            return
        now = elems(user_matrix.data)
        ctx.check(f"user matrix structure untouched {stage}", ctx.true() if (
            len(now) == len(user_values) and user_matrix.format == fmt and
            [(i, j) for (i, j, _) in _entries_of(user_matrix)] == order) else ctx.false())
        for k, (a, v) in enumerate(zip(now, user_values)):
            ctx.check(f"user matrix data[{k}] untouched {stage}", ctx.eq(a, v))

    problem = OptimizationProblem(ds)
    problem.objective = f
    problem.preprocess_functions(is_function_input_normalized=normalized, use_database=use_db, round_ints=round_ints,
                                 store_jacobian=store_jac, support_sparse_jacobian=ssj)
    user_matrix_untouched("after preprocessing")
    pf = problem.objective
    rounding = has_int and (normalized or round_ints)
    requests = []
    for k in range(cfg["K"]):
        kind = ctx.choice(f"kind{k}", 2)
        p = ctx.reals(f"p{k}_", n)
        pe = elems(p)
        for j in range(n):
            if normalized and info.normalized(j):
                ctx.assume(ctx.and_(ctx.le(0.0, pe[j]), ctx.le(pe[j], 1.0)))
            if info.is_int[j]:
                ctx.assume(ctx.and_(ctx.le(info.lb[j] - 1.0, pe[j]), ctx.le(pe[j], info.ub[j] + 1.0)))
                ctx.assume(ctx.or_(ctx.le(0.0, pe[j]), ctx.lt(pe[j], -0.5)))
            if info.is_int[j] and not round_ints:
                ctx.assume(ctx.is_int(pe[j]))
        if normalized:
            xp = info.phys(ctx, pe, rounding=rounding)
        else:
            xp = [(_r(ctx, pe[j]) if (info.is_int[j] and round_ints) else pe[j]) for j in range(n)]
        requests.append((kind, pe, xp))
        if kind == 0:
            val = pf.evaluate(p)
            ctx.observe(f"value{k}", np.ravel(val))
            check_array(ctx, f"value{k}", np.ravel(val), [F[i](*xp) for i in range(m)])
        else:
            J = pf.jac(p)
            exp = [[dF[i][j](*xp) * (info.scale(j) if normalized else 1.0) for j in range(n)] for i in range(m)]
            D = _check_jac(ctx, f"jac{k}", J, exp, m)
            ctx.observe(f"jac{k}", np.ravel(D))
            if is_sparse(J):
                ctx.observe(f"jac{k}.data (storage order)", np.ravel(J.data))
        check_array(ctx, f"request-point-untouched{k}", p, [ctx.real(f"p{k}_{j}") for j in range(n)])
        user_matrix_untouched(f"after request {k}")
    # ---- database content (as in C01/requests) ---------------------------------------------------------------------------------
    items = db_items(problem.database)
    if not use_db:
        ctx.check("database stays empty", ctx.true() if len(items) == 0 else ctx.false())
    else:
        for e, (key, outs) in enumerate(items):
            ke = elems(key)
            ctx.check(f"db-key{e} is a requested physical point", ctx.or_(*[
                ctx.or_(_all_eq(ctx, ke, xp), _all_eq(ctx, ke, pe) if not normalized else ctx.false()) for (_, pe, xp) in requests]))
            xk = [(_r(ctx, ke[j]) if (info.is_int[j] and rounding) else ke[j]) for j in range(n)]
            for name, v in outs.items():
                if name == "f":
                    check_array(ctx, f"db{e}[f]", np.ravel(v), [F[i](*xk) for i in range(m)])
                elif name == "@f":
                    if not store_jac:
                        ctx.check("Jacobian stored although store_jacobian=False", ctx.false())
                    exp = [[(0.0 if (normalized and info.kind[j] == "E" and info.normalized(j)) else dF[i][j](*xk)) for j in range(n)] for i in range(m)]
                    D = _check_jac(ctx, f"db{e}[@f]", v, exp, m)
                    ctx.observe(f"db{e}[@f]", np.ravel(D))
                else:
                    ctx.check(f"unexpected output name {name} in the database", ctx.false())
        for a in range(len(items)):
            for b_ in range(a + 1, len(items)):
                ctx.check(f"db keys {a},{b_} distinct", ctx.not_(_all_eq(ctx, elems(items[a][0]), elems(items[b_][0]))))
        for k, (kind, pe, xp) in enumerate(requests):
            want = "f" if kind == 0 else ("@f" if store_jac else None)
            if want is None:
                continue
            ctx.check(f"request{k} recorded under its physical point", ctx.or_(*[
                ctx.and_(ctx.or_(_all_eq(ctx, elems(key), xp), _all_eq(ctx, elems(key), pe) if not normalized else ctx.false()),
                         ctx.true() if want in outs else ctx.false()) for key, outs in items]))
        if fkind == "generic":
            for a in range(len(log)):
                for b_ in range(a + 1, len(log)):
                    if log[a][0] != log[b_][0]:
                        continue
                    if log[a][0] == "jac" and not store_jac:
                        continue
                    if has_int and round_ints and not normalized:
                        continue
                    ctx.check(f"original {log[a][0]} called once per point (calls {a},{b_})", ctx.not_(_all_eq(ctx, log[a][1], log[b_][1])))
    user_matrix_untouched("at the end")
    if user_matrix is not None:
        ctx.observe("user matrix data", np.ravel(user_matrix.data))
    ctx.observe("n_original_calls", [float(len(log))])


MATRIX_LAYOUTS = {
    "CD": [("x", "float", "CD")],
    "CU": [("x", "float", "C"), ("yy", "float", "U")],
    "C": [("x", "float", "C")],
    "CUD": [("x", "float", "C"), ("yy", "float", "U"), ("z", "float", "D")],
}
MATRIX_JACOBIANS = {2: [[2.0, 0.0], [-0.5, 4.0]], 1: [[1.5], [0.0]], 3: [[2.0, 0.0, 0.0], [0.0, 3.0, 4.0]]}


def h_matrix_api(ctx, cfg):
    """User Jacobians returned as scipy.sparse MATRICES (csr_matrix / csc_matrix: the spmatrix API, whose ``todense()`` is a numpy.matrix).

    No stub: the genuine scipy objects are used in BOTH modes, hence the Jacobian entries and the bounds are concrete dyadic numbers
    (a constant user Jacobian); the function values stay uninterpreted and the request points symbolic."""
    import scipy.sparse as sp

    from gemseo.algos.optimization_problem import OptimizationProblem
    from gemseo.core.mdo_functions.mdo_function import MDOFunction

    install_hash_stub(ctx)
    install_np_array_stub(ctx)
    ds, info = build_space(ctx, MATRIX_LAYOUTS[cfg["layout"]])
    n = info.n
    A = MATRIX_JACOBIANS[n]
    m = len(A)
    cls = getattr(sp, cfg["cls"])
    normalized, use_db, ssj = cfg["normalized"], cfg["use_db"], cfg["ssj"]
    Fs = [ctx.uf(f"F_{i}", n) for i in range(m)]

    def func(x):
        xs = [_py(v) for v in _plain(x).ravel()]
        return ctx.array([g(*xs) for g in Fs])

    def jac(x):
        return cls(np.array(A, dtype=float))

    problem = OptimizationProblem(ds)
    problem.objective = MDOFunction(func, "f", jac=jac)
    problem.preprocess_functions(is_function_input_normalized=normalized, use_database=use_db, support_sparse_jacobian=ssj)
    pf = problem.objective
    exp_phys = [[A[i][j] for j in range(n)] for i in range(m)]
    exp = [[A[i][j] * (info.scale(j) if normalized else 1.0) for j in range(n)] for i in range(m)]
    points = []
    for k in range(cfg["K"]):
        kind = ctx.choice(f"kind{k}", 2)
        p = ctx.reals(f"p{k}_", n)
        pe = elems(p)
        for j in range(n):
            if normalized and info.normalized(j):
                ctx.assume(ctx.and_(ctx.le(0.0, pe[j]), ctx.le(pe[j], 1.0)))
        xp = info.phys(ctx, pe, rounding=False) if normalized else pe
        points.append(xp)
        if kind == 0:
            val = pf.evaluate(p)
            ctx.observe(f"value{k}", np.ravel(val))
            check_array(ctx, f"value{k}", np.ravel(val), [Fs[i](*xp) for i in range(m)])
        else:
            J = pf.jac(p)
            D = _check_jac(ctx, f"jac{k}", J, exp, m)
            ctx.observe(f"jac{k}", np.ravel(D))
    for e, (key, outs) in enumerate(db_items(problem.database)):
        ctx.check(f"db-key{e} is a requested physical point", ctx.or_(*[_all_eq(ctx, elems(key), xp) for xp in points]))
        if "@f" in outs:
            _check_jac(ctx, f"db{e}[@f]", outs["@f"], exp_phys, m)
        if "f" in outs:
            check_array(ctx, f"db{e}[f]", np.ravel(outs["f"]), [Fs[i](*elems(key)) for i in range(m)])


def _entries_of(x):
    ptr, ind = np.asarray(x.indptr), np.asarray(x.indices)
    out = []
    for p in range(len(ptr) - 1):
        for k in range(int(ptr[p]), int(ptr[p + 1])):
            out.append((p, int(ind[k]), k) if x.format == "csr" else (int(ind[k]), p, k))
    return out


# ------------------------------------------------------------------------------------------------------------------------------------
# configurations
# ------------------------------------------------------------------------------------------------------------------------------------
PATTERNS = {
    (1, 2): ["xx", "x.", ".x"],
    (2, 2): ["xx/..", "x./x.", ".x/xx", "xx/xx"],            # full row + empty row; a column without entries; ...; full
    (1, 3): ["x.x", "xxx"],
    (2, 3): ["x../.xx", "xxx/...", ".x./.xx", "x.x/xx."],     # the reported instance; full row + empty row; a column without entries; mixed
}


def _cfg(fkind, lay, pattern, fmt, normalized, use_db, store_jac, ssj, K, round_ints=True):
    return ("sparse", dict(fkind=fkind, layout=lay, pattern=pattern, fmt=fmt, normalized=normalized, use_db=use_db, store_jac=store_jac,
                           ssj=ssj, round_ints=round_ints, K=K))


def configs(tier):
    out = []
    if tier == "quick":
        K = 2
        switches = [(True, True, True), (True, False, False), (False, True, True), (True, True, False)]  # (use_db, store_jac, ssj)
        for li, lay in enumerate(["BB", "BU", "BE", "LR", "UB"]):
            n = sum(len(spec) for _, _, spec in LAYOUTS[lay])
            for normalized in (True, False):
                for si, (use_db, store_jac, ssj) in enumerate(switches):
                    c = li + si + (0 if normalized else 1)
                    pats2 = PATTERNS[(2, n)]
                    # linear functions with sparse coefficients (vector-valued; one scalar-valued configuration per layout and coordinate system)
                    out.append(_cfg("linear", lay, pats2[c % len(pats2)], ("csr", "csc")[c % 2], normalized, use_db, store_jac, ssj, K))
                    # user Jacobians returned as sparse arrays, CSR and CSC
                    for fmt in ("csr", "csc"):
                        if fmt == "csc" and not (normalized and ssj) and (li + si) % 2:
                            continue
                        out.append(_cfg("generic", lay, pats2[(c + (fmt == "csc")) % len(pats2)], fmt, normalized, use_db, store_jac, ssj, K))
                pats1 = PATTERNS[(1, n)]
                out.append(_cfg("linear", lay, pats1[li % len(pats1)], ("csc", "csr")[li % 2], normalized, True, True, li % 2 == 0, 1))
        # the reported CSC instance (3 variables: bounded, unbounded, bounded) and a mixed float/integer space
        for fmt in ("csr", "csc"):
            out.append(_cfg("generic", "BUB", "x../.xx", fmt, True, True, True, True, 1))
        out.append(_cfg("linear", "BUB", "x../.xx", "csr", True, True, True, True, 1))
        for round_ints in (True, False):
            out.append(_cfg("linear", "Ci", "xx/.x", "csr", True, True, True, True, 2, round_ints=round_ints))
        return out + _matrix_configs(tier)
    K = 3
    for lay in LAYOUTS:
        n = sum(len(spec) for _, _, spec in LAYOUTS[lay])
        has_int = "i" in lay
        for normalized in (True, False):
            for use_db in (True, False):
                for store_jac in ((True, False) if use_db else (True,)):
                    for ssj in (True, False):
                        for round_ints in ((True, False) if has_int else (True,)):
                            for fmt in ("csr", "csc"):
                                for pat in PATTERNS[(2, n)]:
                                    for fkind in ("linear", "generic"):
                                        out.append(_cfg(fkind, lay, pat, fmt, normalized, use_db, store_jac, ssj, K if (use_db and store_jac and ssj and (lay == "BU" or (lay == "BB" and fkind == "linear"))) else 2, round_ints=round_ints))
                                if use_db and store_jac:
                                    # scalar-valued linear functions: the generated expression forks on the sign of every coefficient (K = 1)
                                    for pat in PATTERNS[(1, n)]:
                                        if pat.count("x") <= 2:
                                            out.append(_cfg("linear", lay, pat, fmt, normalized, use_db, store_jac, ssj, 1, round_ints=round_ints))
    return out + _matrix_configs(tier)


def _matrix_configs(tier):
    out = []
    for lay in (["CD", "CU"] if tier == "quick" else list(MATRIX_LAYOUTS)):
        for cls in ("csr_matrix", "csc_matrix"):
            for normalized in (True, False):
                for use_db, ssj in ((True, False), (True, True), (False, False)):
                    if tier == "quick" and cls == "csc_matrix" and not normalized:
                        continue
                    out.append(("sparse_matrix_api", dict(layout=lay, cls=cls, normalized=normalized, use_db=use_db, ssj=ssj, K=2)))
    return out


HARNESSES = {"sparse": h_sparse, "sparse_matrix_api": h_matrix_api}

META = dict(
    bounds=dict(
        quick="sparse part: n<=2 (+ one 3-variable layout), m<=2, 2-4 sparsity patterns per shape (full row + empty row, a column without entries, full), CSR and CSC storage, histories of length 2, a covering selection of the switches; sparse_matrix_api: constant 2x2 user Jacobian as csr_matrix/csc_matrix on the concrete layouts [-1,3]x[1/2,2] and [-1,3]x(unbounded), histories of length 2",
        thorough="sparse part: n<=3, m<=2, every pattern x storage format x layout (10 layouts incl. a mixed float/integer one) x switch combination, histories of length 3 on the layouts BU (both function kinds) and BB (linear functions) with database, Jacobian storage and support_sparse_jacobian on and 2 elsewhere (1 for scalar-valued linear functions, at most two non-zero coefficients, database and Jacobian storage on); sparse_matrix_api: n<=3, four concrete layouts",
    ),
    outside=["sparse MATRICES (scipy.sparse.csr_matrix/csc_matrix, whose todense() is a numpy.matrix) with SYMBOLIC entries: the stub models sparse ARRAYS (csr_array/csc_array); the harness sparse_matrix_api runs genuine csr_matrix/csc_matrix user Jacobians with concrete dyadic entries and concrete bounds (only the request points and the function values are symbolic there)",
             "sparse formats other than CSR/CSC (coo, lil, dia...), duplicate / unsorted indices in the user's storage",
             "the numerics and memory layout of scipy.sparse itself", "the TYPE of a returned/recorded Jacobian (sparse, ndarray or numpy.matrix): only its values and shape are asserted",
             "evaluate_functions and finite differences with sparse Jacobians"],
    stubs=["scipy.sparse.csr_array/csc_array -> harness.C01_sparse.SparseStub in symbolic mode (a subclass of the empty marker class scipy.sparse.sparray, so that gemseo's isinstance(x, sparse_classes) tests run unpatched): compressed storage data/indices/indptr over a concrete pattern with symbolic values; contract = scipy 1.14 behaviour of the methods gemseo calls (tocsr()/tocsc() return self for the same format, .real/.T alias the data, astype(float64, copy=False) is self, copy()/deepcopy are independent, A @ dense, A[[i], :], toarray/todense, in-place data *= v visible through the matrix, numpy ufuncs refuse the object with TypeError); in concrete mode (replays, differential self-test) genuine scipy.sparse objects are used, so the stub is compared with scipy on every explored path (values, dense Jacobians and raw data vectors)"],
    assumptions=["the user's sparse storage has sorted indices and no duplicate entries (scipy's canonical format); stored values are arbitrary reals (explicit zeros included)"],
)
