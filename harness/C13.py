"""C13 - parallel execution (THREAD back-end) is order-preserving and equivalent to sequential execution, for EVERY schedule.

The OS scheduler and the thread primitives are the environment: ``threading.Thread`` / ``queue.Queue`` / the ``RLock``s are
replaced (``ctx.patch`` on the gemseo modules' globals) by the gated primitives of ``harness/sched.py``; exactly one thread
runs at a time and the thread that performs the next synchronisation operation is ``ctx.choice("sch<k>", n_candidates)``:
the SCHEDULE is a solver variable, every path of the exploration is one complete schedule, and the solver enumerates them
(with sleep-set pruning of commuting steps) and builds counterexamples (schedule + failing subset + input values) that are
replayed in float64 with the same decisions before anything is reported.  gemseo's own code runs unmodified on symbolic
task inputs/outputs: ``CallableParallelExecution.execute``, ``_execute_workers``, ``_TaskCallables``,
``DiscParallelExecution``, ``DiscParallelLinearization``, ``MDOParallelChain`` (threads), ``synchronized`` + the
``BaseFullCache``/``MemoryFullCache`` bookkeeping, ``Discipline.execute/linearize``.

In concrete mode (replay / differential self-test) every harness additionally runs the same scenario once on the REAL
``threading``/``queue`` (no patch at all) and compares the observable result with the oracle: that validates the gated
primitives against the real ones.
"""
from __future__ import annotations

import itertools
import os

import numpy as np

from harness.common import install_hash_stub
from harness.disc import make_discipline, to_list
from harness.sched import Scheduler

META = dict(
    bounds=dict(
        quick="THREAD back-end only, gated model (one thread at a time, switches at synchronisation operations).  callable: CallableParallelExecution.execute with "
              "0-3 tasks, n_processes 1..n+1 for n<=2 and 1..2 for n=3 (so at most 2 concurrent workers with 3 tasks), one shared worker or one worker per task, "
              "per task a solver-chosen outcome in {returns F(x_i), raises an ordinary exception (own configurations: a BaseException that is not an Exception, SystemExit), raises an exception listed in exceptions_to_re_raise (n<=2)}, "
              "1 or 2 callbacks (bare callable or list), with/without task_submitted_callback; task inputs symbolic reals, task results uninterpreted functions.  disc: "
              "DiscParallelExecution / DiscParallelLinearization on 2-3 uninterpreted disciplines (inputs x[1], p[1], outputs y[2]), one discipline per input (each may "
              "fail in _run, or in _compute_jacobian for linearization) or one discipline for 2 inputs, 2 workers; a MemoryFullCache(is_memory_shared=False) shared by the "
              "2 disciplines (execution, 2 workers: all schedules incl. the cache-lock acquisitions; linearization: 1 worker).  chain: MDOParallelChain(use_threading=True) "
              "of 2-3 disciplines, n_processes=2: execute, linearize(compute_all_jacobians).  doe: BaseDOELibrary.execute(n_processes=2..3) with a stub sampler, 2-3 distinct "
              "symbolic samples, each sample may fail (ValueError); with 2 samples the task body starts with a voluntary scheduling point (arbitrary delay between dequeuing "
              "a sample and evaluating it).  Schedules: EVERY interleaving of the scheduling points, up to commutation of independent adjacent steps "
              "(sleep sets); one configuration (2 tasks, 2 workers) is also enumerated WITHOUT any reduction.  At most 300 scheduling points per path (never reached: the "
              "longest explored schedules have < 80; reaching the bound is a harness error, not a pass).",
        thorough="same plus: callable with 3 tasks and 3 (or 4) workers for every failing subset, 4 tasks with 2 workers for every failing subset, 3 tasks / 2 workers with "
                 "re-raised exception types, unreduced enumeration for 2 tasks (with failures and re-raise) and 3 tasks / 2 workers; disc with 3 disciplines and 3 workers, "
                 "every failing subset for 3 disciplines / 2 workers, shared cache with every failing subset, linearization with a shared cache and 2 workers; chain of 3 "
                 "disciplines with 3 workers, execute followed by linearize; doe with 3 samples / 3 workers for every failing subset, 4 samples / 2 workers, unreduced "
                 "enumeration for 2 samples.",
    ),
    outside=[
        "the PROCESS back-end (pickling of workers/inputs/outputs, manager queues and lists, fork/spawn, the SUBPROCESS_NAME logic, the spawn-only counter updates of "
        "DiscParallelExecution/Linearization): symbolic values do not survive pickling and the process scheduler is not modelled",
        "real OS pre-emption between arbitrary bytecodes: the gated model switches threads only at synchronisation operations (Queue.put/get/join, RLock.acquire, "
        "Thread.join), which is adequate for data-race-free code only.  A data race (e.g. a removed or too narrow lock whose critical section contains no other "
        "synchronisation operation, the documented-as-unsupported sharing of ONE discipline object by several threads, the class-level execution statistics) is NOT "
        "detected",
        "the behaviour of the real threading/queue/multiprocessing.RLock implementations themselves (environment; the concrete self-test runs every scenario once on "
        "the real modules under whatever schedule the OS produces)",
        "more than 3 concurrent workers, more than 4 tasks, 4 tasks with 3 workers (> 10000 schedules after reduction), nested parallelism (a gated thread starting "
        "threads), wait_time_between_fork > 0 (time.sleep is not a scheduling point)",
        "parallel derivative approximation (FirstOrderFD/CenteredDifferences/ComplexStep/DisciplineJacApprox with parallel=True): their worker list repeats ONE bound "
        "method, which the thread back-end refuses (ValueError: all workers shall be different objects), so they only run on the process back-end",
        "parallel DOE on processes: BaseDOELibrary._run hard-codes the process back-end; the check runs the same code on the thread back-end (use_threading forced to "
        "True in the executor's constructor).  There the workers' ProblemFunctions write to the SAME database as the main thread's callback (with processes they write "
        "to a copy), unsynchronised: equal samples, Jacobians (eval_jac) and use_database=False are not explored",
        "what execute() leaves behind when a listed exception is re-raised, beyond: the exception raised is one raised by a task, callbacks were called at most once "
        "per successful task with matching (index, output), all workers terminated",
        "task_submitted_callback: exercised, nothing asserted (the statement is silent)",
        "local data of a discipline whose task FAILED; execution counters/statistics; a failing task that shares its input point with a successful one under a shared "
        "cache (it may legitimately be served from the cache)",
        "MDOParallelChain with failing sub-disciplines, MDOAdditiveChain, parallel MDAs (MDAJacobi), MDOScenarioAdapter's parallel linearization, HDF5Cache and "
        "MemoryFullCache(is_memory_shared=True) under threads, cache tolerance > 0",
    ],
    stubs=[
        "harness/sched.py gated primitives (BOTH modes, undone after each path): callable_parallel_execution.th -> namespace whose Thread is the gated thread class, "
        "callable_parallel_execution.queue -> namespace whose Queue is the gated unbounded FIFO queue, base_full_cache.RLock / memory_full_cache.RLock / "
        "base_doe_library.RLock -> gated re-entrant lock.  Contract: real Python threads of which exactly one runs; a scheduling point before every "
        "Queue.put/get/join, non-re-entrant RLock.acquire and Thread.join; the thread that performs the next visible operation is ctx.choice among the enabled ones "
        "(decided in the main thread); FIFO order, blocking get on an empty queue, blocking acquire of a held lock, join until termination; no runnable thread while "
        "one is alive = Deadlock (RuntimeError -> violation).  The primitives' own real implementation is outside the claim; in concrete mode every scenario runs a "
        "second time on the real threading/queue/RLock and is checked against the same oracle",
        "callable_parallel_execution.traceback -> recorder (both modes): the worker loop prints every swallowed BaseException; engine exceptions (path abort, budget, "
        "unsupported operation) recorded there, or raised by ctx.branch inside a worker, are re-raised in the main thread",
        "base_doe_library.CallableParallelExecution -> subclass forcing use_threading=True (both modes): the only way to run the parallel DOE branch on threads",
        "hash=collide (harness.common.install_hash_stub), hashable_ndarray.np_array (value-preserving copy), discipline.csr_array -> dense zeros (symbolic mode only)",
    ],
    assumptions=[
        "data-race freedom of the code between two synchronisation operations (it touches shared data only under the protection of those operations): needed by the "
        "gated model and by the independence relation of the sleep-set reduction (operations on two different queues/locks/threads commute; a put and a get on the "
        "same NON-EMPTY FIFO queue commute); Queue.task_done, RLock.release and thread termination only enable other threads and are merged with the preceding step",
        "the code a new thread runs before its first synchronisation operation is local to that thread (Thread.start runs it at once)",
        "task functions are pure (uninterpreted functions of their input); the inputs of the tasks are independent objects (documented)",
        "shared cache: a discipline that fails does not share its input point with another task",
        "DOE: samples pairwise distinct, inside the bounds",
    ],
)

EXPLORER_OPTS = {"quick": dict(max_paths=20000, wall_budget_s=300.0, max_decisions=600), "thorough": dict(max_paths=200000, wall_budget_s=1500.0, max_decisions=600)}


class TaskError(Exception):
    """Ordinary failure of a task (not in exceptions_to_re_raise)."""


class ReRaised(Exception):
    """Failure whose type is listed in exceptions_to_re_raise."""


class Inp:
    """Input of a task: position (used only to decide whether the task fails) and a symbolic value."""

    __slots__ = ("idx", "x")

    def __init__(self, idx, x):
        self.idx, self.x = idx, x


def _install(ctx, sched):
    """Gated primitives into the gemseo modules (both modes when the scheduler is gated; nothing in real mode except the
    silenced traceback printer)."""
    import gemseo.core.parallel_execution.callable_parallel_execution as cpe

    tb = sched.traceback_module()
    ctx.patch(cpe, "traceback", tb, symbolic_only=False)
    if sched.mode == "gated":
        ctx.patch(cpe, "th", sched.threading_module(), symbolic_only=False)
        ctx.patch(cpe, "queue", sched.queue_module(), symbolic_only=False)
        sched.guard_engine()
    else:
        import queue
        import threading

        ctx.patch(cpe, "th", threading, symbolic_only=False)
        ctx.patch(cpe, "queue", queue, symbolic_only=False)
    return tb


def _sched_report(ctx, sched, label=""):
    """Obligations every scenario shares: termination of the workers."""
    if sched.mode != "gated":
        return
    done = sched.drain()
    ctx.check(f"{label}all-worker-threads-terminated", ctx.true() if done else ctx.false())
    ctx.check(f"{label}no-worker-thread-died-with-an-exception", ctx.true() if not sched.worker_errors else ctx.false())


# ------------------------------------------------------------------------------------------------
# callable: CallableParallelExecution.execute
# ------------------------------------------------------------------------------------------------
def _callable_scenario(ctx, cfg, sched, xs, modes, F, tag):
    from gemseo.core.parallel_execution.callable_parallel_execution import CallableParallelExecution

    n, w = cfg["n"], cfg["w"]
    raised = {}

    def make_worker(k):
        def worker(inp):
            m = modes[inp.idx]
            if m == 1:
                # (base_exc: a failure that is not an Exception subclass, e.g. a wrapped code calling sys.exit(): the worker loop catches BaseException)
                raised[inp.idx] = e = SystemExit(3) if cfg.get("base_exc") else TaskError(f"task {inp.idx}")
                raise e
            if m == 2:
                raised[inp.idx] = e = ReRaised(f"task {inp.idx}")
                raise e
            return F[k](inp.x)

        return worker

    workers = [make_worker(0)] if cfg["shared"] else [make_worker(i) for i in range(n)]
    expected = [F[0 if cfg["shared"] else i](xs[i]) for i in range(n)]
    inputs = [Inp(i, xs[i]) for i in range(n)]
    cb_log = []
    callbacks = [(lambda index, output, c=c: cb_log.append((c, index, output))) for c in range(cfg["ncb"])]
    if cfg["ncb"] == 1 and cfg.get("bare_cb", True):
        cb_arg = callbacks[0]
    else:
        cb_arg = callbacks
    submitted = []
    kw = {}
    if cfg.get("submitted"):
        kw["task_submitted_callback"] = lambda: submitted.append(1)
    _install(ctx, sched)
    par = CallableParallelExecution(workers, n_processes=w, use_threading=True,
                                    exceptions_to_re_raise=(ReRaised,) if cfg["reraise"] else ())
    result, exc = None, None
    try:
        result = par.execute(inputs, exec_callback=cb_arg, **kw)
    except ReRaised as e:
        exc = e
    must_raise = any(m == 2 for m in modes)
    ok = lambda b: ctx.true() if b else ctx.false()  # noqa: E731
    ctx.check(f"{tag}raises-iff-a-task-raised-a-listed-exception", ok((exc is not None) == must_raise))
    if exc is not None:
        ctx.check(f"{tag}propagated-exception-is-one-raised-by-a-task", ok(any(exc is e for i, e in raised.items() if modes[i] == 2)))
    else:
        ctx.check(f"{tag}result-is-a-list-of-n", ok(isinstance(result, list) and len(result) == n))
        if isinstance(result, list) and len(result) == n:
            for i in range(n):
                if modes[i]:
                    ctx.check(f"{tag}failed-slot-is-None[{i}]", ok(result[i] is None))
                else:
                    ctx.check(f"{tag}slot-not-None[{i}]", ok(result[i] is not None))
                    if result[i] is not None:
                        ctx.check(f"{tag}result[{i}]==F(input[{i}])", ctx.eq(result[i], expected[i]))
    # callbacks: exactly once per successful task with the matching (index, output); when the call re-raises the statement only
    # allows "at most once" (the execution stops at the first listed exception)
    for c in range(cfg["ncb"]):
        for i in range(n):
            calls = [o for (cc, idx, o) in cb_log if cc == c and idx == i]
            if modes[i]:
                ctx.check(f"{tag}callback{c}-not-called-for-failed-task[{i}]", ok(len(calls) == 0))
            elif exc is None:
                ctx.check(f"{tag}callback{c}-called-exactly-once[{i}]", ok(len(calls) == 1))
            else:
                ctx.check(f"{tag}callback{c}-called-at-most-once[{i}]", ok(len(calls) <= 1))
            for k, o in enumerate(calls[:1]):
                ctx.check(f"{tag}callback{c}-output-matches-index[{i}]", ctx.eq(o, expected[i]))
        ctx.check(f"{tag}callback{c}-indices-in-range", ok(all(isinstance(idx, int) and 0 <= idx < n for (cc, idx, o) in cb_log if cc == c)))
    _sched_report(ctx, sched, tag)
    return result, exc, cb_log


def h_callable(ctx, cfg):
    n = cfg["n"]
    xs = [ctx.real(f"x{i}") for i in range(n)]
    nF = 1 if cfg["shared"] else n
    F = [ctx.uf(f"F{k}", 1) for k in range(nF)]
    if cfg.get("modes") is not None:
        modes = list(cfg["modes"])
    else:
        modes = [ctx.choice(f"mode{i}", 3 if cfg["reraise"] else 2) if cfg.get("failures", True) else 0 for i in range(n)]
    sched = Scheduler(ctx, por=cfg.get("por", True))
    try:
        result, exc, cb_log = _callable_scenario(ctx, cfg, sched, xs, modes, F, "")
    finally:
        sched.close()
    if exc is None and isinstance(result, list):
        ctx.observe("result", np.array([0.0 if r is None else r for r in result] + [0.0], dtype=object if ctx.symbolic else float))
    if not ctx.symbolic:
        # the same scenario on the REAL threading / queue modules (whatever schedule the OS produces)
        real = Scheduler(ctx, mode="real")
        try:
            _callable_scenario(ctx, cfg, real, xs, modes, F, "real-threads:")
        finally:
            real.close()


# ------------------------------------------------------------------------------------------------
# disc / lin: DiscParallelExecution, DiscParallelLinearization on uninterpreted disciplines, optional shared cache
# ------------------------------------------------------------------------------------------------
_DCLS = []


def _disc_class():
    if _DCLS:
        return _DCLS[0]
    from harness.disc import _discipline_class

    base = _discipline_class()

    class FailingDiscipline(base):
        fail_run = False
        fail_jac = False

        def _run(self, input_data):
            if self.fail_run:
                raise TaskError(f"{self.name}: run")
            return super()._run(input_data)

        def _compute_jacobian(self, input_names=(), output_names=()):
            if self.fail_jac:
                raise TaskError(f"{self.name}: jacobian")
            super()._compute_jacobian(input_names, output_names)

    _DCLS.append(FailingDiscipline)
    return FailingDiscipline


def _install_cache_locks(ctx, sched):
    """The caches' ``multiprocessing.RLock`` become gated re-entrant locks (acquire = scheduling point)."""
    import gemseo.caches.base_full_cache as bfc
    import gemseo.caches.memory_full_cache as mfc

    if sched.mode == "gated":
        ctx.patch(bfc, "RLock", sched.RLock, symbolic_only=False)
        ctx.patch(mfc, "RLock", sched.RLock, symbolic_only=False)
    else:
        import multiprocessing

        ctx.patch(bfc, "RLock", multiprocessing.RLock, symbolic_only=False)
        ctx.patch(mfc, "RLock", multiprocessing.RLock, symbolic_only=False)


def _make_discs(ctx, cfg, modes, same_function):
    cls = _disc_class()
    discs = []
    for i in range(cfg["nd"]):
        d = cls(ctx, "d" if same_function else f"d{i}", {"x": 1, "p": 1}, {"y": 2}, log=None)
        discs.append(d)
    return discs


def _disc_scenario(ctx, cfg, sched, xs, ps, modes, tag):
    """``cfg``: n tasks, nd disciplines (nd == n: one per input; nd == 1: one discipline for every input), w workers,
    cache in none / shared (one MemoryFullCache for all disciplines, which then compute the same function), kind exec / lin."""
    from gemseo.caches.memory_full_cache import MemoryFullCache
    from gemseo.core.parallel_execution.disc_parallel_execution import DiscParallelExecution
    from gemseo.core.parallel_execution.disc_parallel_linearization import DiscParallelLinearization

    n, nd, w, kind = cfg["n"], cfg["nd"], cfg["w"], cfg["kind"]
    shared_cache = cfg["cache"] == "shared"
    ok = lambda b: ctx.true() if b else ctx.false()  # noqa: E731
    _install(ctx, sched)
    _install_cache_locks(ctx, sched)
    if shared_cache:
        install_hash_stub(ctx)
    discs = _make_discs(ctx, cfg, modes, same_function=shared_cache or nd == 1)
    cache = None
    if shared_cache:
        cache = MemoryFullCache(is_memory_shared=False)
        for d in discs:
            d.cache = cache
    for i, d in enumerate(discs):
        if nd == n:
            d.fail_run = modes[i] == 1
            d.fail_jac = modes[i] == 2
        d.add_differentiated_inputs(["x", "p"])
        d.add_differentiated_outputs(["y"])
    inputs = [{"x": ctx.array([xs[i]]), "p": ctx.array([ps[i]])} for i in range(n)]
    sym = [discs[i if nd == n else 0].sym for i in range(n)]
    vals = [{"x": [xs[i]], "p": [ps[i]]} for i in range(n)]
    cb_log = []
    if kind == "exec":
        par = DiscParallelExecution(discs, n_processes=w, use_threading=True)
    else:
        par = DiscParallelLinearization(discs, n_processes=w, use_threading=True)
    result = par.execute(inputs, exec_callback=lambda index, output: cb_log.append((index, output)))
    failed = [bool(m) for m in modes]
    ctx.check(f"{tag}result-is-a-list-of-n", ok(isinstance(result, list) and len(result) == n))
    if isinstance(result, list) and len(result) == n:
        for i in range(n):
            if failed[i]:
                ctx.check(f"{tag}failed-slot-is-None[{i}]", ok(result[i] is None))
                continue
            ctx.check(f"{tag}slot-not-None[{i}]", ok(result[i] is not None))
            if result[i] is None:
                continue
            if kind == "exec":
                _check_data(ctx, f"{tag}result[{i}]", result[i], sym[i], vals[i])
            else:
                _check_jac(ctx, f"{tag}result[{i}]", result[i], sym[i], vals[i])
    # the disciplines afterwards: local data (and Jacobian) of discipline i are those of input i, as after a sequential loop
    if nd == n:
        for i in range(n):
            if failed[i]:
                continue
            _check_data(ctx, f"{tag}disc[{i}].data", discs[i].io.data, sym[i], vals[i])
            if kind == "lin":
                _check_jac(ctx, f"{tag}disc[{i}].jac", discs[i].jac, sym[i], vals[i])
    for i in range(n):
        calls = [o for (idx, o) in cb_log if idx == i]
        ctx.check(f"{tag}callback-count[{i}]", ok(len(calls) == (0 if failed[i] else 1)))
    if cache is not None:
        _check_cache(ctx, tag, cache, sym, vals, failed, kind, modes)
    _sched_report(ctx, sched, tag)
    return result


def _check_data(ctx, label, data, sym, vals):
    ok = "x" in data and "y" in data and np.shape(data["y"]) == (2,) and np.shape(data["x"]) == (1,)
    ctx.check(f"{label}:names-and-shapes", ctx.true() if ok else ctx.false())
    if not ok:
        return
    ctx.check(f"{label}[x]", ctx.eq(to_list(data["x"])[0], vals["x"][0]))
    for k in range(2):
        ctx.check(f"{label}[y{k}]", ctx.eq(to_list(data["y"])[k], sym.value("y", k, vals)))


def _check_jac(ctx, label, jac, sym, vals):
    ok = "y" in jac and "x" in jac["y"] and "p" in jac["y"] and np.shape(jac["y"]["x"]) == (2, 1) and np.shape(jac["y"]["p"]) == (2, 1)
    ctx.check(f"{label}:names-and-shapes", ctx.true() if ok else ctx.false())
    if not ok:
        return
    for inp in ("x", "p"):
        blk = to_list(jac["y"][inp])
        for k in range(2):
            ctx.check(f"{label}[dy{k}/d{inp}]", ctx.eq(blk[k], sym.partial("y", k, inp, 0, vals)))


def _check_cache(ctx, tag, cache, sym, vals, failed, kind, modes=None):
    """The shared cache holds, as a SET of entries, exactly what a sequential loop over the successful tasks would have
    stored: one entry per distinct successful input point, with the outputs (and the Jacobian) of that point."""
    entries = list(cache.get_all_entries())
    good = [i for i in range(len(vals)) if not failed[i]]
    flat = lambda d: to_list(d["p"]) + to_list(d["x"])  # noqa: E731

    def same_point(e, i):
        ev = flat(e.inputs)
        return ctx.and_(ctx.eq(ev[0], vals[i]["p"][0]), ctx.eq(ev[1], vals[i]["x"][0]))

    well_formed = all(set(e.inputs) == {"x", "p"} and set(e.outputs) == {"y"} for e in entries)
    ctx.check(f"{tag}cache:entries-well-formed", ctx.true() if well_formed else ctx.false())
    if not well_formed:
        return
    # a linearization that fails in the Jacobian computation has executed the discipline first (sequentially too): its entry
    # holds the outputs and no Jacobian
    partial = [i for i in range(len(vals)) if modes is not None and modes[i] == 2] if kind == "lin" else []
    for k, e in enumerate(entries):
        alts = []
        for i in good + partial:
            conj = [same_point(e, i)] + [ctx.eq(to_list(e.outputs["y"])[c], sym[i].value("y", c, vals[i])) for c in range(2)]
            if kind == "lin" and i in partial:
                if e.jacobian:
                    continue
            elif kind == "lin":
                has = bool(e.jacobian) and "y" in e.jacobian and set(e.jacobian["y"]) == {"x", "p"}
                if not has:
                    continue
                conj += [ctx.eq(to_list(e.jacobian["y"][inp])[c], sym[i].partial("y", c, inp, 0, vals[i])) for inp in ("x", "p") for c in range(2)]
            alts.append(ctx.and_(*conj))
        ctx.check(f"{tag}cache:entry{k}-is-the-evaluation-of-a-successful-task", ctx.or_(*alts))
        for k2 in range(k):
            e2 = flat(entries[k2].inputs)
            ev = flat(e.inputs)
            ctx.check(f"{tag}cache:entries-{k2}-{k}-have-different-inputs", ctx.not_(ctx.and_(ctx.eq(ev[0], e2[0]), ctx.eq(ev[1], e2[1]))))
    for i in good + partial:
        ctx.check(f"{tag}cache:task{i}-has-an-entry", ctx.or_(*[same_point(e, i) for e in entries]))


def _h_disc(ctx, cfg):
    n = cfg["n"]
    xs = [ctx.real(f"x{i}") for i in range(n)]
    ps = [ctx.real(f"p{i}") for i in range(n)]
    k = 3 if cfg["kind"] == "lin" else 2
    if cfg.get("modes") is not None:
        modes = list(cfg["modes"])
    else:
        modes = [ctx.choice(f"mode{i}", k) if cfg.get("failures", True) and cfg["nd"] == n else 0 for i in range(n)]
    if cfg["cache"] == "shared":
        # a task that fails does so because of its discipline, not of its input point: with a shared cache a failing discipline
        # asked at the point of a successful one may legitimately be served from the cache; such coincidences are excluded
        for i in range(n):
            for j in range(n):
                if i != j and modes[i]:
                    ctx.assume(ctx.not_(ctx.and_(ctx.eq(xs[i], xs[j]), ctx.eq(ps[i], ps[j]))))
    sched = Scheduler(ctx, por=cfg.get("por", True))
    try:
        result = _disc_scenario(ctx, cfg, sched, xs, ps, modes, "")
    finally:
        sched.close()
    if isinstance(result, list):
        flat = []
        for r in result:
            if r is None:
                continue
            flat += to_list(r["y"]) if cfg["kind"] == "exec" else to_list(r["y"]["x"]) + to_list(r["y"]["p"])
        ctx.observe("result", np.array(flat + [0.0], dtype=object if ctx.symbolic else float))
    if not ctx.symbolic:
        real = Scheduler(ctx, mode="real")
        try:
            _disc_scenario(ctx, cfg, real, xs, ps, modes, "real-threads:")
        finally:
            real.close()


# ------------------------------------------------------------------------------------------------
# chain: MDOParallelChain(use_threading=True, n_processes=w) execute + linearize
# ------------------------------------------------------------------------------------------------
CHAIN_LAYOUT = [("d0", {"x": 1, "u": 1}, {"a": 1}), ("d1", {"x": 1}, {"b": 2}), ("d2", {"u": 1}, {"c": 1})]


def _dense(block):
    return block.toarray() if hasattr(block, "toarray") else block


def _chain_scenario(ctx, cfg, sched, x, u, tag):
    from gemseo.core.chains.parallel_chain import MDOParallelChain
    from gemseo.core.discipline import Discipline

    _install(ctx, sched)
    if ctx.symbolic:
        import gemseo.core.discipline.discipline as dmod
        from symgem.core import SymArray

        def dense_zeros(shape, *a, **k):
            z = np.empty(shape, dtype=object)
            z[...] = 0.0
            return SymArray(z)

        ctx.patch(dmod, "csr_array", dense_zeros)
    layout = CHAIN_LAYOUT[: cfg["nd"]]
    discs = [make_discipline(ctx, name, ins, outs) for name, ins, outs in layout]
    chain = MDOParallelChain(discs, use_threading=True, n_processes=cfg["w"])
    chain.set_cache(Discipline.CacheType.NONE)
    data = {"x": ctx.array([x]), "u": ctx.array([u])}
    vals = {"x": [x], "u": [u]}
    if cfg.get("op", "both") in ("execute", "both"):
        out = chain.execute(data)
    else:
        out = None
    for d in discs if out is not None else []:
        for o, size in d.sym.out_sizes.items():
            ok = o in out and np.shape(out[o]) == (size,)
            ctx.check(f"{tag}execute:{o}:present", ctx.true() if ok else ctx.false())
            if ok:
                for k in range(size):
                    ctx.check(f"{tag}execute:{o}[{k}]", ctx.eq(to_list(out[o])[k], d.sym.value(o, k, vals)))
    if cfg.get("op", "both") in ("linearize", "both"):
        jac = chain.linearize(data, compute_all_jacobians=True)
        out = chain.io.data
        for d in discs:
            for o, size in d.sym.out_sizes.items():
                ok = o in out and np.shape(out[o]) == (size,)
                ctx.check(f"{tag}linearize:data:{o}:present", ctx.true() if ok else ctx.false())
                if ok:
                    for k in range(size):
                        ctx.check(f"{tag}linearize:data:{o}[{k}]", ctx.eq(to_list(out[o])[k], d.sym.value(o, k, vals)))
        for d in discs:
            for o, size in d.sym.out_sizes.items():
                for inp in ("x", "u"):
                    ok = o in jac and inp in jac[o] and np.shape(_dense(jac[o][inp])) == (size, 1)
                    ctx.check(f"{tag}linearize:d{o}/d{inp}:present", ctx.true() if ok else ctx.false())
                    if not ok:
                        continue
                    blk = to_list(np.asarray(_dense(jac[o][inp])))
                    for k in range(size):
                        exp = d.sym.partial(o, k, inp, 0, vals) if inp in d.sym.in_sizes else 0.0
                        ctx.check(f"{tag}linearize:d{o}[{k}]/d{inp}", ctx.eq(blk[k], exp))
    _sched_report(ctx, sched, tag)
    return out


def _h_chain(ctx, cfg):
    x, u = ctx.real("x"), ctx.real("u")
    sched = Scheduler(ctx, por=cfg.get("por", True))
    try:
        out = _chain_scenario(ctx, cfg, sched, x, u, "")
    finally:
        sched.close()
    ctx.observe("a", np.array(to_list(out["a"]) + [0.0], dtype=object if ctx.symbolic else float))
    if not ctx.symbolic:
        real = Scheduler(ctx, mode="real")
        try:
            _chain_scenario(ctx, cfg, real, x, u, "real-threads:")
        finally:
            real.close()


# ------------------------------------------------------------------------------------------------
# doe: the parallel branch of BaseDOELibrary._run (+ __store_in_database, remove_empty_entries) on the thread back-end
# ------------------------------------------------------------------------------------------------
def _doe_scenario(ctx, cfg, sched, us, modes, F, tag):
    import gemseo.algos.doe.base_doe_library as bdl
    from gemseo.algos.design_space import DesignSpace
    from gemseo.algos.optimization_problem import OptimizationProblem
    from gemseo.core.mdo_functions.mdo_function import MDOFunction
    from gemseo.core.parallel_execution.callable_parallel_execution import CallableParallelExecution
    from harness.C03 import _stub_doe_library
    from harness.common import db_items, elems, install_np_array_stub

    S = cfg["S"]
    _install(ctx, sched)
    install_hash_stub(ctx)
    install_np_array_stub(ctx)

    class ThreadedExecution(CallableParallelExecution):
        """BaseDOELibrary._run hard-codes the process back-end: same executor class, use_threading forced to True."""

        def __init__(self, workers, **kw):
            kw["use_threading"] = True
            super().__init__(workers, **kw)

    ctx.patch(bdl, "CallableParallelExecution", ThreadedExecution, symbolic_only=False)
    ctx.patch(bdl, "RLock", sched.RLock if sched.mode == "gated" else __import__("threading").RLock, symbolic_only=False)
    ds = DesignSpace()
    ds.add_variable("x", size=1, lower_bound=-1.0, upper_bound=3.0)
    phys = [-1.0 + 4.0 * u for u in us]
    calls = []

    def f(x):
        # the evaluation may start arbitrarily late after the task was dequeued (it writes to the shared database: see META)
        if cfg.get("yield", True):
            sched.yield_point()
        v = elems(x)[0]
        calls.append(v)
        for s in range(S):
            if modes[s] and _same(ctx, v, phys[s]):
                raise ValueError(f"sample {s} cannot be evaluated")
        return ctx.array([F(v)])

    problem = OptimizationProblem(ds)
    problem.objective = MDOFunction(f, "f")
    lib = _stub_doe_library(lambda design_space: ctx.array([[u] for u in us]))
    cb_log = []
    lib.execute(problem, n_processes=cfg["w"], enable_progress_bar=False, log_problem=False,
                callbacks=[lambda index, data: cb_log.append((index, data))])
    items = db_items(problem.database)
    good = [s for s in range(S) if not modes[s]]
    ok = lambda b: ctx.true() if b else ctx.false()  # noqa: E731
    ctx.check(f"{tag}database-has-one-entry-per-successful-sample", ok(len(items) == len(good)))
    if len(items) == len(good):
        for e, s in enumerate(good):
            key, vals = items[e]
            ctx.check(f"{tag}entry{e}-is-sample{s} (sample order)", ctx.eq(elems(key)[0], phys[s]))
            has = "f" in vals and np.size(vals["f"]) == 1
            ctx.check(f"{tag}entry{e}-has-f", ok(has))
            if has:
                ctx.check(f"{tag}entry{e}-value", ctx.eq(elems(vals["f"])[0], F(phys[s])))
    for s in range(S):
        hits = [d for (i, d) in cb_log if i == s]
        ctx.check(f"{tag}callback-count[{s}]", ok(len(hits) == (0 if modes[s] else 1)))
        for d in hits[:1]:
            ctx.check(f"{tag}callback-value[{s}]", ctx.eq(elems(d[0]["f"])[0], F(phys[s])))
    _sched_report(ctx, sched, tag)
    return items


def _same(ctx, a, b):
    if ctx.symbolic:
        from symgem.core import SymBool

        return bool(SymBool(ctx.eq(a, b)))
    return bool(ctx.eq(a, b))


def _h_doe(ctx, cfg):
    S = cfg["S"]
    us = [ctx.real(f"u{s}") for s in range(S)]
    for s in range(S):
        ctx.assume(ctx.and_(ctx.le(0.0, us[s]), ctx.le(us[s], 1.0)))
        for t in range(s):
            ctx.assume(ctx.not_(ctx.eq(us[s], us[t])))
    F = ctx.uf("f", 1)
    if cfg.get("modes") is not None:
        modes = list(cfg["modes"])
    else:
        modes = [int(ctx.flag(f"fail{s}")) if cfg.get("failures", True) else 0 for s in range(S)]
    sched = Scheduler(ctx, por=cfg.get("por", True))
    try:
        items = _doe_scenario(ctx, cfg, sched, us, modes, F, "")
    finally:
        sched.close()
    from harness.common import elems

    ctx.observe("db", np.array([elems(v["f"])[0] for k, v in items if "f" in v] + [0.0], dtype=object if ctx.symbolic else float))
    if not ctx.symbolic:
        real = Scheduler(ctx, mode="real")
        try:
            _doe_scenario(ctx, cfg, real, us, modes, F, "real-threads:")
        finally:
            real.close()


def h_sequential_helper(ctx, cfg):
    """``gemseo.utils.multiprocessing.execution.execute`` with ``n_processes=1`` (the sequential counterpart used by the multi-start and
    mNBI algorithms): results positionally matched, each callback called exactly once per input with the matching index and output."""
    from gemseo.utils.multiprocessing.execution import execute

    n = cfg["n"]
    xs = [ctx.real(f"x{i}") for i in range(n)]
    F = ctx.uf("F", 1)
    log = []
    callbacks = [(lambda index, output, c=c: log.append((c, index, output))) for c in range(cfg["ncb"])]
    result = execute(lambda x: F(x), callbacks, 1, xs)
    ok = lambda b: ctx.true() if b else ctx.false()  # noqa: E731
    ctx.check("sequential: result-is-a-list-of-n", ok(isinstance(result, list) and len(result) == n))
    for i in range(min(n, len(result))):
        ctx.check(f"sequential: result[{i}]==F(input[{i}])", ctx.eq(result[i], F(xs[i])))
    for c in range(cfg["ncb"]):
        for i in range(n):
            calls = [o for (cc, idx, o) in log if cc == c and idx == i]
            ctx.check(f"sequential: callback{c}-called-exactly-once-with-index[{i}]", ok(len(calls) == 1))
            for o in calls[:1]:
                ctx.check(f"sequential: callback{c}-output-matches-index[{i}]", ctx.eq(o, F(xs[i])))


HARNESSES = {"sequential_helper": h_sequential_helper, "callable": h_callable, "disc": _h_disc, "chain": _h_chain, "doe": _h_doe}


def configs(tier):
    quick = tier == "quick"
    out = []

    def C(**k):
        return ("callable", dict(dict(shared=True, ncb=1, reraise=False, submitted=False), **k))

    def D(**k):
        return ("disc", dict(dict(cache="none", kind="exec"), **k))

    out += [("sequential_helper", dict(n=3, ncb=2)), ("sequential_helper", dict(n=1, ncb=1))]
    # ---- callable
    out.append(C(n=0, w=1))
    out += [C(n=1, w=1), C(n=1, w=2, reraise=True, ncb=2, submitted=True)]
    out += [C(n=2, w=2, base_exc=True), C(n=2, w=1, base_exc=True, shared=False, ncb=2)]
    for w in (1, 2, 3):
        for shared in (True, False):
            out.append(C(n=2, w=w, shared=shared))
    out += [C(n=2, w=2, reraise=True), C(n=2, w=2, ncb=2, submitted=True, shared=False, bare_cb=False),
            C(n=2, w=2, por=False, failures=False), C(n=3, w=1), C(n=3, w=2), C(n=3, w=2, shared=False)]
    if not quick:
        out += [C(n=2, w=2, por=False), C(n=2, w=2, por=False, reraise=True), C(n=3, w=2, reraise=True), C(n=3, w=2, por=False, failures=False),
                C(n=3, w=4, modes=[0, 0, 0]), C(n=3, w=3, shared=False, modes=[0, 0, 0]), C(n=3, w=3, shared=False, modes=[0, 1, 0]), C(n=4, w=1)]
        for modes in itertools.product((0, 1), repeat=3):
            out.append(C(n=3, w=3, modes=list(modes)))
        for modes in itertools.product((0, 1), repeat=4):
            out.append(C(n=4, w=2, modes=list(modes)))
    # ---- disciplines
    out += [D(n=2, nd=2, w=2), D(n=2, nd=1, w=2), D(n=3, nd=3, w=2, failures=False), D(n=3, nd=3, w=2, modes=[0, 1, 0]), D(n=3, nd=3, w=2, modes=[1, 0, 0]),
            D(n=2, nd=2, w=2, cache="shared", failures=False), D(n=2, nd=2, w=2, cache="shared", modes=[0, 1]),
            D(n=2, nd=2, w=2, kind="lin", failures=False), D(n=2, nd=2, w=1, kind="lin", cache="shared", failures=False)]
    out.append(D(n=2, nd=2, w=2, kind="lin", modes=[1, 0]))
    if not quick:
        out += [D(n=3, nd=3, w=2), D(n=3, nd=1, w=2), D(n=3, nd=3, w=3, failures=False), D(n=2, nd=2, w=2, cache="shared", modes=[1, 1]),
                D(n=2, nd=2, w=2, cache="shared", modes=[1, 0]), D(n=2, nd=2, w=2, kind="lin", cache="shared", failures=False),
                D(n=3, nd=3, w=2, kind="lin", failures=False)]
        out += [D(n=2, nd=2, w=2, kind="lin", modes=[0, 2]), D(n=2, nd=2, w=2, kind="lin", modes=[2, 0])]
    # ---- parallel chain
    out += [("chain", dict(nd=2, w=2, op="execute")), ("chain", dict(nd=3, w=2, op="execute")), ("chain", dict(nd=2, w=2, op="linearize")),
            ("chain", dict(nd=2, w=1, op="both"))]
    if not quick:
        out += [("chain", dict(nd=3, w=3, op="execute")), ("chain", dict(nd=2, w=2, op="both")), ("chain", dict(nd=2, w=2, op="execute", por=False))]
    # ---- DOE ("yield": the task body starts with a voluntary scheduling point, see _doe_scenario)
    out += [("doe", dict(S=2, w=2, failures=False)), ("doe", dict(S=2, w=2, modes=[1, 0])), ("doe", dict(S=2, w=2, modes=[0, 1])),
            ("doe", {"S": 3, "w": 2, "failures": False, "yield": False}), ("doe", {"S": 3, "w": 2, "modes": [0, 1, 0], "yield": False}),
            ("doe", dict(S=2, w=3, modes=[1, 1]))]
    if not quick:
        out += [("doe", dict(S=2, w=2)), ("doe", {"S": 2, "w": 2, "por": False, "yield": False}), ("doe", {"S": 4, "w": 2, "failures": False, "yield": False}),
                ("doe", {"S": 3, "w": 2, "yield": False})]
        for modes in itertools.product((0, 1), repeat=3):
            out.append(("doe", {"S": 3, "w": 3, "modes": list(modes), "yield": False}))
    return out
