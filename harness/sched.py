"""Deterministic cooperative scheduler for gemseo's THREAD back-end (C13): the schedule is a solver variable.

What is replaced (environment, by ``ctx.patch`` on the gemseo modules' globals, never a gemseo function):

* ``threading.Thread``  -> :class:`Scheduler.Thread`   (same constructor/``start``/``join``/``is_alive``/``daemon``/``name``)
* ``queue.Queue``       -> :class:`Scheduler.Queue`    (unbounded FIFO: ``put/get/task_done/join/empty/qsize/..._nowait``)
* ``multiprocessing.RLock`` / ``threading.RLock`` of the caches and of the DOE library -> :class:`Scheduler.RLock`

The gated primitives are ordinary Python threads of which EXACTLY ONE runs at any time (a baton = one semaphore per thread).
Control changes hands only at *scheduling points*, placed immediately BEFORE each visible synchronisation operation:

    Queue.put, Queue.get (enabled iff the queue is non-empty), Queue.join (enabled iff no unfinished task),
    RLock.acquire by a thread that does not own it (enabled iff free), Thread.join (enabled iff the target terminated).

``Queue.task_done``, ``RLock.release``, re-entrant acquires, thread termination and the local code of a new thread up to
its first visible operation are merged with the preceding step of the same thread (they can only ENABLE other threads and
commute with every operation of the other threads, so no behaviour is lost).  ``Thread.start`` runs the child up to its
first scheduling point and returns to the parent (same argument).

All solver decisions are taken by the MAIN thread (the one that runs the harness and owns the engine's ``ctx``): the thread
that reaches a scheduling point records its pending operation and computes the set of threads whose pending operation is
enabled (pure scheduler state, only touched by the holder of the baton).  If exactly one candidate is left it gets the
baton directly (no decision); otherwise a worker hands the baton to main, which asks ``ctx.choice("<tag><k>", n)`` and
resumes the chosen thread (possibly itself).  Workers never call ``ctx.choice``; engine exceptions (path abort, budget,
unsupported operation: ``BaseException`` subclasses that gemseo's worker loop would swallow) met inside a worker are
recorded (patched ``traceback.print_exc``, wrapped ``ctx.branch``) and re-raised in main.  ``close()`` (always called by the
harness in a ``finally``) wakes every parked worker with :class:`Killed` so that no gated thread survives the path; the OS
threads that carried them return to an idle pool and are re-used by later paths.

No candidate and a live thread left = DEADLOCK: raised as an ordinary ``RuntimeError`` (:class:`Deadlock`) in main, from
inside the gemseo call that waits, hence reported by the engine as a violation ("the execution must terminate").

Partial-order reduction (``por=True``): *sleep sets* (Godefroid) with the static independence relation "pending operations
on two different synchronisation objects, neither of them a ``Queue.join``".  After the subtree of candidate ``c_i`` has
been explored, ``c_i`` is put to sleep in the subtrees of the later candidates until an operation on the same object is
executed.  This prunes only interleavings that differ from an explored one by commuting adjacent independent steps.  The
relation is valid under the assumption the gated model needs anyway: code between two synchronisation operations touches
shared data only under the protection of such operations (data-race freedom).  ``por=False`` enumerates every interleaving
of the scheduling points.  A path whose candidates are all asleep is abandoned through ``ctx.assume(False)`` (counted as
pruned).  Never branching when a single candidate exists is the only other reduction.

``mode="real"``: the factories return the REAL ``threading.Thread`` / ``queue.Queue`` / ``threading.RLock`` (used in the
concrete self-test to validate the gated primitives against the real ones on the observable result).
"""
from __future__ import annotations

import collections
import queue as _queue
import _thread
import sys
import threading as _th


class Killed(BaseException):
    """Raised inside a gated worker when the scheduler is closed (end or abort of the path)."""


class Deadlock(RuntimeError):
    """No thread can run although some have not terminated."""


class SchedulerError(RuntimeError):
    """Misuse of the gated primitives (harness error)."""


class _Rec:
    __slots__ = ("name", "sem", "status", "pending", "real", "exc", "index", "daemon", "steps")

    def __init__(self, name, index):
        self.name = name
        self.index = index
        self.sem = _Baton()
        self.status = "new"  # new -> live -> done
        self.pending = None  # (kind, obj, enabled) while parked at a scheduling point
        self.real = None
        self.exc = None
        self.steps = 0


class _Baton:
    """Binary hand-over signal on a raw lock (much cheaper than threading.Semaphore, which is a Condition in pure Python)."""

    __slots__ = ("_l",)

    def __init__(self):
        self._l = _thread.allocate_lock()
        self._l.acquire()

    def release(self):
        try:
            self._l.release()
        except RuntimeError:  # already signalled (only happens while closing)
            pass

    def acquire(self, timeout=-1):
        return self._l.acquire(True, timeout)


# OS threads are expensive to create on a loaded machine: finished gated threads give their carrier OS thread back to a pool.
# A carrier in the pool is idle (it has left the gated thread's code entirely); no gated thread outlives Scheduler.close().
_POOL = []


class _Carrier:
    def __init__(self):
        self.wake = _Baton()
        self.job = None
        _thread.start_new_thread(self._loop, ())

    def _loop(self):
        while True:
            self.wake.acquire()
            fn, finished = self.job
            self.job = None
            try:
                fn()
            except BaseException:  # noqa: BLE001  (bootstrap catches everything itself)
                pass
            _POOL.append(self)
            finished.release()


def _run_on_carrier(fn, finished):
    c = _POOL.pop() if _POOL else _Carrier()
    c.job = (fn, finished)
    c.wake.release()


def _engine_exception(e):
    # SystemExit / KeyboardInterrupt / GeneratorExit are ordinary task failures for gemseo's worker loop (it catches BaseException):
    # only the path-steering exceptions of the engine (PathAbort, Unsupported, Budget, ...) are carried over to the main thread
    return isinstance(e, BaseException) and not isinstance(e, (Exception, Killed, SystemExit, KeyboardInterrupt, GeneratorExit))


class Scheduler:
    def __init__(self, ctx, tag="sch", por=True, max_points=300, mode="gated"):
        self.ctx = ctx
        self.tag = tag
        self.por = por
        self.mode = mode
        self.max_points = max_points
        self.main = _Rec("main", 0)
        self.main.status = "live"
        self.recs = [self.main]
        self._main_ident = _th.get_ident()
        self.by_ident = {self._main_ident: self.main}
        self.current = self.main
        self.sleep = []
        self.n_choices = 0
        self.n_points = 0
        self.max_candidates = 0
        self.trace = []
        self.pending_exc = None
        self.closed = False
        self.main_busy = False
        self.granted = None
        self.worker_errors = []
        self._n_obj = 0
        sched = self

        # ---------------------------------------------------------------- gated primitives
        class Thread:
            def __init__(self, group=None, target=None, name=None, args=(), kwargs=None, *, daemon=None):
                self._target, self._args, self._kwargs = target, tuple(args), dict(kwargs or {})
                self.name = name or f"Thread-{len(sched.recs)}"
                self.daemon = bool(daemon)
                self._rec = None

            def run(self):
                if self._target is not None:
                    self._target(*self._args, **self._kwargs)

            def start(self):
                if self._rec is not None:
                    raise RuntimeError("threads can only be started once")
                sched._start(self)

            def join(self, timeout=None):
                if self._rec is None:
                    raise RuntimeError("cannot join thread before it is started")
                rec = self._rec
                sched.point("join", rec, lambda: rec.status == "done")

            def is_alive(self):
                return self._rec is not None and self._rec.status != "done"

        class Queue:
            def __init__(self, maxsize=0):
                sched._n_obj += 1
                self.name = f"queue{sched._n_obj}"
                self.items = collections.deque()
                self.unfinished = 0

            def put(self, item, block=True, timeout=None):
                sched.point("put", self)
                self.items.append(item)
                self.unfinished += 1

            put_nowait = put

            def get(self, block=True, timeout=None):
                if not block and not self.items:
                    raise _queue.Empty
                sched.point("get", self, lambda: bool(self.items))
                return self.items.popleft()

            def get_nowait(self):
                return self.get(block=False)

            def task_done(self):
                if self.unfinished <= 0:
                    raise ValueError("task_done() called too many times")
                self.unfinished -= 1

            def join(self):
                sched.point("qjoin", None, lambda: self.unfinished == 0)

            def empty(self):
                return not self.items

            def qsize(self):
                return len(self.items)

        class RLock:
            def __init__(self, *a, **k):
                sched._n_obj += 1
                self.name = f"lock{sched._n_obj}"
                self.owner = None
                self.count = 0
                self.n_acquired = 0

            def acquire(self, blocking=True, timeout=-1):
                me = sched._me()
                if self.owner is me:
                    self.count += 1
                    return True
                if not blocking and self.owner is not None:
                    return False
                sched.point("acquire", self, lambda: self.owner is None)
                self.owner = me
                self.count = 1
                self.n_acquired += 1
                return True

            def release(self):
                if self.owner is not sched._me():
                    raise RuntimeError("cannot release un-acquired lock")
                self.count -= 1
                if self.count == 0:
                    self.owner = None

            def __enter__(self):
                self.acquire()
                return self

            def __exit__(self, *a):
                self.release()

        self._Thread, self._Queue, self._RLock = Thread, Queue, RLock

    # -------------------------------------------------------------------- factories
    @property
    def Thread(self):
        return _th.Thread if self.mode == "real" else self._Thread

    @property
    def Queue(self):
        return _queue.Queue if self.mode == "real" else self._Queue

    @property
    def RLock(self):
        return _th.RLock if self.mode == "real" else self._RLock

    def threading_module(self):
        """Stands for the ``threading`` module in a gemseo module's globals."""
        return _Namespace(Thread=self.Thread, RLock=self.RLock, Lock=self.RLock, current_thread=_th.current_thread,
                          get_ident=_th.get_ident)

    def queue_module(self):
        return _Namespace(Queue=self.Queue, Empty=_queue.Empty, Full=_queue.Full)

    def traceback_module(self):
        """Stands for ``traceback`` in gemseo's worker loop (which catches every BaseException and prints it)."""
        sched = self

        class _TB:
            seen = []

            @staticmethod
            def print_exc(*a, **k):
                e = sys.exc_info()[1]
                _TB.seen.append(e)
                if _engine_exception(e) and sched.pending_exc is None:
                    sched.pending_exc = e

        return _TB

    def guard_engine(self):
        """Record engine exceptions raised by ``ctx.branch`` inside a worker so that main re-raises them."""
        ctx = self.ctx
        if not getattr(ctx, "symbolic", False):
            return
        orig = ctx.branch
        sched = self

        def branch(t):
            try:
                return orig(t)
            except BaseException as e:
                if _th.get_ident() != sched.main_ident and sched.pending_exc is None:
                    sched.pending_exc = e
                raise

        ctx.patch(ctx, "branch", branch)

    @property
    def main_ident(self):
        return self._main_ident

    # -------------------------------------------------------------------- internals
    def _me(self):
        rec = self.by_ident.get(_th.get_ident())
        if rec is None:
            raise SchedulerError("a thread unknown to the scheduler uses a gated primitive")
        return rec

    def _start(self, thread):
        if self._me() is not self.main:
            raise SchedulerError("gated threads may only be started by the main thread (nested parallelism is outside the model)")
        rec = _Rec(thread.name, len(self.recs))
        thread._rec = rec
        self.recs.append(rec)

        def bootstrap():
            self.by_ident[_th.get_ident()] = rec
            rec.sem.acquire()
            try:
                if not self.closed:
                    thread.run()
            except Killed:
                pass
            except BaseException as e:  # noqa: BLE001
                rec.exc = e
                if _engine_exception(e):
                    if self.pending_exc is None:
                        self.pending_exc = e
                else:
                    self.worker_errors.append((rec.name, e))
            finally:
                rec.status = "done"
                rec.pending = None
                if not self.closed:
                    chosen = self._pick(False)
                    self._handoff(None, chosen or self.main, chosen is not None)

        rec.real = _Baton()  # released when the carrier OS thread has left bootstrap
        rec.status = "live"
        _run_on_carrier(bootstrap, rec.real)
        # run the child's local prologue up to its first scheduling point (invisible to the other threads)
        self.main_busy = True
        try:
            self._handoff(self.main, rec, True)
        finally:
            self.main_busy = False
        self._raise_pending()

    def _handoff(self, me, target, grant):
        """Pass the baton to ``target`` (``grant``: it may perform its pending operation) and park ``me``."""
        self.granted = target if grant else None
        self.current = target
        target.steps += 1
        target.sem.release()
        if me is not None:
            me.sem.acquire()

    def _raise_pending(self):
        if self.pending_exc is not None:
            e, self.pending_exc = self.pending_exc, None
            raise e

    def point(self, kind, obj, enabled=None):
        """Scheduling point placed before a visible operation of the calling thread."""
        if self.closed:
            if self._me() is self.main:
                raise SchedulerError("gated primitive used after the scheduler was closed")
            raise Killed
        rec = self._me()
        if rec is not self.current:
            raise SchedulerError("a thread runs without holding the baton")
        rec.pending = (kind, obj, enabled)
        if rec is self.main:
            while True:
                self._raise_pending()
                chosen = self._pick(True)
                if chosen is self.main:
                    break
                self._handoff(self.main, chosen, True)
                self._raise_pending()
                if self.granted is self.main:
                    break
        else:
            chosen = self._pick(False)
            if chosen is not rec:
                self._handoff(rec, chosen or self.main, chosen is not None)
                if self.closed:
                    raise Killed
        rec.pending = None

    @staticmethod
    def _enabled(rec):
        return rec.status == "live" and rec.pending is not None and (rec.pending[2] is None or bool(rec.pending[2]()))

    @staticmethod
    def _independent(p, q):
        """Independence of two ENABLED pending operations of different threads in the current state: different objects;
        or a put and a get on the same non-empty FIFO queue (the get takes the head, the put appends at the tail: they
        commute and neither disables the other)."""
        if p[1] is None or q[1] is None:
            return False
        if p[1] is not q[1]:
            return True
        return {p[0], q[0]} == {"put", "get"} and len(p[1].items) >= 1

    def _pick(self, by_main):
        """Who performs the next visible operation.  Called by the baton holder.  A worker may only settle the forced case
        (exactly one candidate); it returns ``None`` whenever main has to act: a decision (``ctx.choice``), a deadlock, a
        sleep-set-blocked path, a pending engine exception, the bound on scheduling points, or main being busy."""
        if not by_main and (self.pending_exc is not None or self.main_busy):
            return None
        runnable = [r for r in self.recs if self._enabled(r)]
        if not runnable:
            if not by_main:
                return None
            waiting = [(r.name, r.pending[0], getattr(r.pending[1], "name", None)) for r in self.recs if r.status == "live" and r.pending]
            raise Deadlock(f"deadlock: no runnable thread; waiting: {waiting}")
        cands = [r for r in runnable if r not in self.sleep] if self.por else runnable
        if not cands:
            if not by_main:
                return None
            # every enabled step is asleep: this interleaving is a permutation of independent steps of an explored one
            self.ctx.assume(self.ctx.false())
            raise SchedulerError("unreachable")
        if self.n_points >= self.max_points:
            if not by_main:
                return None
            raise SchedulerError(f"more than {self.max_points} scheduling points on a path")
        i = 0
        if len(cands) > 1:
            if not by_main:
                return None
            i = self.ctx.choice(f"{self.tag}{self.n_choices}", len(cands))
            self.n_choices += 1
            if not 0 <= i < len(cands):  # a replayed model of another path: harness error, never a verdict
                raise SchedulerError("replayed schedule does not fit the execution")
        self.max_candidates = max(self.max_candidates, len(cands))
        chosen = cands[i]
        if self.por:
            op = chosen.pending
            self.sleep = [r for r in self.sleep + cands[:i] if r is not chosen and self._independent(r.pending, op)]
        self.n_points += 1
        self.trace.append((chosen.name + str(chosen.index), chosen.pending[0], getattr(chosen.pending[1], "name", "")))
        return chosen

    # -------------------------------------------------------------------- harness side
    def yield_point(self):
        """Voluntary scheduling point for HARNESS task bodies that touch shared data without synchronisation (models an
        arbitrary delay before the body runs: 'any relative task durations').  Dependent on every other operation."""
        if self.mode == "gated" and not self.closed and _th.get_ident() in self.by_ident:
            self.point("yield", None)

    def alive(self):
        """Names of the gated threads that were started and have not terminated."""
        return [r.name + str(r.index) for r in self.recs[1:] if r.status != "done"]

    def n_threads(self):
        return len(self.recs) - 1

    def drain(self):
        """Let the remaining workers run to completion or to a blocking point (used after the call returned).

        Returns True when every gated thread terminated."""
        if self.mode == "real" or self.closed:
            return True
        while True:
            self._raise_pending()
            runnable = [r for r in self.recs[1:] if self._enabled(r)]
            if not runnable:
                break
            self.main_busy = True
            try:
                self._handoff(self.main, runnable[0], True)
            finally:
                self.main_busy = False
        return not self.alive()

    def close(self):
        """Terminate every gated worker (idempotent); must run in a ``finally`` of the harness."""
        if self.closed:
            return
        self.closed = True
        for r in self.recs[1:]:
            if r.status != "done" and r.real is not None:
                r.sem.release()
        for r in self.recs[1:]:
            if r.real is not None and not r.real.acquire(5.0):
                raise SchedulerError(f"gated thread {r.name} did not terminate")


class _Namespace:
    def __init__(self, **kw):
        self.__dict__.update(kw)
