"""C01 - problem evaluations are faithful, memoized and recorded in physical space."""
from __future__ import annotations

import numpy as np

from harness.common import (SpaceInfo, _plain, _py, build_space, check_array, check_shape, db_items, elems, install_hash_stub,
                            install_np_array_stub, uf_function)

META = dict(
    bounds=dict(
        quick="design dimension n<=2 (layouts over bounded / equal-bounds / unbounded / one-sided / integer components), output dimension m<=2, request histories of length 2 (value/Jacobian chosen by the solver, points free to coincide)",
        thorough="n<=3, m<=2, histories of length 3, plus evaluate_functions and finite-difference Jacobians",
    ),
    outside=["consistency of the xxh3 byte hash with array equality (-0.0, dtypes)", "sparse Jacobians", "complex step",
             "NaN stopping (C03)", "float64 rounding of l + xn*(u-l)"],
    stubs=["hash->const for symbolic keys (hashable_ndarray.xxh3_64_hexdigest)", "hashable_ndarray.np_array keeps the SymArray subclass on copy",
           "Variable bounds written into Variable.__dict__ (representation invariant l<=u assumed)"],
    assumptions=["with round_ints=False the requested integer components are integral (the driver handles integers itself)", "user function and Jacobian are uninterpreted symbols of the physical point", "normalized request components lie in [0,1]", "design vectors passed to evaluate_functions lie within the bounds (check_bounds is on)", "integer components are requested within [lb-1, ub+1] and not in [-1/2, 0) (rounding to -0.0)",
                 "integer variables have concrete bounds"],
)

LAYOUTS = {
    "B": [("x", "float", "B")],
    "BB": [("x", "float", "BB")],
    "B,B": [("x", "float", "B"), ("yy", "float", "B")],
    "BE": [("x", "float", "BE")],
    "BU": [("x", "float", "B"), ("yy", "float", "U")],
    "LR": [("x", "float", "LR")],
    "BL": [("x", "float", "BL")],
    "E": [("x", "float", "E")],
    "Ci": [("x", "float", "C"), ("k", "integer", [(0, 5)])],
    "iC": [("k", "integer", [(-3, 4)]), ("x", "float", "C")],
    "i": [("k", "integer", [(0, 5)])],
    "BBE": [("x", "float", "BB"), ("z", "float", "E")],
    "CUi": [("x", "float", "CU"), ("k", "integer", [(2, 2)])],
}


def h_requests(ctx, cfg):
    from gemseo.algos.optimization_problem import OptimizationProblem
    from gemseo.core.mdo_functions.mdo_function import MDOFunction
    from gemseo.core.mdo_functions.mdo_linear_function import MDOLinearFunction

    install_hash_stub(ctx)
    install_np_array_stub(ctx)
    ds, info = build_space(ctx, LAYOUTS[cfg["layout"]])
    n, m = info.n, cfg["m"]
    normalized, use_db, store_jac, round_ints = cfg["normalized"], cfg["use_db"], cfg["store_jac"], cfg["round_ints"]
    scalar = cfg.get("scalar", False) and m == 1
    has_int = any(info.is_int)
    log = []
    if cfg.get("fkind", "generic") == "linear":
        A = ctx.matrix("A", m, n)
        b = ctx.reals("b", m)
        f = MDOLinearFunction(A, "f", value_at_zero=b, expr="A.x+b")
        Ael, bel = [elems(A[i]) for i in range(m)], elems(b)
        F = [lambda *xs, i=i: sum((Ael[i][j] * xs[j] for j in range(n)), bel[i]) for i in range(m)]
        dF = [[lambda *xs, i=i, j=j: Ael[i][j] for j in range(n)] for i in range(m)]
        scalar = m == 1
    else:
        func, jac, F, dF = uf_function(ctx, "F", m, n, scalar=scalar, log=log)
        f = MDOFunction(func, "f", jac=jac)
    problem = OptimizationProblem(ds)
    problem.objective = f
    problem.preprocess_functions(is_function_input_normalized=normalized, use_database=use_db, round_ints=round_ints,
                                 store_jacobian=store_jac)
    pf = problem.objective
    rounding = has_int and (normalized or round_ints)
    requests = []
    for k in range(cfg["K"]):
        kind = ctx.choice(f"kind{k}", 2)
        p = ctx.reals(f"p{k}_", n)
        pe = elems(p)
        for j in range(n):
            if normalized and info.normalized(j):
                ctx.assume(ctx.and_(ctx.le(0.0, pe[j]), ctx.le(pe[j], 1.0)))
            if info.is_int[j]:
                ctx.assume(ctx.and_(ctx.le(info.lb[j] - 1.0, pe[j]), ctx.le(pe[j], info.ub[j] + 1.0)))
                # a request in (-1/2, 0) rounds to -0.0, which equals 0.0 but has another byte hash (outside the claim, see META)
                ctx.assume(ctx.or_(ctx.le(0.0, pe[j]), ctx.lt(pe[j], -0.5)))
            if info.is_int[j] and not round_ints:
                # round_ints=False is for drivers that handle integer variables themselves: they request integral values
                ctx.assume(ctx.is_int(pe[j]))
        if normalized:
            xp = info.phys(ctx, pe, rounding=rounding)
        else:
            xp = [(_r(ctx, pe[j]) if (info.is_int[j] and round_ints) else pe[j]) for j in range(n)]
        requests.append((kind, pe, xp))
        if kind == 0:
            val = pf.evaluate(p)
            ctx.observe(f"value{k}", np.ravel(val))
            exp = [F[i](*xp) for i in range(m)]
            if scalar:
                check_array(ctx, f"value{k}", np.ravel(val), exp)
            else:
                check_array(ctx, f"value{k}", val, exp)
        else:
            J = pf.jac(p)
            ctx.observe(f"jac{k}", np.ravel(J))
            exp = [[dF[i][j](*xp) * (info.scale(j) if normalized else 1.0) for j in range(n)] for i in range(m)]
            check_array(ctx, f"jac{k}", J, exp[0] if scalar else exp)
        check_array(ctx, f"request-point-untouched{k}", p, [ctx.real(f"p{k}_{j}") for j in range(n)])
    # ---- database content -------------------------------------------------------------------
    items = db_items(problem.database)
    if not use_db:
        ctx.check("database stays empty", ctx.true() if len(items) == 0 else ctx.false())
    else:
        # every entry's key is the physical point of some request, every value is F/dF at that key
        for e, (key, outs) in enumerate(items):
            ke = elems(key)
            ctx.check(f"db-key{e} is a requested physical point", ctx.or_(*[
                ctx.or_(_all_eq(ctx, ke, xp), _all_eq(ctx, ke, pe) if not normalized else ctx.false()) for (_, pe, xp) in requests]))
            xk = [(_r(ctx, ke[j]) if (info.is_int[j] and rounding) else ke[j]) for j in range(n)]
            for name, v in outs.items():
                if name == "f":
                    check_array(ctx, f"db{e}[f]", np.ravel(v), [F[i](*xk) for i in range(m)])
                elif name == "@f":
                    if not store_jac:
                        ctx.check("Jacobian stored although store_jacobian=False", ctx.false())
                    exp = [[(0.0 if (normalized and info.kind[j] == "E" and info.normalized(j)) else dF[i][j](*xk)) for j in range(n)] for i in range(m)]
                    check_array(ctx, f"db{e}[@f]", v, exp[0] if scalar else exp)
                else:
                    ctx.check(f"unexpected output name {name} in the database", ctx.false())
        # keys pairwise distinct
        for a in range(len(items)):
            for b in range(a + 1, len(items)):
                ctx.check(f"db keys {a},{b} distinct", ctx.not_(_all_eq(ctx, elems(items[a][0]), elems(items[b][0]))))
        # each request is recorded (value always, Jacobian when stored)
        for k, (kind, pe, xp) in enumerate(requests):
            want = "f" if kind == 0 else ("@f" if store_jac else None)
            if want is None:
                continue
            ctx.check(f"request{k} recorded under its physical point", ctx.or_(*[
                ctx.and_(ctx.or_(_all_eq(ctx, elems(key), xp), _all_eq(ctx, elems(key), pe) if not normalized else ctx.false()),
                         ctx.true() if want in outs else ctx.false()) for key, outs in items]))
        # first-request order of the keys
        # memoization: the original callables are never called twice at the same point with the same kind
        if cfg.get("fkind", "generic") == "generic":
            for a in range(len(log)):
                for b in range(a + 1, len(log)):
                    if log[a][0] != log[b][0]:
                        continue
                    if log[a][0] == "jac" and not store_jac:
                        continue
                    if has_int and round_ints and not normalized:
                        # physical-mode keys are the caller's (unrounded) points: two requests rounding to one point are two entries
                        continue
                    ctx.check(f"original {log[a][0]} called once per point (calls {a},{b})", ctx.not_(_all_eq(ctx, log[a][1], log[b][1])))
    ctx.observe("n_original_calls", [float(len(log))])


def h_evaluate_functions(ctx, cfg):
    """EvaluationProblem.evaluate_functions: objective, constraint and observable values/Jacobians at the physical point of
    the design vector, whichever coordinates the caller uses and the functions expect."""
    from gemseo.algos.optimization_problem import OptimizationProblem
    from gemseo.core.mdo_functions.mdo_function import MDOFunction

    install_hash_stub(ctx)
    install_np_array_stub(ctx)
    ds, info = build_space(ctx, LAYOUTS[cfg["layout"]])
    n = info.n
    log = []
    fo, jo, F, dF = uf_function(ctx, "F", 1, n, log=log)
    fg, jg, G, dG = uf_function(ctx, "G", 2, n, log=log)
    fh, jh, H, dH = uf_function(ctx, "H", 1, n, log=log)
    problem = OptimizationProblem(ds)
    problem.objective = MDOFunction(fo, "f", jac=jo)
    problem.add_constraint(MDOFunction(fg, "g", jac=jg), constraint_type="ineq")
    problem.add_observable(MDOFunction(fh, "h", jac=jh))
    pre_norm, vec_norm = cfg["preprocess_normalized"], cfg["vector_normalized"]
    if cfg["preprocess"]:
        problem.preprocess_functions(is_function_input_normalized=pre_norm, use_database=cfg["use_db"], round_ints=False)
    p = ctx.reals("p_", n)
    pe = elems(p)
    for j in range(n):
        if vec_norm and info.normalized(j):
            ctx.assume(ctx.and_(ctx.le(0.0, pe[j]), ctx.le(pe[j], 1.0)))
        elif info.kind[j] in "BC":
            ctx.assume(ctx.and_(ctx.le(info.lb[j], pe[j]), ctx.le(pe[j], info.ub[j])))
        elif info.kind[j] == "E":
            ctx.assume(ctx.eq(pe[j], info.lb[j]))
        elif info.kind[j] == "L":
            ctx.assume(ctx.le(info.lb[j], pe[j]))
        elif info.kind[j] == "R":
            ctx.assume(ctx.le(pe[j], info.ub[j]))
    xp = info.phys(ctx, pe, rounding=False) if vec_norm else pe
    want_jac = cfg["jac"]
    outs, jacs = problem.evaluate_functions(design_vector=p, design_vector_is_normalized=vec_norm, output_functions=(),
                                            jacobian_functions=() if want_jac else None)
    funcs_normalized = cfg["preprocess"] and pre_norm     # coordinates in which the Jacobians are expressed
    for name, U, dU, m in (("f", F, dF, 1), ("g", G, dG, 2), ("h", H, dH, 1)):
        ctx.check(f"{name} evaluated", ctx.true() if name in outs else ctx.false())
        if name in outs:
            check_array(ctx, f"value {name}", np.ravel(outs[name]), [U[i](*xp) for i in range(m)])
            ctx.observe(f"value {name}", np.ravel(outs[name]))
        if want_jac:
            ctx.check(f"jacobian of {name} evaluated", ctx.true() if name in jacs else ctx.false())
            if name in jacs:
                exp = [[dU[i][j](*xp) * (info.scale(j) if funcs_normalized else 1.0) for j in range(n)] for i in range(m)]
                check_array(ctx, f"jac {name}", jacs[name], exp)
    check_array(ctx, "design vector untouched", p, [ctx.real(f"p_{j}") for j in range(n)])
    if cfg["preprocess"] and cfg["use_db"]:
        items = db_items(problem.database)
        ctx.check("one database entry", ctx.true() if len(items) == 1 else ctx.false())
        for key, outs_ in items:
            check_array(ctx, "db key is the physical point", key, xp)
            for name, U, m in (("f", F, 1), ("g", G, 2), ("h", H, 1)):
                if name in outs_:
                    check_array(ctx, f"db[{name}]", np.ravel(outs_[name]), [U[i](*xp) for i in range(m)])


def h_fd(ctx, cfg):
    """Finite-difference Jacobians through the problem: the returned Jacobian is a difference quotient of the ORIGINAL function
    in the caller's coordinates, the recorded one is its physical counterpart, and the probe points are not recorded."""
    from gemseo.algos.optimization_problem import OptimizationProblem
    from gemseo.core.mdo_functions.mdo_function import MDOFunction

    install_hash_stub(ctx)
    install_np_array_stub(ctx)
    _install_fd_stubs(ctx)
    ds, info = build_space(ctx, LAYOUTS[cfg["layout"]])
    n, m = info.n, cfg["m"]
    normalized = cfg["normalized"]
    h = cfg["h"]
    log = []
    func, _, F, _ = uf_function(ctx, "F", m, n, log=log)
    problem = OptimizationProblem(ds, differentiation_method="finite_differences", differentiation_step=h)
    problem.objective = MDOFunction(func, "f")
    problem.preprocess_functions(is_function_input_normalized=normalized, use_database=True, round_ints=False)
    pf = problem.objective
    p = ctx.reals("p_", n)
    pe = elems(p)
    for j in range(n):
        if normalized and info.normalized(j):
            ctx.assume(ctx.and_(ctx.le(0.0, pe[j]), ctx.le(pe[j], 1.0)))
        elif info.kind[j] in "BC":
            ctx.assume(ctx.and_(ctx.le(info.lb[j], pe[j]), ctx.le(pe[j], info.ub[j])))
        elif info.kind[j] == "L":
            ctx.assume(ctx.le(info.lb[j], pe[j]))
        elif info.kind[j] == "R":
            ctx.assume(ctx.le(pe[j], info.ub[j]))
    if cfg.get("value_first"):
        pf.evaluate(p)
    J = pf.jac(p)
    ctx.observe("jac", np.ravel(J))

    def phys(v):
        return info.phys(ctx, v, rounding=False) if normalized else v

    x0 = phys(pe)
    if check_shape(ctx, "jac", J, (m, n)):
        Jp = _plain(J)
        for j in range(n):
            fw = [pe[k] + (h if k == j else 0.0) for k in range(n)]
            bw = [pe[k] - (h if k == j else 0.0) for k in range(n)]
            for i in range(m):
                qf = (F[i](*phys(fw)) - F[i](*x0)) / h
                qb = (F[i](*x0) - F[i](*phys(bw))) / h
                ctx.check(f"jac[{i},{j}] is a forward or backward difference quotient of the original function",
                          ctx.or_(ctx.eq(_py(Jp[i, j]), qf), ctx.eq(_py(Jp[i, j]), qb)))
    items = db_items(problem.database)
    ctx.check("probe points are not recorded: one entry", ctx.true() if len(items) == 1 else ctx.false())
    for key, outs in items:
        check_array(ctx, "db key is the physical point", key, x0)
        if "@f" in outs and check_shape(ctx, "db[@f]", outs["@f"], (m, n)):
            Jd, Jp = _plain(outs["@f"]), _plain(J)
            for j in range(n):
                sc = info.scale(j) if normalized else 1.0
                for i in range(m):
                    ctx.check(f"db[@f][{i},{j}] is the returned Jacobian in physical coordinates", ctx.eq(_py(Jd[i, j]) * sc, _py(Jp[i, j])))
    # (how many times the approximator evaluates the base point is not asserted: its own evaluations are probe evaluations)


def _install_fd_stubs(ctx):
    if not ctx.symbolic:
        return
    import gemseo.utils.derivatives.base_gradient_approximator as bga
    import gemseo.utils.derivatives.finite_differences as fdm
    from symgem.core import SymArray, as_symarray

    real_array = bga.array

    def array(obj, *a, **k):
        k.pop("dtype", None)
        return as_symarray(obj) if isinstance(obj, (list, tuple, np.ndarray)) else real_array(obj, *a, **k)

    ctx.patch(bga, "array", array)


def _r(ctx, v):
    from harness.common import rint

    return rint(ctx, v)


def _all_eq(ctx, a, b):
    if len(a) != len(b):
        return ctx.false()
    return ctx.and_(*[ctx.eq(x, y) for x, y in zip(a, b)])


def configs(tier):
    out = []
    K = 2 if tier == "quick" else 3
    lays = ["B", "BB", "BE", "BU", "LR", "BL", "E", "Ci", "iC"] if tier == "quick" else list(LAYOUTS)
    for lay in lays:
        has_int = "i" in lay
        for normalized in (True, False):
            for use_db in (True, False):
                for store_jac in ((True, False) if use_db else (True,)):
                    for round_ints in ((True, False) if has_int else (True,)):
                        for m in (1, 2):
                            if tier == "quick" and m == 2 and lay not in ("BB", "BE", "Ci"):
                                continue
                            out.append(("requests", dict(layout=lay, m=m, normalized=normalized, use_db=use_db, store_jac=store_jac,
                                                         round_ints=round_ints, K=K)))
                        if lay in ("B", "BB", "BE", "Ci"):
                            out.append(("requests", dict(layout=lay, m=1, scalar=True, normalized=normalized, use_db=use_db, store_jac=store_jac,
                                                         round_ints=round_ints, K=K)))
                        if lay in ("B", "BB", "BE", "Ci", "BU", "LR", "BL", "iC", "CUi"):
                            # linear functions take their own normalization path (MDOLinearFunction.normalize): every kind of component
                            out.append(("requests", dict(layout=lay, m=2, fkind="linear", normalized=normalized, use_db=use_db, store_jac=store_jac,
                                                         round_ints=round_ints, K=K)))
    for lay in (["B", "BE", "BU"] if tier == "quick" else ["B", "BB", "BE", "BU", "LR", "E", "B,B"]):
        for pre, pre_norm, use_db in ((False, False, False), (True, True, True), (True, False, True), (True, True, False)):
            for vec_norm in (True, False):
                for jac in (True, False):
                    if tier == "quick" and not jac and not (pre and pre_norm and use_db):
                        continue
                    out.append(("evaluate_functions", dict(layout=lay, preprocess=pre, preprocess_normalized=pre_norm, use_db=use_db,
                                                           vector_normalized=vec_norm, jac=jac)))
    for lay in (["B", "BE"] if tier == "quick" else ["B", "BB", "BE", "BU"]):
        for normalized in (True, False):
            for m_ in (1, 2):
                out.append(("fd", dict(layout=lay, m=m_, normalized=normalized, h=0.25, value_first=(m_ == 2))))
    # longer histories on a few layouts (three requests: a third request can hit either of two recorded points)
    for lay in (["B", "BE"] if tier == "quick" else []):
        for normalized in (True, False):
            for store_jac in (True, False):
                out.append(("requests", dict(layout=lay, m=1, normalized=normalized, use_db=True, store_jac=store_jac, round_ints=True, K=3)))
    return out


HARNESSES = {"requests": h_requests, "evaluate_functions": h_evaluate_functions, "fd": h_fd}


# ---- extension: sparse linear functions and sparse user Jacobians (harness/C01_sparse.py) -------------------------------------------
from harness import C01_sparse as _sparse  # noqa: E402

HARNESSES.update(_sparse.HARNESSES)
_base_configs = configs


def configs(tier):  # noqa: F811
    return _base_configs(tier) + _sparse.configs(tier)


META["outside"] = [o for o in META["outside"] if o != "sparse Jacobians"] + _sparse.META["outside"]
META["stubs"] = META["stubs"] + _sparse.META["stubs"]
META["assumptions"] = META["assumptions"] + _sparse.META["assumptions"]
META["bounds"] = {t: META["bounds"][t] + "; " + _sparse.META["bounds"][t] for t in META["bounds"]}
