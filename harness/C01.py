"""C01 - problem evaluations are faithful, memoized and recorded in physical space."""
from __future__ import annotations

import numpy as np

from harness.common import (SpaceInfo, _plain, _py, build_space, check_array, check_shape, db_items, elems, install_hash_stub,
                            install_np_array_stub, uf_function)

META = dict(
    bounds=dict(
        quick="design dimension n<=2 (layouts over bounded / equal-bounds / unbounded / one-sided / integer components), output dimension m<=2, request histories of length 2 (value/Jacobian chosen by the solver, points free to coincide)",
        thorough="n<=3, m<=2, histories of length 3, plus evaluate_functions and finite-difference Jacobians",
    ),
    outside=["consistency of the xxh3 byte hash with array equality (-0.0, dtypes)", "sparse Jacobians", "complex step",
             "NaN stopping (C03)", "float64 rounding of l + xn*(u-l)"],
    stubs=["hash->const for symbolic keys (hashable_ndarray.xxh3_64_hexdigest)", "hashable_ndarray.np_array keeps the SymArray subclass on copy",
           "Variable bounds written into Variable.__dict__ (representation invariant l<=u assumed)"],
    assumptions=["with round_ints=False the requested integer components are integral (the driver handles integers itself)", "user function and Jacobian are uninterpreted symbols of the physical point", "normalized request components lie in [0,1]", "integer components are requested within [lb-1, ub+1]",
                 "integer variables have concrete bounds"],
)

LAYOUTS = {
    "B": [("x", "float", "B")],
    "BB": [("x", "float", "BB")],
    "B,B": [("x", "float", "B"), ("yy", "float", "B")],
    "BE": [("x", "float", "BE")],
    "BU": [("x", "float", "B"), ("yy", "float", "U")],
    "LR": [("x", "float", "LR")],
    "BL": [("x", "float", "BL")],
    "E": [("x", "float", "E")],
    "Ci": [("x", "float", "C"), ("k", "integer", [(0, 5)])],
    "iC": [("k", "integer", [(-3, 4)]), ("x", "float", "C")],
    "i": [("k", "integer", [(0, 5)])],
    "BBE": [("x", "float", "BB"), ("z", "float", "E")],
    "CUi": [("x", "float", "CU"), ("k", "integer", [(2, 2)])],
}


def h_requests(ctx, cfg):
    from gemseo.algos.optimization_problem import OptimizationProblem
    from gemseo.core.mdo_functions.mdo_function import MDOFunction
    from gemseo.core.mdo_functions.mdo_linear_function import MDOLinearFunction

    install_hash_stub(ctx)
    install_np_array_stub(ctx)
    ds, info = build_space(ctx, LAYOUTS[cfg["layout"]])
    n, m = info.n, cfg["m"]
    normalized, use_db, store_jac, round_ints = cfg["normalized"], cfg["use_db"], cfg["store_jac"], cfg["round_ints"]
    scalar = cfg.get("scalar", False) and m == 1
    has_int = any(info.is_int)
    log = []
    if cfg.get("fkind", "generic") == "linear":
        A = ctx.matrix("A", m, n)
        b = ctx.reals("b", m)
        f = MDOLinearFunction(A, "f", value_at_zero=b, expr="A.x+b")
        Ael, bel = [elems(A[i]) for i in range(m)], elems(b)
        F = [lambda *xs, i=i: sum((Ael[i][j] * xs[j] for j in range(n)), bel[i]) for i in range(m)]
        dF = [[lambda *xs, i=i, j=j: Ael[i][j] for j in range(n)] for i in range(m)]
        scalar = m == 1
    else:
        func, jac, F, dF = uf_function(ctx, "F", m, n, scalar=scalar, log=log)
        f = MDOFunction(func, "f", jac=jac)
    problem = OptimizationProblem(ds)
    problem.objective = f
    problem.preprocess_functions(is_function_input_normalized=normalized, use_database=use_db, round_ints=round_ints,
                                 store_jacobian=store_jac)
    pf = problem.objective
    rounding = has_int and (normalized or round_ints)
    requests = []
    for k in range(cfg["K"]):
        kind = ctx.choice(f"kind{k}", 2)
        p = ctx.reals(f"p{k}_", n)
        pe = elems(p)
        for j in range(n):
            if normalized and info.normalized(j):
                ctx.assume(ctx.and_(ctx.le(0.0, pe[j]), ctx.le(pe[j], 1.0)))
            if info.is_int[j]:
                ctx.assume(ctx.and_(ctx.le(info.lb[j] - 1.0, pe[j]), ctx.le(pe[j], info.ub[j] + 1.0)))
            if info.is_int[j] and not round_ints:
                # round_ints=False is for drivers that handle integer variables themselves: they request integral values
                ctx.assume(ctx.is_int(pe[j]))
        if normalized:
            xp = info.phys(ctx, pe, rounding=rounding)
        else:
            xp = [(_r(ctx, pe[j]) if (info.is_int[j] and round_ints) else pe[j]) for j in range(n)]
        requests.append((kind, pe, xp))
        if kind == 0:
            val = pf.evaluate(p)
            ctx.observe(f"value{k}", np.ravel(val))
            exp = [F[i](*xp) for i in range(m)]
            if scalar:
                check_array(ctx, f"value{k}", np.ravel(val), exp)
            else:
                check_array(ctx, f"value{k}", val, exp)
        else:
            J = pf.jac(p)
            ctx.observe(f"jac{k}", np.ravel(J))
            exp = [[dF[i][j](*xp) * (info.scale(j) if normalized else 1.0) for j in range(n)] for i in range(m)]
            check_array(ctx, f"jac{k}", J, exp[0] if scalar else exp)
        check_array(ctx, f"request-point-untouched{k}", p, [ctx.real(f"p{k}_{j}") for j in range(n)])
    # ---- database content -------------------------------------------------------------------
    items = db_items(problem.database)
    if not use_db:
        ctx.check("database stays empty", ctx.true() if len(items) == 0 else ctx.false())
    else:
        # every entry's key is the physical point of some request, every value is F/dF at that key
        for e, (key, outs) in enumerate(items):
            ke = elems(key)
            ctx.check(f"db-key{e} is a requested physical point", ctx.or_(*[
                ctx.or_(_all_eq(ctx, ke, xp), _all_eq(ctx, ke, pe) if not normalized else ctx.false()) for (_, pe, xp) in requests]))
            xk = [(_r(ctx, ke[j]) if (info.is_int[j] and rounding) else ke[j]) for j in range(n)]
            for name, v in outs.items():
                if name == "f":
                    check_array(ctx, f"db{e}[f]", np.ravel(v), [F[i](*xk) for i in range(m)])
                elif name == "@f":
                    if not store_jac:
                        ctx.check("Jacobian stored although store_jacobian=False", ctx.false())
                    exp = [[(0.0 if (normalized and info.kind[j] == "E" and info.normalized(j)) else dF[i][j](*xk)) for j in range(n)] for i in range(m)]
                    check_array(ctx, f"db{e}[@f]", v, exp[0] if scalar else exp)
                else:
                    ctx.check(f"unexpected output name {name} in the database", ctx.false())
        # keys pairwise distinct
        for a in range(len(items)):
            for b in range(a + 1, len(items)):
                ctx.check(f"db keys {a},{b} distinct", ctx.not_(_all_eq(ctx, elems(items[a][0]), elems(items[b][0]))))
        # each request is recorded (value always, Jacobian when stored)
        for k, (kind, pe, xp) in enumerate(requests):
            want = "f" if kind == 0 else ("@f" if store_jac else None)
            if want is None:
                continue
            ctx.check(f"request{k} recorded under its physical point", ctx.or_(*[
                ctx.and_(ctx.or_(_all_eq(ctx, elems(key), xp), _all_eq(ctx, elems(key), pe) if not normalized else ctx.false()),
                         ctx.true() if want in outs else ctx.false()) for key, outs in items]))
        # first-request order of the keys
        # memoization: the original callables are never called twice at the same point with the same kind
        if cfg.get("fkind", "generic") == "generic":
            for a in range(len(log)):
                for b in range(a + 1, len(log)):
                    if log[a][0] != log[b][0]:
                        continue
                    if log[a][0] == "jac" and not store_jac:
                        continue
                    if has_int and round_ints and not normalized:
                        # physical-mode keys are the caller's (unrounded) points: two requests rounding to one point are two entries
                        continue
                    ctx.check(f"original {log[a][0]} called once per point (calls {a},{b})", ctx.not_(_all_eq(ctx, log[a][1], log[b][1])))
    ctx.observe("n_original_calls", [float(len(log))])


def _r(ctx, v):
    from harness.common import rint

    return rint(ctx, v)


def _all_eq(ctx, a, b):
    if len(a) != len(b):
        return ctx.false()
    return ctx.and_(*[ctx.eq(x, y) for x, y in zip(a, b)])


def configs(tier):
    out = []
    K = 2 if tier == "quick" else 3
    lays = ["B", "BB", "BE", "BU", "LR", "E", "Ci", "iC"] if tier == "quick" else list(LAYOUTS)
    for lay in lays:
        has_int = "i" in lay
        for normalized in (True, False):
            for use_db in (True, False):
                for store_jac in ((True, False) if use_db else (True,)):
                    for round_ints in ((True, False) if has_int else (True,)):
                        for m in (1, 2):
                            if tier == "quick" and m == 2 and lay not in ("BB", "BE", "Ci"):
                                continue
                            out.append(("requests", dict(layout=lay, m=m, normalized=normalized, use_db=use_db, store_jac=store_jac,
                                                         round_ints=round_ints, K=K)))
                        if lay in ("B", "BB", "BE", "Ci"):
                            out.append(("requests", dict(layout=lay, m=1, scalar=True, normalized=normalized, use_db=use_db, store_jac=store_jac,
                                                         round_ints=round_ints, K=K)))
                            out.append(("requests", dict(layout=lay, m=2, fkind="linear", normalized=normalized, use_db=use_db, store_jac=store_jac,
                                                         round_ints=round_ints, K=K)))
    # longer histories on a few layouts (three requests: a third request can hit either of two recorded points)
    for lay in (["B", "BE"] if tier == "quick" else []):
        for normalized in (True, False):
            for store_jac in (True, False):
                out.append(("requests", dict(layout=lay, m=1, normalized=normalized, use_db=True, store_jac=store_jac, round_ints=True, K=3)))
    return out


HARNESSES = {"requests": h_requests}
