"""C06 (extension) - the Newton family and the acceleration methods of the MDA algorithms.

Helper module of ``harness/C06.py`` (which registers the harnesses ``newton``, ``accel`` and ``rescale`` defined here).

``newton``: the real ``MDANewtonRaphson`` / ``MDAGSNewton`` / ``MDAChain(inner_mda_name="MDANewtonRaphson")`` /
``MDASequential([MDAJacobi | MDAGaussSeidel, MDANewtonRaphson])`` executed on AFFINE coupled systems with concrete dyadic
coefficients, symbolic inputs and symbolic initial couplings.  The disciplines are the affine harness disciplines of ``harness/C07.py``
(``_disc_class``) with EXACT partial derivatives (the coefficients of their affine map).  The linear solve inside
``JacobianAssembly.compute_newton_step`` goes through scipy.sparse / the Krylov wrappers: the contract stubs of C07 (``install_stubs``)
are reused unchanged (value-preserving dense containers, every solve an exact solve re-checked as obligations ``A x == b``); the
concrete replays and the differential self-test run the real SciPy.

``accel``: ``MDAJacobi`` / ``MDAGaussSeidel`` with every acceleration method x over-relaxation factor, on the scalar systems of C06.py and
one- / two-dimensional couplings.  ``scipy.linalg.lstsq`` (alternate 2-delta, minimum polynomial) is a contract stub: the minimum-norm
least-squares solution in closed form for at most two columns / two rows, re-checked through the normal equations.

``rescale``: one MDAJacobi / MDAGaussSeidel object executed twice with a change of the residual scaling in between (the second run must
honour the new scaling).

The oracles are explicit formulas: the closed-form solution of the affine system (rational Gauss-Jordan elimination in the harness,
``C07.consistent_point``), and the affine maps themselves written out on scalars.
"""
from __future__ import annotations

from fractions import Fraction

import numpy as np

from harness import C07
from harness.common import _plain, _py, elems, exact_const

# ------------------------------------------------------------------------------------------------
# systems (format of C07.SYSTEMS: (name, {input: size}, {output: size})); registered additively in C07.SYSTEMS so that C07.Sys, the
# affine disciplines and the closed-form solution of C07 can be reused as they are (C07.configs enumerates CLEAN_SYSTEMS only)
# ------------------------------------------------------------------------------------------------
EXTRA_SYSTEMS = {
    # two strongly connected components (d0 <-> d1, d2 <-> d3; the second reads y1 of the first) and a weakly coupled discipline downstream
    "n_two_scc": [("d0", {"x": 1, "y1": 1}, {"y0": 1}), ("d1", {"y0": 1, "u": 1}, {"y1": 1, "f": 1}),
                  ("d2", {"y1": 1, "y3": 1}, {"y2": 1}), ("d3", {"y2": 1, "w": 1}, {"y3": 1}), ("down", {"y3": 1, "y0": 1}, {"h": 1})],
    # a single self-coupled discipline (scalar coupling) and a self-coupled discipline with a vector coupling
    "n_self1": [("d0", {"x": 1, "y0": 1}, {"y0": 1, "f": 1})],
    "n_self2": [("d0", {"x": 1, "y0": 2}, {"y0": 2})],
}
for _k, _v in EXTRA_SYSTEMS.items():
    C07.SYSTEMS.setdefault(_k, _v)


class ExactPartials:
    """The partial derivatives of the affine harness disciplines of C07: the coefficients of their affine execution map."""

    def __init__(self, ctx, S):
        self.ctx, self.S = ctx, S

    def block(self, d, ins, o, i, values):
        return [[C07._coef(self.ctx, self.S, d, o, k, i, j) for j in range(self.S.sizes[i])] for k in range(self.S.sizes[o])]


def _cst(ctx, c):
    return 0.0 if c == 0 else (exact_const(ctx, Fraction(c)) if ctx.symbolic else float(c))


def affine_output(ctx, S, o, k, values):
    """Component k of output o of its discipline at ``values`` = {name: [scalars]} (explicit formula, oracle side)."""
    d, ins, _ = S.prod[o]
    acc = 0.0
    for i in sorted(ins):
        for j in range(ins[i]):
            c = C07._coef_frac(S, d, o, k, i, j)
            if c != 0:
                acc = acc + _cst(ctx, c) * values[i][j]
    return acc


def norm_inf_A(S):
    """Infinity norm of the coupling part of the affine map (rows = output components, columns = components of outputs of the system)."""
    best = Fraction(0)
    for o in S.outs:
        d, ins, _ = S.prod[o]
        for k in range(S.sizes[o]):
            best = max(best, sum((abs(C07._coef_frac(S, d, o, k, i, j)) for i in ins if i in S.outs for j in range(ins[i])), Fraction(0)))
    return best


# ------------------------------------------------------------------------------------------------
# the real MDAs
# ------------------------------------------------------------------------------------------------
def _leaves(mda):
    """The elementary MDAs (those owning a residual history of their own) of a possibly composite MDA, in execution order."""
    out = []
    subs = list(getattr(mda, "mda_sequence", None) or []) + list(getattr(mda, "inner_mdas", None) or [])
    if not subs:
        return [mda]
    for m in subs:
        out.extend(_leaves(m))
    return out


def set_tolerance(mda, tol):
    """Overwrite the (pydantic-validated, hence concrete) tolerance by the symbolic one on the MDA and all its sub-MDAs."""
    todo = [mda]
    while todo:
        m = todo.pop()
        m.settings.__dict__["tolerance"] = tol
        todo.extend(list(getattr(m, "mda_sequence", None) or []) + list(getattr(m, "inner_mdas", None) or []))


def build_newton(cfg, discs):
    from gemseo.core.discipline import Discipline
    from gemseo.mda.gauss_seidel import MDAGaussSeidel
    from gemseo.mda.gs_newton import MDAGSNewton
    from gemseo.mda.jacobi import MDAJacobi
    from gemseo.mda.mda_chain import MDAChain
    from gemseo.mda.newton_raphson import MDANewtonRaphson
    from gemseo.mda.sequential_mda import MDASequential

    K = cfg["K"]
    base = dict(max_mda_iter=K, tolerance=1e-6, log_convergence=False)
    newton = dict(base, n_processes=1, newton_linear_solver_name=cfg.get("solver", "DEFAULT"), over_relaxation_factor=cfg.get("omega", 1.0),
                  acceleration_method=cfg.get("accel", "NoTransformation"))
    if "ebl" in cfg:
        newton["execute_before_linearizing"] = bool(cfg["ebl"])
    kind = cfg["mda"]
    if kind == "newton":
        mda = MDANewtonRaphson(discs, **newton)
    elif kind == "gsnewton":
        mda = MDAGSNewton(discs, newton_settings=dict(n_processes=1, newton_linear_solver_name=cfg.get("solver", "DEFAULT")), **base)
    elif kind == "chain":
        mda = MDAChain(discs, inner_mda_name="MDANewtonRaphson", inner_mda_settings=newton, **base)
    elif kind in ("seq_gs", "seq_jacobi"):
        first = MDAGaussSeidel(discs, **base) if kind == "seq_gs" else MDAJacobi(discs, n_processes=1, **base)
        mda = MDASequential(discs, [first, MDANewtonRaphson(discs, **newton)], **base)
    else:
        raise ValueError(kind)
    todo = [mda]
    while todo:
        m = todo.pop()
        m.set_cache(Discipline.CacheType.NONE)
        if hasattr(m, "matrix_type"):
            m.matrix_type = cfg.get("matrix", "matrix")
        chain = getattr(m, "mdo_chain", None)
        if chain is not None:
            for q in [chain, *chain.disciplines]:
                q.set_cache(Discipline.CacheType.NONE)
        todo.extend(list(getattr(m, "mda_sequence", None) or []) + list(getattr(m, "inner_mdas", None) or []))
    return mda


WEAK_MSG = "The MDANewtonRaphson has weakly coupled disciplines"


def solver_budget(ctx, first_ms=8000):
    """First-attempt timeout of the solver queries of these harnesses (the engine retries an 'unknown' once on a fresh non-linear solver
    with three times this budget and reports the configuration as inconclusive - never as success - if it is still unknown)."""
    ctx = getattr(ctx, "_ctx", ctx)   # the engine context behind the _Ctx wrapper
    if ctx.symbolic and ctx.query_timeout_ms > first_ms:
        ctx.query_timeout_ms = first_ms
        ctx.solver.set("timeout", first_ms)


class _Stop(Exception):
    """Raised by the harness itself after the first failed obligation of a path (the remaining ones would only repeat it, and every
    counterexample costs several non-linear solver queries)."""


class _Ctx:
    """Thin wrapper of the engine context: ``check`` stops the path at the first failed obligation; everything else is forwarded."""

    def __init__(self, ctx):
        self._ctx = ctx

    def __getattr__(self, name):
        return getattr(self._ctx, name)

    def check(self, label, formula):
        ok = self._ctx.check(label, formula)
        if ok is False and self._ctx.symbolic:
            raise _Stop
        return ok


def _guarded(fn):
    def harness(ctx, cfg):
        import time

        from symgem.core import Budget

        if ctx.symbolic and getattr(ctx, "violations", None) and time.perf_counter() - ctx.t_start > 20.0:
            # counterexamples were already found in this configuration: stop exploring it (reported as budget; the violations stand).
            # Never taken on a tree that satisfies the property.
            raise Budget("violations already found in this configuration; remaining paths skipped")
        try:
            fn(_Ctx(ctx) if ctx.symbolic else ctx, cfg)
        except _Stop:
            pass

    harness.__name__ = fn.__name__
    harness.__doc__ = fn.__doc__
    return harness


def h_newton(ctx, cfg):
    """Newton family on an affine well-posed system; see the module docstring and META of C06.py for the obligations."""
    from gemseo.mda.newton_raphson import MDANewtonRaphson

    solver_budget(ctx)
    S = C07.Sys(cfg["system"])
    sizes = S.sizes
    sc = C07.install_stubs(ctx)
    partials = ExactPartials(ctx, S)
    log = []
    cls = C07._disc_class()
    discs = [cls(ctx, S, d, i, o, rs, partials, cfg.get("jac_mode", "all"), log) for (d, i, o, rs) in S.discs]
    n = len(discs)
    orders = cfg.get("orders") or [list(range(n))]
    order = orders[ctx.choice("order", len(orders))]
    discs = [discs[k] for k in order]

    xroot = {nm: [ctx.real(f"p_{nm}{k}") for k in range(sizes[nm])] for nm in S.roots}
    ystar = C07.consistent_point(ctx, S, xroot)   # the exact solution, explicit linear combinations of the inputs
    start = cfg.get("start", "free")
    if start == "solution":
        y0 = {nm: list(v) for nm, v in ystar.items()}
    else:
        y0 = {nm: [ctx.real(f"{nm}{k}_init") for k in range(sizes[nm])] for nm in S.couplings}

    try:
        mda = build_newton(cfg, discs)
    except ValueError as e:
        # MDANewtonRaphson refuses weakly coupled disciplines with an explicit message: permitted
        if WEAK_MSG in str(e) and cfg.get("weak_refused"):
            ctx.observe("refused", [1.0])
            return
        raise
    if cfg.get("weak_refused"):
        ctx.check("a weakly coupled system is refused by MDANewtonRaphson or solved", ctx.true())
    tol = ctx.real("tol")
    ctx.assume(ctx.lt(0.0, tol))
    set_tolerance(mda, tol)
    scaling = cfg.get("scaling", "no_scaling")
    mda.scaling = mda.ResidualScaling(scaling)
    K = cfg["K"]

    data = {nm: ctx.array(list(v)) for nm, v in {**xroot, **y0}.items()}
    out = mda.execute(data)

    ret = {nm: elems(out[nm]) for nm in S.outs}
    for nm in sorted(S.outs):
        ctx.observe(nm, np.ravel(out[nm]))
    values = {**xroot, **{nm: ret[nm] for nm in S.outs}}
    leaves = _leaves(mda)
    newtons = [m for m in leaves if isinstance(m, MDANewtonRaphson)]
    iters = [len(m.residual_history) for m in leaves]
    ctx.observe("iterations", [float(v) for v in iters])

    exact = None
    if start == "solution":
        exact = "started at the exact solution"
    elif cfg.get("omega", 1.0) == 1.0 and cfg.get("accel", "NoTransformation") == "NoTransformation" and newtons and all(len(m.residual_history) >= 2 for m in newtons):
        # one full Newton step on an affine system lands on the exact solution, whatever the start
        exact = "after a full Newton step"
    if exact:
        for nm in S.couplings:
            for k in range(sizes[nm]):
                ctx.check(f"{exact}: returned {nm}[{k}] is the exact solution", ctx.eq(ret[nm][k], ystar[nm][k]))
        for nm in S.outs:
            for k in range(sizes[nm]):
                ctx.check(f"{exact}: returned {nm}[{k}] == its discipline re-evaluated on the returned data",
                          ctx.eq(ret[nm][k], affine_output(ctx, S, nm, k, values)))
    # (a) every elementary MDA that was run last on its couplings and claims convergence: the disciplines are satisfied within ||A|| tol
    if scaling in ("no_scaling", "n_coupling_variables"):
        nA = norm_inf_A(S)
        scale = 1 if scaling == "no_scaling" else 2   # N_COUPLING_VARIABLES divides by sqrt(n) <= 2 for n <= 4
        bound = _cst(ctx, nA * scale) * tol
        last = {}
        for m in leaves:
            if len(m.residual_history) == 0:
                continue
            for nm in S.couplings:
                if any(nm in d.io.output_grammar for d in m.disciplines):
                    last[nm] = m
        for nm in S.couplings:
            m = last.get(nm)
            if m is None:
                continue
            res = elems(m.normed_residual)[0]
            claim = ctx.true() if len(m.residual_history) < K else ctx.le(res, tol)
            for k in range(sizes[nm]):
                d = affine_output(ctx, S, nm, k, values) - ret[nm][k]
                ctx.check(f"{type(m).__name__} claims convergence => |G_{nm}[{k}](y) - {nm}[{k}]| <= ||A|| * tol",
                          ctx.implies(claim, ctx.and_(ctx.le(d, bound), ctx.le(-bound, d))))
    if start == "solution" and scaling == "no_scaling":
        for m in leaves:
            if len(m.residual_history):
                ctx.check(f"{type(m).__name__}: reported residual is zero at the exact solution", ctx.eq(elems(m.normed_residual)[0], 0.0))


# ------------------------------------------------------------------------------------------------
# acceleration methods
# ------------------------------------------------------------------------------------------------
ACCELERATIONS = ("NoTransformation", "Aitken", "Secant", "Alternate2Delta", "AlternateDeltaSquared", "MinimumPolynomial")
# number of residual evaluations after which a run with this method has executed the disciplines on its first accelerated iterate
FIRST_ACCELERATED = {"Aitken": 3, "Secant": 3, "MinimumPolynomial": 3, "AlternateDeltaSquared": 4}
# float64 replay of h_accel: an iterate farther than THROWN * (1 + initial error + |solution|) from the solution is the trace of a division by rounding noise
THROWN = 1.0e6


class LstsqContract:
    """Stands for ``scipy.linalg.lstsq`` (LAPACK gelsd) on matrices with at most two rows and two columns: the MINIMUM-NORM least-squares
    solution and the exact rank, in closed form (rank decided by exact zero tests; the ``cond`` threshold on small singular values is
    outside the contract).  The closed forms are re-checked by the solver once per path and case, on GENERIC entries (fresh reals
    constrained only by the case condition): the normal equations ``M^T (M x - b) == 0``."""

    def __init__(self, ctx):
        self.ctx = ctx
        self.verified = set()

    @staticmethod
    def _closed_form(m, bv, n, k, full):
        if full:
            det = m[0][0] * m[1][1] - m[0][1] * m[1][0]
            return [(bv[0] * m[1][1] - m[0][1] * bv[1]) / det, (m[0][0] * bv[1] - bv[0] * m[1][0]) / det]
        # rank one (a single row, a single column, or a singular 2 x 2 matrix): pinv(M) = M^T / ||M||_F^2
        F = 0.0
        for r in range(n):
            for c in range(k):
                F = F + m[r][c] * m[r][c]
        x = []
        for c in range(k):
            acc = 0.0
            for r in range(n):
                acc = acc + m[r][c] * bv[r]
            x.append(acc / F)
        return x

    def _verify(self, n, k, full):
        """The normal equations hold for the closed form x = N / D, on generic entries of this shape and case: stated division-free and
        without any hypothesis as the polynomial identities ``M^T (M N - D b) == 0`` (N = adj(M) b, D = det(M) in the full-rank case;
        N = M^T b, D = ||M||_F^2 for a single row or column), so that nothing is added to the path condition."""
        ctx = self.ctx
        key = (n, k, full)
        if key in self.verified or (n == 2 and k == 2 and not full):
            # singular non-zero 2 x 2 matrix M = u v^T: M^T M M^T = |u|^2 |v|^2 M^T = ||M||_F^2 M^T, hence x = M^T b / ||M||_F^2 satisfies
            # the normal equations; that identity needs the hypothesis det(M) == 0 and is not re-checked by the solver (non-linear, slow)
            return
        self.verified.add(key)
        tag = f"_lstsq{n}{k}{'f' if full else 'r'}"
        m = [[ctx.real(f"{tag}_m{r}{c}") for c in range(k)] for r in range(n)]
        bv = [ctx.real(f"{tag}_b{r}") for r in range(n)]
        if full:
            D = m[0][0] * m[1][1] - m[0][1] * m[1][0]
            N = [bv[0] * m[1][1] - m[0][1] * bv[1], m[0][0] * bv[1] - bv[0] * m[1][0]]
        else:
            D = 0.0
            for r in range(n):
                for c in range(k):
                    D = D + m[r][c] * m[r][c]
            N = []
            for c in range(k):
                acc = 0.0
                for r in range(n):
                    acc = acc + m[r][c] * bv[r]
                N.append(acc)
        for c in range(k):
            acc = 0.0
            for r in range(n):
                row = 0.0
                for q in range(k):
                    row = row + m[r][q] * N[q]
                acc = acc + m[r][c] * (row - D * bv[r])
            ctx.check(f"stub contract: lstsq {n}x{k} {'full rank' if full else 'rank one'}: normal equation {c}: M^T (M N - D b) == 0 for x = N / D (generic entries)",
                      ctx.eq(acc, 0.0))

    def __call__(self, M, b, cond=None, **kw):
        from symgem.core import Unsupported

        ctx = self.ctx
        M = _plain(np.asarray(M))
        b = _plain(np.asarray(b))
        if M.ndim != 2 or b.ndim != 1 or M.shape[0] != b.shape[0] or M.shape[0] > 2 or M.shape[1] > 2:
            raise Unsupported(f"lstsq contract stub: shapes {M.shape} / {b.shape} (at most 2 x 2 and one right-hand side)")
        n, k = M.shape
        m = [[_py(M[r, c]) for c in range(k)] for r in range(n)]
        bv = [_py(v) for v in b]

        def is0(v):
            return bool(v == 0)

        if all(is0(m[r][c]) for r in range(n) for c in range(k)):
            return ctx.array([0.0] * k), None, 0, None
        full = n == 2 and k == 2 and not is0(m[0][0] * m[1][1] - m[0][1] * m[1][0])
        self._verify(n, k, full)
        x = self._closed_form(m, bv, n, k, full)
        return ctx.array(x), None, (2 if full else 1), None


def install_accel_stubs(ctx, uses_lstsq=False):
    """Returns the list in which the ranks reported by the successive lstsq calls of Alternate2Delta are recorded (both modes: in concrete
    mode the real scipy.linalg.lstsq runs behind a recording wrapper)."""
    import gemseo.algos.sequence_transformer.acceleration.alternate_2_delta as a2d

    ranks = []
    if not ctx.symbolic:
        real = a2d.lstsq

        def recording(*a, **k):
            r = real(*a, **k)
            ranks.append(int(r[2]))
            return r

        ctx.patch(a2d, "lstsq", recording, symbolic_only=False)
        return ranks
    import gemseo.algos.sequence_transformer.acceleration.minimum_polynomial as mp
    import gemseo.mda.base_mda_solver as bms
    from symgem.core import SymReal

    lc = LstsqContract(ctx)
    if uses_lstsq:
        # the closed forms of the contract are verified first, while the path condition is still empty
        for n, k, full in ((1, 1, False), (2, 1, False), (1, 2, False), (2, 2, True)):
            lc._verify(n, k, full)

    def recording(*a, **k):
        r = lc(*a, **k)
        ranks.append(int(r[2]))
        return r

    ctx.patch(a2d, "lstsq", recording)
    ctx.patch(mp, "lstsq", lc)
    ctx.patch(bms, "float", lambda v: v if isinstance(v, SymReal) else float(v))
    return ranks


def build_fixed_point(cfg, discs):
    from gemseo.core.discipline import Discipline
    from gemseo.mda.gauss_seidel import MDAGaussSeidel
    from gemseo.mda.jacobi import MDAJacobi

    common = dict(max_mda_iter=cfg["K"], tolerance=1e-6, log_convergence=False, over_relaxation_factor=cfg.get("omega", 1.0),
                  acceleration_method=cfg.get("accel", "NoTransformation"))
    mda = MDAJacobi(discs, n_processes=1, **common) if cfg["mda"] == "jacobi" else MDAGaussSeidel(discs, **common)
    mda.set_cache(Discipline.CacheType.NONE)
    return mda


def h_accel(ctx, cfg):
    """MDAJacobi / MDAGaussSeidel with an acceleration method and an over-relaxation factor on an affine contracting system."""
    solver_budget(ctx)
    S = C07.Sys(cfg["system"])
    sizes = S.sizes
    ranks = install_accel_stubs(ctx, cfg.get("accel") in ("Alternate2Delta", "MinimumPolynomial"))
    partials = ExactPartials(ctx, S)
    log = []
    cls = C07._disc_class()
    discs = [cls(ctx, S, d, i, o, rs, partials, "all", log) for (d, i, o, rs) in S.discs]
    if cfg.get("order"):
        discs = [discs[k] for k in cfg["order"]]
    if cfg.get("xfix"):
        # concrete dyadic inputs (quick tier, two-dimensional couplings: fewer symbols in the rational terms of the accelerated iterates)
        vals = iter(cfg["xfix"])
        xroot = {nm: [_cst(ctx, Fraction(next(vals))) for k in range(sizes[nm])] for nm in sorted(S.roots)}
    else:
        xroot = {nm: [ctx.real(f"p_{nm}{k}") for k in range(sizes[nm])] for nm in S.roots}
    ystar = C07.consistent_point(ctx, S, xroot)
    start = cfg.get("start", "free")
    if start == "solution":
        y0 = {nm: list(v) for nm, v in ystar.items()}
    else:
        y0 = {nm: [ctx.real(f"{nm}{k}_init") for k in range(sizes[nm])] for nm in S.couplings}
    mda = build_fixed_point(cfg, discs)
    tol = ctx.real("tol")
    ctx.assume(ctx.lt(0.0, tol))
    set_tolerance(mda, tol)
    scaling = cfg.get("scaling", "no_scaling")
    mda.scaling = mda.ResidualScaling(scaling)
    K = cfg["K"]
    data = {nm: ctx.array(list(v)) for nm, v in {**xroot, **y0}.items()}
    iterates = []
    if not ctx.symbolic:
        # float64 replay: record every coupling iterate handed to a discipline (see ``_thrown`` below)
        for d_ in discs:
            def _run(input_data, _orig=d_._run):
                iterates.append({nm: np.array(input_data[nm], dtype=float) for nm in S.couplings if nm in input_data})
                return _orig(input_data)
            d_._run = _run
    zero_division = False
    try:
        out = mda.execute(data)
    except ZeroDivisionError:
        # symbolic mode only (float64 yields nan/inf and goes on): a 0/0 or x/0 inside an acceleration formula on a feasible path
        if not ctx.symbolic:
            raise
        zero_division = True
    label = "the accelerated MDA returns finite couplings (no division by zero in the acceleration formulas)"
    if zero_division:
        ctx.check(label, ctx.false())
        return
    finite = True
    if not ctx.symbolic:
        # The symbolic run decides this obligation (ZeroDivisionError on a feasible path: a denominator that is EXACTLY zero).  In the
        # float64 replay of such a counterexample the exact 0/0 shows up in one of two ways, depending on whether the intermediate
        # quotients of the model happen to be representable: NaN/inf couplings, or a denominator of rounding noise (~1e-16 relative)
        # that throws the next iterate ~1e10..1e16 times the initial error away from the solution (a later sweep may bring it back).
        # Both are recognised: some iterate handed to a discipline, or the returned value, is not finite or lies farther than
        # THROWN * (1 + |y0 - y*| + |y*|) from the exact solution y* of the contraction.
        iterates.append({nm: np.asarray(out[nm], dtype=float) for nm in S.couplings})
        finite = all(bool(np.all(np.isfinite(np.asarray(out[nm], dtype=float)))) for nm in S.outs)
        ref = {nm: np.array([float(v) for v in ystar[nm]]) for nm in S.couplings}
        ini = {nm: np.array([float(v) for v in y0[nm]]) for nm in S.couplings}
        scale = 1.0 + max(float(np.max(np.abs(ini[nm] - ref[nm]))) for nm in S.couplings) + max(float(np.max(np.abs(ref[nm]))) for nm in S.couplings)
        for it in iterates:
            for nm, v in it.items():
                if not np.all(np.isfinite(v)) or float(np.max(np.abs(v - ref[nm]))) > THROWN * scale:
                    finite = False
    ctx.check(label, ctx.true() if finite else ctx.false())
    if not finite:
        return
    ret = {nm: elems(out[nm]) for nm in S.outs}
    for nm in sorted(S.outs):
        ctx.observe(nm, np.ravel(out[nm]))
    n_iter = len(mda.residual_history)
    ctx.observe("iterations", [float(n_iter)])
    values = {**xroot, **ret}
    accel, omega = cfg.get("accel", "NoTransformation"), cfg.get("omega", 1.0)
    exact = None
    if start == "solution":
        exact = "started at the exact solution"
    elif cfg.get("scalar_exact") and omega == 1.0 and n_iter >= FIRST_ACCELERATED[accel]:
        # scalar affine coupling: the first accelerated iterate of the delta-squared type formulas is the exact fixed point
        exact = f"scalar affine coupling, after the first {accel} step"
    elif cfg.get("dim2_exact") and accel == "Alternate2Delta" and omega == 1.0 and n_iter >= 4 and ranks and ranks[0] == 2:
        # two-dimensional affine coupling, the two difference vectors independent (lstsq reported rank 2): the alternate 2-delta iterate
        # built from three successive iterates is the exact fixed point
        exact = "two-dimensional affine coupling, after the first full-rank Alternate2Delta step"
    if exact:
        for nm in S.couplings:
            for k in range(sizes[nm]):
                ctx.check(f"{exact}: returned {nm}[{k}] is the exact solution", ctx.eq(ret[nm][k], ystar[nm][k]))
        for nm in S.outs:
            for k in range(sizes[nm]):
                ctx.check(f"{exact}: returned {nm}[{k}] == its discipline re-evaluated on the returned data",
                          ctx.eq(ret[nm][k], affine_output(ctx, S, nm, k, values)))
        if start == "solution" and scaling == "no_scaling":
            ctx.check("reported residual is zero at the exact solution", ctx.eq(elems(mda.normed_residual)[0], 0.0))
    if scaling in ("no_scaling", "n_coupling_variables"):
        nA = norm_inf_A(S)
        scale = 1 if scaling == "no_scaling" else 2
        bound = _cst(ctx, nA * scale) * tol
        res = elems(mda.normed_residual)[0]
        claim = ctx.true() if n_iter < K else ctx.le(res, tol)
        for nm in S.couplings:
            for k in range(sizes[nm]):
                d = affine_output(ctx, S, nm, k, values) - ret[nm][k]
                ctx.check(f"converged => |G_{nm}[{k}](y) - {nm}[{k}]| <= ||A|| * tol",
                          ctx.implies(claim, ctx.and_(ctx.le(d, bound), ctx.le(-bound, d))))


def h_rescale(ctx, cfg):
    """One MDA object executed twice with a change of the residual scaling in between: the second run must honour the NEW scaling.

    First execution: scaling ``old``, one sweep (this is where gemseo computes and stores the data of the scaling), symbolic inputs and
    start.  Then ``mda.scaling = new`` and a second execution from another symbolic start at other symbolic inputs.  Obligation (same
    derivation as 'converged'): if the second run claims convergence, every discipline is satisfied within ||A|| * tol * scale(new);
    for the modes relative to an initial residual (not asserted: which residual is 'initial' across executions is not documented) the
    second execution must simply not fail."""
    solver_budget(ctx)
    S = C07.Sys(cfg["system"])
    sizes = S.sizes
    install_accel_stubs(ctx)
    partials = ExactPartials(ctx, S)
    cls = C07._disc_class()
    discs = [cls(ctx, S, d, i, o, rs, partials, "all", []) for (d, i, o, rs) in S.discs]
    K = cfg["K"]
    mda = build_fixed_point(dict(cfg, K=K), discs)
    tol = ctx.real("tol")
    ctx.assume(ctx.lt(0.0, tol))
    set_tolerance(mda, tol)
    if cfg["old"] != "default":
        mda.scaling = mda.ResidualScaling(cfg["old"])
    mda.settings.__dict__["max_mda_iter"] = 1
    xa = {nm: [ctx.real(f"a_{nm}{k}") for k in range(sizes[nm])] for nm in S.roots}
    ya = {nm: [ctx.real(f"a_{nm}{k}_init") for k in range(sizes[nm])] for nm in S.couplings}
    mda.execute({nm: ctx.array(list(v)) for nm, v in {**xa, **ya}.items()})
    mda.settings.__dict__["max_mda_iter"] = K
    new = cfg["new"]
    mda.scaling = mda.ResidualScaling(new)
    xb = {nm: [ctx.real(f"p_{nm}{k}") for k in range(sizes[nm])] for nm in S.roots}
    yb = {nm: [ctx.real(f"{nm}{k}_init") for k in range(sizes[nm])] for nm in S.couplings}
    out = mda.execute({nm: ctx.array(list(v)) for nm, v in {**xb, **yb}.items()})
    ret = {nm: elems(out[nm]) for nm in S.outs}
    for nm in sorted(S.outs):
        ctx.observe(nm, np.ravel(out[nm]))
    n_iter = len(mda.residual_history)
    ctx.observe("iterations", [float(n_iter)])
    ctx.check("the second execution (after the change of scaling) completes", ctx.true())
    if new not in ("no_scaling", "n_coupling_variables"):
        return
    values = {**xb, **ret}
    nA = norm_inf_A(S)
    scale = 1 if new == "no_scaling" else 2   # N_COUPLING_VARIABLES divides by sqrt(n) <= 2 for n <= 4
    bound = _cst(ctx, nA * scale) * tol
    res = elems(mda.normed_residual)[0]
    claim = ctx.true() if n_iter < K else ctx.le(res, tol)
    for nm in S.couplings:
        for k in range(sizes[nm]):
            d = affine_output(ctx, S, nm, k, values) - ret[nm][k]
            ctx.check(f"second run, scaling {new}: converged => |G_{nm}[{k}](y) - {nm}[{k}]| <= ||A|| * tol * scale",
                      ctx.implies(claim, ctx.and_(ctx.le(d, bound), ctx.le(-bound, d))))


def newton_configs(tier):
    quick = tier == "quick"
    out = []

    def add(system, mda, K=2, **kw):
        n = len(C07.SYSTEMS[system])
        cfg = dict(system=system, mda=mda, K=K, **kw)
        if n > 1 and "orders" not in cfg and not kw.get("weak_refused"):
            cfg["orders"] = [list(range(n)), list(reversed(range(n)))]   # the listing order is chosen by the solver
        out.append(("newton", cfg))

    two = ("ring2", "self", "n_self1", "n_self2")
    three = ("ring2v", "ring3")
    # MDANewtonRaphson itself: sparse-matrix and linear-operator representations of dR/dy
    for system in two + (() if quick else three):
        for matrix in ("matrix", "linear_operator"):
            add(system, "newton", matrix=matrix)
    if quick:
        add("ring2v", "newton", matrix="matrix", orders=[[0, 1]])
        add("ring3", "newton", matrix="linear_operator", orders=[[2, 0, 1]])
    # the linear solver of the Newton step (all through the same solve contract: this exercises the library plumbing)
    for solver in ("LGMRES", "GMRES") if quick else ("LGMRES", "GMRES", "BICGSTAB", "TFQMR"):
        add("ring2", "newton", K=3, solver=solver)
        if not quick:
            add("self", "newton", K=3, solver=solver, matrix="linear_operator")
    # stationarity: started at the exact solution
    for system in ("ring2", "self", "ring2v") if quick else two + three:
        add(system, "newton", start="solution", orders=None)
        if not quick:
            add(system, "newton", start="solution", orders=None, matrix="linear_operator", scaling="n_coupling_variables")
    # one iteration only (the convergence claim alone), other scaling, disciplines filling only the requested blocks, execution before linearization
    add("ring2", "newton", K=1)
    add("ring2", "newton", scaling="n_coupling_variables")
    add("self", "newton", jac_mode="requested")
    add("ring2", "newton", ebl=True)
    if not quick:
        add("ring2v", "newton", K=3, scaling="n_coupling_variables")
        add("ring3", "newton", jac_mode="requested", ebl=True)
    # relaxed / accelerated Newton iterations: convergence claim and stationarity only
    add("ring2", "newton", K=3, omega=0.5)
    add("self", "newton", K=3, accel="Secant")
    if not quick:
        add("ring2", "newton", K=3, omega=1.5)
        add("n_self2", "newton", K=3, accel="Aitken")
        add("ring2", "newton", K=3, omega=0.5, start="solution")
    # MDAGSNewton, MDASequential([Jacobi | Gauss-Seidel, Newton])
    for system in ("ring2", "self") if quick else two + three:
        add(system, "gsnewton")
    add("ring2", "seq_gs")
    add("self", "seq_jacobi")
    if not quick:
        add("ring3", "seq_gs")
        add("ring2v", "seq_jacobi")
        add("ring2", "gsnewton", K=3, matrix="linear_operator", solver="GMRES")
    # MDAChain with MDANewtonRaphson as inner MDA: weakly coupled disciplines around a strongly coupled pair, two strongly connected components
    add("weak", "chain")
    add("n_two_scc", "chain")
    add("n_two_scc", "chain", matrix="linear_operator", orders=[[4, 3, 2, 1, 0]])
    if not quick:
        add("weak", "chain", matrix="linear_operator", solver="GMRES", K=3)
        add("weak", "chain", start="solution", orders=None)
        add("n_two_scc", "chain", start="solution", orders=None)
        add("ring2v", "chain")
    # MDANewtonRaphson refuses weakly coupled disciplines (explicit ValueError: permitted)
    add("weak", "newton", weak_refused=True)
    return out


def accel_configs(tier):
    quick = tier == "quick"
    out = []
    methods = [m for m in ACCELERATIONS if m != "NoTransformation"]
    for accel in methods:
        K = FIRST_ACCELERATED.get(accel, 4) + (0 if quick else 1)
        exact = accel in FIRST_ACCELERATED
        # scalar coupling (one self-coupled discipline): exactness of the first accelerated iterate for the delta-squared type formulas
        for mda in ("jacobi", "gs"):
            out.append(("accel", dict(system="n_self1", mda=mda, K=K, accel=accel, scalar_exact=exact)))
        # with over-relaxation (composition relaxation -> acceleration)
        # (one sweep more than for the exactness statements: the second accelerated iterate is computed and executed)
        Kr = FIRST_ACCELERATED.get(accel, 4) + 1
        for omega in (0.5, 1.5):
            out.append(("accel", dict(system="n_self1", mda="jacobi", K=Kr, accel=accel, omega=omega)))
            # (Gauss-Seidel with relaxation != 1 and a delta-squared type formula: the exact-arithmetic 0/0 of the open finding
            # C06-acceleration-zero-denominator-with-relaxation is rounding noise / rounding noise in float64 there, so its counterexamples do
            # not replay as NaN: those configurations are left out rather than reported unsoundly)
            if not quick and accel not in ("Aitken", "Secant", "AlternateDeltaSquared"):
                out.append(("accel", dict(system="n_self1", mda="gs", K=Kr, accel=accel, omega=omega)))
        # two-dimensional couplings
        K2 = 4 if accel.startswith("Alternate") else 3
        # quick tier (and Alternate2Delta in both tiers: with symbolic inputs that single configuration takes 18 min): concrete inputs,
        # symbolic initial couplings and tolerance
        fix = dict(xfix=[1, -2]) if quick or accel == "Alternate2Delta" else {}
        out.append(("accel", dict(system="ring2", mda="jacobi", K=K2, accel=accel, dim2_exact=accel == "Alternate2Delta", **fix)))
        out.append(("accel", dict(system="n_self2", mda="gs", K=K2, accel=accel, **fix)))
        if accel == "Alternate2Delta":
            # a coupling matrix whose square is not a multiple of the identity (on ring2 swapping the two coefficients of the formula is invisible)
            out.append(("accel", dict(system="self", mda="jacobi", K=K2, accel=accel, dim2_exact=True, xfix=[1, -2])))
        if not quick:
            if not fix:
                out.append(("accel", dict(system="ring2", mda="jacobi", K=K2, accel=accel, xfix=[1, -2])))
            out.append(("accel", dict(system="ring2", mda="gs", K=K2, accel=accel)))
            if accel != "Alternate2Delta":   # (Alternate2Delta on 'self': above, both tiers)
                out.append(("accel", dict(system="self", mda="jacobi", K=K2, accel=accel, xfix=[1, -2])))
            out.append(("accel", dict(system="ring2", mda="jacobi", K=K2, accel=accel, order=[1, 0], scaling="n_coupling_variables")))
            for omega in (0.5, 1.5):
                out.append(("accel", dict(system="ring2", mda="jacobi", K=K2, accel=accel, omega=omega)))
        # stationarity
        out.append(("accel", dict(system="ring2", mda="jacobi", K=3, accel=accel, start="solution")))
        out.append(("accel", dict(system="n_self1", mda="gs", K=3, accel=accel, omega=1.5, start="solution")))
        if not quick:
            out.append(("accel", dict(system="self", mda="gs", K=3, accel=accel, omega=0.5, start="solution")))
    if quick:
        out.append(("accel", dict(system="ring2", mda="jacobi", K=3, accel="Aitken", omega=1.5, xfix=[1, -2])))
        out.append(("accel", dict(system="ring2", mda="gs", K=3, accel="Secant", omega=0.5, xfix=[1, -2])))
    return out


SCALINGS = ("no_scaling", "initial_residual_norm", "initial_subresidual_norm", "n_coupling_variables", "initial_residual_component",
            "scaled_initial_residual_component")


def rescale_configs(tier):
    quick = tier == "quick"
    out = []
    pairs = [("default", "n_coupling_variables"), ("default", "no_scaling"), ("no_scaling", "n_coupling_variables"),
             ("n_coupling_variables", "no_scaling"), ("default", "initial_subresidual_norm"), ("initial_residual_component", "n_coupling_variables")]
    if not quick:
        pairs = [(a, b) for a in SCALINGS for b in SCALINGS if a != b]
    for mda in ("gs", "jacobi"):
        for old, new in pairs:
            if quick and mda == "jacobi" and old != "default":
                continue
            out.append(("rescale", dict(system="ring2", mda=mda, K=2, old=old, new=new)))
    return out


def configs(tier):
    return newton_configs(tier) + accel_configs(tier) + rescale_configs(tier)


HARNESSES = {"newton": _guarded(h_newton), "accel": _guarded(h_accel), "rescale": _guarded(h_rescale)}
