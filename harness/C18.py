"""C18 - surrogate models are consistent with their own predictions and data (partial: RBF, linear, polynomial, scalers).

Fitting (SciPy / scikit-learn, compiled) is done concretely on small fixed learning sets; the query point (and, for
the kernel harness, the centre and epsilon) is symbolic.  "The Jacobian is the derivative of the prediction" is decided
with the term differentiator ``symgem/diff.py`` applied to what the *public* ``predict`` returned on the symbolic point.
"""
from __future__ import annotations

import numpy as np

from harness.common import _plain, _py, elems

KERNELS = ["multiquadric", "inverse_multiquadric", "gaussian", "linear", "cubic", "quintic", "thin_plate"]
EPS_FREE = ["linear", "cubic", "quintic", "thin_plate"]  # SciPy's kernels for these do not use epsilon
TRANSCENDENTAL = ["gaussian", "thin_plate"]  # exp/log are uninterpreted: their values are not comparable in the self-test

META = dict(
    bounds=dict(
        quick="(a) RBF kernel derivatives der_K(x-c, |x-c|, eps) vs the derivative of SciPy's own Rbf._h_K(|x-c|): 7 kernels, d in {1,2}, symbolic x, c in "
              "[-8,8]^d, x != c; symbolic eps > 0 for multiquadric / inverse_multiquadric / gaussian, eps = 1 for linear / cubic / quintic / thin_plate "
              "(eps = 1/2 and 2, d = 1, exhibit the recorded defect); der_K = 0 at the centre for every eps in (0,8]. "
              "(b) fitted models, public predict_jacobian(x) vs derivative of the public predict(x), symbolic x in [-8,8]^n: RBF (7 kernels) on a 1-input/"
              "1-output set (8 samples) with free x, on a 2-input/2-output set (6 samples) with free x for the algebraic kernels and x pinned at one probe "
              "point for all; eps in {1/8, 1/4, 1/2, 1, 2}; RBF 1-input with default (MinMax/MinMax) and Standard + Pipeline transformers; LinearRegressor "
              "and PolynomialRegressor (degree 2; degree 3 once) on 3 learning sets x 5 transformer layouts, with/without intercept; 1 sample (2 samples "
              "for 4 configurations). (c) Scaler / MinMaxScaler (incl. constant and zero features) / StandardScaler / Pipeline of 2-3 of them (also with a user-defined full-matrix linear transformer, a shear, whose Jacobian does not commute with the scalers) / empty "
              "Pipeline, d <= 2, 1-D and 2-D symbolic data. (d) SurrogateDiscipline over linear / polynomial / RBF models, dictionary inputs "
              "(two input variables, outputs of size 1 and 2).",
        thorough="same, plus every symbolic derivative cross-checked with sympy.diff at random rational points, 4 transformer layouts for the RBF models, "
                 "2-sample queries for 6 kernels, polynomial degree 3 with transformers",
    ),
    outside=[
        "fitting (scipy.linalg / scikit-learn solvers); 'interpolating models reproduce their learning data' is therefore only observed numerically "
        "(concrete mode, RBF with smooth=0), not decided by the solver",
        "PCE, soft-classification MoE (its Jacobian is not implemented), the clustering / classification of the hard MoE (scikit-learn KMeans / KNN: "
        "replaced by a contract stub, see stubs), Gaussian processes, random forests, PCA/PLS/KPCA/KLSVD, Power/BoxCox/YeoJohnson (scikit-learn PowerTransformer), JamesonSensor, "
        "penalised linear models, user-defined RBF kernels and norms",
        "that SciPy's Rbf.__call__ (compiled cdist) equals sum_k nodes_k h(|x-xi_k|): confirmed numerically in concrete mode only",
        "free (unpinned) 2-input queries for the gaussian / thin_plate fitted models and thin_plate with eps != 1 at model level: z3 answers unknown "
        "(exp/log monotonicity instances over several irrational distances); these kernels are covered by (a) and by the pinned / 1-input queries",
        "transformers attached to single variables (predict_jacobian raises NotImplementedError by design); shape of the empty Pipeline's Jacobian for 2-D data "
        "((d,d) instead of (n,d,d): broadcastable, not asserted)",
        "epsilon values for which 1.0/epsilon is inexact in float64 (SciPy evaluates fl(1/eps)*r, gemseo r/eps: equal in exact arithmetic only for powers of two)",
        "deviations below 1e-3 relative + 1e-9 (+ 1e-8 (1 + |f| + sum|nodes|)) absolute between a Jacobian and the derivative: obligations are 'equal or "
        "within that slack' so that every counterexample is confirmable in float64 by finite differences of the public predict; float-rounded parameters "
        "(fl(1/coefficient), float matrix products of scaler Jacobians) make exact equality false by ~1e-16 in exact arithmetic",
        "float64 rounding; NaN / inf data",
    ],
    stubs=[
        "scipy.interpolate.Rbf.__call__ (symbolic mode): SciPy's own body with the float64 cast dropped and cdist replaced by explicit Euclidean norms; "
        "kernel evaluation still runs SciPy's Rbf._h_<kernel>",
        "scipy.interpolate._rbf.xlogy(a,b) -> a*log(b) for b>0",
        "RBFRegressor.RBFDerivatives.TOL (machine epsilon, regularises r->0) -> 0 away from the centres (the real TOL is used at the centre)",
        "sklearn estimator._validate_data -> identity (input validation / float64 conversion) on the fitted LinearRegression and PolynomialFeatures instances; "
        "their pure-numpy predict / transform bodies run on the symbols",
        "SurrogateDiscipline.default_grammar_type = SIMPLE, cache disabled",
        "MOERegressor (hard): clusterer, classifier and experts are fitted concretely; at query time classifier._predict (compiled scikit-learn KNN) is a "
        "contract stub returning, per sample, an arbitrary class in range(n_clusters) chosen by the solver (also in concrete mode); gemseo's own "
        "classifier.predict / predict_proba(hard) / formatters still run; moe.py's module-level zeros -> object arrays of 0.0",
        "symgem/diff.py (term differentiator) is part of the trusted base: unit-tested on closed forms in every run (harness 'diff') and cross-checked with "
        "sympy.diff on every term it is used on in the thorough tier",
    ],
    assumptions=["the query point differs from every RBF centre", "epsilon > 0", "symbolic inputs lie in [-8, 8]",
                 "fitted parameters are the exact rationals of the float64 values produced by the concrete fit",
                 "exp / log are uninterpreted (ground monotonicity / positivity instances only); sqrt(t) is the non-negative root of t"],
)

EXPLORER_OPTS = {"quick": dict(selftest_paths=2), "thorough": dict(selftest_paths=3)}


# ------------------------------------------------------------------------------------------------------------
# derivative oracle usable in both modes
# ------------------------------------------------------------------------------------------------------------
def ref_jacobian(ctx, f, x, cfg, values=None, cond=0.0):
    """[[d f_i / d x_j]] for ``f``: 1-D array -> flat sequence of scalars, at the point ``x``.

    Symbolic mode: the terms ``values`` (= f(x), already executed on the symbolic point) are differentiated by
    ``symgem.diff`` (every derivative cross-checked with sympy when cfg["sympy"]).  Concrete mode (replay and
    self-test) cannot differentiate: 4th-order central finite differences of ``f`` (the public predict / transform in
    float64).  Returns (jac, slack): slack[i] is the absolute deviation tolerated for row i, 1e-8 (1 + |f_i| + cond)
    symbolically and the ten times smaller finite-difference error allowance concretely (``cond``: concrete magnitude of
    the cancelling summands behind f, e.g. sum |nodes| of an RBF), so that a symbolic counterexample exceeds what the
    replay tolerates.
    """
    xs = elems(x)
    if ctx.symbolic:
        from symgem import diff as D

        vals = elems(values if values is not None else f(x))
        return D.jacobian(ctx, vals, xs, check_with_sympy=bool(cfg.get("sympy"))), [10 * FD_TOL * (1.0 + abs(v) + cond) for v in vals]
    x0 = np.array(xs, dtype=float)
    base = [float(v) for v in elems(f(x0))]
    jac = [[0.0] * len(xs) for _ in base]
    for j in range(len(xs)):
        h = 1e-4 * max(1.0, abs(x0[j]))
        e = np.zeros(len(xs))
        e[j] = h
        f1, f2, f3, f4 = ([float(v) for v in elems(f(x0 + k * e))] for k in (-2, -1, 1, 2))
        for i in range(len(base)):
            jac[i][j] = (f1[i] - 8 * f2[i] + 8 * f3[i] - f4[i]) / (12 * h)
    return jac, [FD_TOL * (1.0 + abs(v) + cond) for v in base]


FD_TOL = 1e-9
ATOL = 1e-9  # float-rounded parameters (fl(1/coefficient), products of float matrices) leave absolute residues ~1e-16 in exact arithmetic


def same(ctx, a, b, slack=0.0):
    """'a equals b': symbolically 'equal, or within 1e-3 relative + 1e-9 (+ slack) absolute'; concretely rtol 1e-5 + 1e-9
    (+ the smaller concrete slack), so that every symbolic counterexample is confirmable in float64."""
    if ctx.symbolic:
        from symgem import diff as D

        # cross_equal(a, b) implies a == b (cross-multiplied identity with non-zero denominators): a pure hint for the solver
        return ctx.or_(D.cross_equal(a, b), ctx.eq(a, b), ctx.le(abs(a - b), 1e-3 * (abs(a) + abs(b)) + ATOL + slack))
    a, b = float(a), float(b)
    return abs(a - b) <= 1e-5 * max(abs(a), abs(b)) + ATOL + slack


BOX = 8.0


def _box(ctx, values):
    """Symbolic inputs range over [-8, 8] (keeps counterexamples within float64's comfortable range)."""
    ctx.assume(ctx.and_(*[ctx.and_(ctx.le(-BOX, v), ctx.le(v, BOX)) for v in values]))


def check_shape(ctx, label, a, shape):
    ok = tuple(np.shape(a)) == tuple(shape)
    ctx.check(f"{label}: shape {tuple(np.shape(a))} == {tuple(shape)}", ctx.true() if ok else ctx.false())
    return ok


def check_jac(ctx, label, J, ref, tol):
    """J (n_out x n_in array returned by the code) against the reference derivatives ref[i][j]."""
    n_out, n_in = len(ref), len(ref[0])
    if not check_shape(ctx, label, J, (n_out, n_in)):
        return
    Jp = _plain(J) if isinstance(J, np.ndarray) else np.asarray(J, dtype=object)
    for i in range(n_out):
        for j in range(n_in):
            ctx.check(f"{label}[{i},{j}]", same(ctx, _py(Jp[i, j]), ref[i][j], tol[i]))


# ------------------------------------------------------------------------------------------------------------
# stubs (symbolic mode only)
# ------------------------------------------------------------------------------------------------------------
def _install_rbf_stubs(ctx):
    import scipy.interpolate._rbf as rbfmod
    from gemseo.mlearning.regression.algos.rbf import RBFRegressor
    from scipy.interpolate import Rbf

    # xlogy(a, b) = a*log(b) (0 where a == 0) is a compiled ufunc: restated for b > 0 (r > 0 is assumed)
    ctx.patch(rbfmod, "xlogy", lambda a, b: a * np.log(b))
    # TOL = machine epsilon only regularises r -> 0: idealised as 0 in real arithmetic
    ctx.patch(RBFRegressor.RBFDerivatives, "TOL", 0.0)

    assumed = {}  # distances already assumed positive on this path (the engine returns the same auxiliary for the same radicand)

    def rbf_call(self, *args):
        """scipy.interpolate.Rbf.__call__ without the float64 cast, cdist replaced by explicit Euclidean norms."""
        args = [np.asarray(a) for a in args]
        shp = args[0].shape + (self._target_dim,) if self._target_dim > 1 else args[0].shape
        cols = [elems(a) for a in args]
        n = len(cols[0])
        r = np.empty((n, self.N), dtype=object)
        for s in range(n):
            for k in range(self.N):
                r[s, k] = np.sqrt(sum((cols[j][s] - float(self.xi[j, k])) ** 2 for j in range(len(cols))))
        new = [v for v in r.ravel() if id(v) not in assumed and not assumed.update({id(v): v})]
        if new:
            ctx.assume(ctx.and_(*[ctx.lt(0.0, v) for v in new]))  # away from the centres
        return np.dot(self._function(ctx.array(r)), self.nodes).reshape(shp)

    ctx.patch(Rbf, "__call__", rbf_call)


def _install_sklearn_stub(ctx, estimator):
    ctx.patch(estimator, "_validate_data", lambda X="no_validation", *a, **k: X)


# ------------------------------------------------------------------------------------------------------------
# RBF kernels: der_K(x - c, |x - c|, eps) == d/dx  Rbf._h_K(|x - c|)
# ------------------------------------------------------------------------------------------------------------
def h_kernel(ctx, cfg):
    from gemseo.mlearning.regression.algos.rbf import RBFRegressor
    from scipy.interpolate import Rbf

    name, dim = cfg["kernel"], cfg["d"]
    _install_rbf_stubs(ctx)
    x = ctx.reals("x", dim)
    c = ctx.reals("c", dim)
    if cfg["eps"] == "sym":
        eps = ctx.real("eps")
        ctx.assume(ctx.lt(0.0, eps))
    else:
        eps = float(cfg["eps"])
    rbf = Rbf.__new__(Rbf)  # SciPy's own kernel method on an (unfitted) Rbf object holding epsilon: the reference
    rbf.epsilon = eps
    kernel = getattr(rbf, f"_h_{name}")
    _box(ctx, elems(x) + elems(c))
    diffs = x - c
    r = np.linalg.norm(diffs)
    ctx.assume(ctx.lt(0.0, r))  # away from the centre
    der = getattr(RBFRegressor.RBFDerivatives, f"der_{name}")(diffs, r, eps)
    f = lambda xv: [kernel(np.linalg.norm(xv - c))]  # noqa: E731
    value = f(x)
    jac, tol = ref_jacobian(ctx, f, x, cfg, values=value)
    if name not in TRANSCENDENTAL:
        ctx.observe("der", der)
        ctx.observe("kernel", value)
    tag = f"der_{name}(eps={cfg['eps'] if cfg['eps'] == 'sym' else format(float(cfg['eps']), 'g')})"
    if not ctx.symbolic and r < 1e-2 * max(1.0, float(np.abs(x).max())):
        return  # finite differences need some distance to the kink at the centre
    if check_shape(ctx, tag, der, (dim,)):
        for j, got in enumerate(elems(der)):
            ctx.check(f"{tag}[{j}] == d h_{name}(|x-c|)/dx{j}", same(ctx, got, jac[0][j], tol[0]))


def h_kernel_centre(ctx, cfg):
    """At the centre (x == c, r == 0) every der_K returns the documented 0, for every epsilon > 0 (real TOL, no stub)."""
    from gemseo.mlearning.regression.algos.rbf import RBFRegressor

    name, dim = cfg["kernel"], cfg["d"]
    eps = ctx.real("eps")
    ctx.assume(ctx.and_(ctx.lt(0.0, eps), ctx.le(eps, BOX)))
    der = getattr(RBFRegressor.RBFDerivatives, f"der_{name}")(np.zeros(dim), 0.0, eps)
    if name not in TRANSCENDENTAL:
        ctx.observe("der", der)
    if check_shape(ctx, f"der_{name} at the centre", der, (dim,)):
        for j, got in enumerate(elems(der)):
            ctx.check(f"der_{name}(0, 0, eps)[{j}] == 0", ctx.eq(got, 0.0))


# ------------------------------------------------------------------------------------------------------------
# learning sets and models (all concrete)
# ------------------------------------------------------------------------------------------------------------
PYTHAGOREAN = [(3, 4), (-4, 3), (8, -6), (-5, -12), (12, 5), (-8, 6)]
PROBE = {"0": 0.5, "1": 0.5}  # cfg["fix"] pinning a 2-D query at P


def _dataset(name):
    from gemseo.datasets.io_dataset import IODataset

    data = IODataset(dataset_name=name)
    if name == "1in1out":  # 8 samples on [0,4]: SciPy's default epsilon = 4/8
        x = np.array([0.0, 0.5, 1.0, 1.75, 2.5, 3.0, 3.5, 4.0])
        data.add_input_variable("x", x[:, None])
        data.add_output_variable("y", (np.sin(x) + 0.25 * x)[:, None])
    elif name in ("2in2out", "ab_yz"):
        # 6 samples at P + Pythagorean offsets/16 around P = (1/2, 1/2): every centre is at a rational distance (5, 10 or 13
        # sixteenths) from P, so that a query pinned at P keeps the solver in rational arithmetic
        pts = np.array([[0.5 + u / 16.0, 0.5 + v / 16.0] for u, v in PYTHAGOREAN])
        a, b = pts[:, 0], pts[:, 1]
        if name == "2in2out":  # one input variable of size 2, one output of size 2
            data.add_input_variable("x", pts)
            data.add_output_variable("y", np.array([[np.sin(p) + q * q, p * q - 0.5 * p] for p, q in pts]))
        else:  # two scalar inputs a, b; outputs y (size 1) and z (size 2)
            data.add_input_variable("a", a[:, None])
            data.add_input_variable("b", b[:, None])
            data.add_output_variable("y", (a * a - b + 0.5 * a * b)[:, None])
            data.add_output_variable("z", np.array([[p + 2 * q, np.cos(p) * q] for p, q in pts]))
    else:
        raise ValueError(name)
    return data


def _transformer(spec):
    """Transformer objects from a JSON-able description."""
    from gemseo.mlearning.transformers.pipeline import Pipeline
    from gemseo.mlearning.transformers.scaler.min_max_scaler import MinMaxScaler
    from gemseo.mlearning.transformers.scaler.scaler import Scaler
    from gemseo.mlearning.transformers.scaler.standard_scaler import StandardScaler

    if spec == "MinMax":
        return MinMaxScaler()
    if spec == "Standard":
        return StandardScaler()
    if isinstance(spec, list) and spec[0] == "Scaler":
        return Scaler(offset=np.array(spec[1]) if isinstance(spec[1], list) else spec[1],
                      coefficient=np.array(spec[2]) if isinstance(spec[2], list) else spec[2])
    if isinstance(spec, list) and spec[0] == "Pipeline":
        return Pipeline(transformers=[_transformer(s) for s in spec[1:]])
    if isinstance(spec, list) and spec[0] == "LinMap":
        return _linmap_class()(np.array(spec[1], dtype=float), np.array(spec[2], dtype=float))
    raise ValueError(spec)


def _linmap_class():
    """A user-defined transformer z -> A z with a FULL (non-diagonal) concrete dyadic matrix A and its exact inverse B.

    gemseo's own lossless non-diagonal transformer (PCA with all components) is sklearn code; a user-defined BaseTransformer is the
    documented extension point and gives Pipeline factors whose Jacobians do not commute with the diagonal scalers.
    """
    from gemseo.mlearning.transformers.base_transformer import BaseTransformer
    from numpy import tile

    class LinMap(BaseTransformer):
        def __init__(self, a, b, name="LinMap"):
            super().__init__(name)
            self.a, self.b = a, b

        def _fit(self, data, *args):
            pass

        @BaseTransformer._use_2d_array
        def transform(self, data):
            return data @ self.a.T

        @BaseTransformer._use_2d_array
        def inverse_transform(self, data):
            return data @ self.b.T

        @BaseTransformer._use_2d_array
        def compute_jacobian(self, data):
            return tile(self.a, (len(data), 1, 1))

        @BaseTransformer._use_2d_array
        def compute_jacobian_inverse(self, data):
            return tile(self.b, (len(data), 1, 1))

    return LinMap


def _model(ctx, cfg):
    """A fitted regressor (concrete) with the symbolic-mode stubs of its compiled dependencies installed."""
    data = _dataset(cfg["data"])
    tr = cfg.get("transformer", {})
    transformer = "default" if tr == "default" else {k: _transformer(v) for k, v in tr.items()}
    kind = cfg["model"]
    if kind == "rbf":
        from gemseo.mlearning.regression.algos.rbf import RBFRegressor

        kw = dict(function=cfg["kernel"], epsilon=cfg.get("epsilon"))
        cls = RBFRegressor
    elif kind == "linear":
        from gemseo.mlearning.regression.algos.linreg import LinearRegressor

        kw = dict(fit_intercept=cfg.get("fit_intercept", True))
        cls = LinearRegressor
    elif kind == "poly":
        from gemseo.mlearning.regression.algos.polyreg import PolynomialRegressor

        kw = dict(degree=cfg.get("degree", 2), fit_intercept=cfg.get("fit_intercept", True))
        cls = PolynomialRegressor
    else:
        raise ValueError(kind)
    if transformer == "default":  # what SurrogateDiscipline / create_surrogate use: MinMaxScaler on the input and output groups
        from gemseo.mlearning.regression.algos.base_regressor import BaseRegressor

        transformer = BaseRegressor.DEFAULT_TRANSFORMER
    model = cls(data, transformer=transformer, **kw)
    model.learn()
    if kind == "rbf":
        _install_rbf_stubs(ctx)
    else:
        _install_sklearn_stub(ctx, model.algo)
        if kind == "poly":
            _install_sklearn_stub(ctx, model._poly)
    return model, data


def _n_in_out(model):
    sizes = model.learning_set.variable_names_to_n_components
    return sum(sizes[n] for n in model.input_names), sum(sizes[n] for n in model.output_names)


def _tag(cfg, model):
    return f"rbf[{cfg['kernel']},eps={float(model.algo.epsilon):g}]" if cfg["model"] == "rbf" else cfg["model"]


def _cond(cfg, model):
    """Concrete magnitude of the cancelling summands of an RBF prediction: sum |nodes| times the output un-scaling."""
    if cfg["model"] != "rbf":
        return 0.0
    c = float(np.abs(model.algo.nodes).sum())
    if "outputs" in model.transformer:
        n_out = _n_in_out(model)[1]
        c *= float(np.abs(model.transformer["outputs"].compute_jacobian_inverse(np.zeros(n_out))).max())
    return c


def _observable(cfg, n_in):
    """Whether returned values can be evaluated exactly under a solver model for the differential self-test: not through
    exp/log (uninterpreted) nor through irrational sqrt auxiliaries (z3's exact algebraic-number evaluation does not terminate in time)."""
    return cfg["model"] != "rbf" or (cfg["kernel"] in ("linear", "cubic", "quintic") and n_in == 1)


def h_model(ctx, cfg):
    """predict_jacobian(x) is the derivative of predict at x, for the public array interface (1 or 2 samples)."""
    model, _ = _model(ctx, cfg)
    n_in, n_out = _n_in_out(model)
    # values through exp/log (uninterpreted) or through several irrational sqrt auxiliaries cannot be evaluated under a solver model
    observable = _observable(cfg, n_in)
    ns = cfg.get("samples", 1)
    if ns == 1:
        x = ctx.reals("x", n_in)
        _box(ctx, elems(x))
        for j, v in cfg.get("fix", {}).items():  # restrict the query point to a line/plane (keeps counterexample search univariate)
            ctx.assume(ctx.eq(elems(x)[int(j)], float(v)))
        pred = model.predict(x)
        J = model.predict_jacobian(x)
        points, preds, jacs = [x], [pred], [J]
        check_shape(ctx, "predict", pred, (n_out,))
    else:
        X = ctx.matrix("x", ns, n_in)
        _box(ctx, elems(X))
        P = model.predict(X)
        JJ = model.predict_jacobian(X)
        if not (check_shape(ctx, "predict", P, (ns, n_out)) and check_shape(ctx, "predict_jacobian", JJ, (ns, n_out, n_in))):
            return
        points, preds, jacs = [X[s] for s in range(ns)], [P[s] for s in range(ns)], [JJ[s] for s in range(ns)]
    for s, (x, pred, J) in enumerate(zip(points, preds, jacs)):
        ref, tol = ref_jacobian(ctx, model.predict, x, cfg, values=pred, cond=_cond(cfg, model))
        if observable:
            ctx.observe(f"predict{s}", pred)
            ctx.observe(f"jacobian{s}", J)
        check_jac(ctx, f"{_tag(cfg, model)}: predict_jacobian{s if ns > 1 else ''} == d predict/dx", J, ref, tol)
    if cfg["model"] == "rbf" and not ctx.symbolic:
        _check_rbf_closed_form(ctx, cfg, model, points[0])


def _check_rbf_closed_form(ctx, cfg, model, x):
    """Concrete mode only: the closed form executed symbolically IS what the compiled SciPy path computes,
    and the interpolating model (smooth=0) reproduces its learning data (numerical observations, not solver claims)."""
    from scipy.interpolate import Rbf

    xt = np.atleast_2d(np.asarray(x, dtype=float))
    if "inputs" in model.transformer:
        xt = model.transformer["inputs"].transform(xt)
    algo = model.algo
    real = algo(*xt.T).reshape((1, -1))
    r = np.array([[np.sqrt(sum((xt[0, j] - algo.xi[j, k]) ** 2 for j in range(xt.shape[1]))) for k in range(algo.N)]])
    closed = np.dot(algo._function(r), algo.nodes).reshape((1, -1))
    scale = float(np.abs(algo._function(r)) @ np.abs(algo.nodes).reshape(algo.N, -1).sum(1)) + 1.0
    for i in range(real.shape[1]):
        ctx.check(f"Rbf.__call__[{i}] == sum_k nodes_k h(|x-xi_k|) (numerical)", abs(real[0, i] - closed[0, i]) <= 1e-9 * scale)
    assert isinstance(algo, Rbf)
    back = model.predict(model.input_data)
    err = float(np.abs(back - model.output_data).max())
    cond = float(np.abs(algo.nodes).max()) + 1.0
    ctx.check("RBF (smooth=0) reproduces its learning data (numerical)", err <= 1e-7 * cond)


# ------------------------------------------------------------------------------------------------------------
# transformers
# ------------------------------------------------------------------------------------------------------------
FIT_DATA = {
    "d1": [[-1.0], [0.5], [1.0], [3.0]],
    "d2": [[0.0, 10.0], [1.0, 12.0], [4.0, 11.0], [2.5, 18.0], [0.5, 13.0]],
    "d2const": [[2.0, 1.0], [2.0, 3.0], [2.0, 7.0]],  # first feature constant and non-zero
    "d2zero": [[0.0, 1.0], [0.0, -3.0], [0.0, 2.0]],  # first feature constant and zero
}


def h_transformer(ctx, cfg):
    """inverse_transform o transform = id; compute_jacobian(_inverse) are the derivatives of (inverse_)transform."""
    T = _transformer(cfg["transformer"])
    fit = np.array(FIT_DATA[cfg["fit"]])
    T.fit(fit)
    d = fit.shape[1]
    if cfg.get("ndim", 1) == 1:
        rows, take = [ctx.reals("z", d)], lambda a, s: a
        data = rows[0]
    else:
        data = ctx.matrix("z", 2, d)
        rows, take = [data[0], data[1]], lambda a, s: a[s]
    _box(ctx, elems(data))
    t = T.transform(data)
    back = T.inverse_transform(t)
    ctx.observe("transform", t)
    ctx.observe("back", back)
    if check_shape(ctx, "transform", t, np.shape(data)) and check_shape(ctx, "inverse_transform", back, np.shape(data)):
        for idx in np.ndindex(np.shape(data)):
            ctx.check(f"inverse_transform(transform(z)){list(idx)} == z", same(ctx, _py(_plain(back)[idx]), _py(_plain(data)[idx])))
    J = T.compute_jacobian(data)
    Ji = T.compute_jacobian_inverse(data)  # the same symbols read as a point of the transformed space
    inv = T.inverse_transform(data)
    ctx.observe("jac", J)
    ctx.observe("jac_inv", Ji)
    shape = (d, d) if len(rows) == 1 else (2, d, d)
    if not (check_shape(ctx, "compute_jacobian", J, shape) and check_shape(ctx, "compute_jacobian_inverse", Ji, shape)):
        return
    for s, z in enumerate(rows):
        ref, tol = ref_jacobian(ctx, T.transform, z, cfg, values=take(t, s))
        check_jac(ctx, f"compute_jacobian{s} == d transform/dz", take(J, s), ref, tol)
        ref, tol = ref_jacobian(ctx, T.inverse_transform, z, cfg, values=take(inv, s))
        check_jac(ctx, f"compute_jacobian_inverse{s} == d inverse_transform/dz", take(Ji, s), ref, tol)


# ------------------------------------------------------------------------------------------------------------
# surrogate discipline
# ------------------------------------------------------------------------------------------------------------
def h_surrogate(ctx, cfg):
    """execute / linearize return exactly model.predict / model.predict_jacobian for the same (dictionary) inputs."""
    from gemseo.core.discipline import Discipline
    from gemseo.disciplines.surrogate import SurrogateDiscipline

    model, data = _model(ctx, cfg)
    ctx.patch(SurrogateDiscipline, "default_grammar_type", Discipline.GrammarType.SIMPLE, symbolic_only=False)
    disc = SurrogateDiscipline(model)
    disc.set_cache(Discipline.CacheType.NONE)
    sizes = data.variable_names_to_n_components
    inputs = {name: ctx.reals(f"in_{name}_", sizes[name]) for name in model.input_names}
    flat_in = [v for name in model.input_names for v in elems(inputs[name])]
    _box(ctx, flat_in)
    for j, v in cfg.get("fix", {}).items():
        ctx.assume(ctx.eq(flat_in[int(j)], float(v)))
    out = disc.execute({k: v.copy() for k, v in inputs.items()})
    expected = model.predict({k: v.copy() for k, v in inputs.items()})
    ctx.check("linearization mode is AUTO (the model provides Jacobians)",
              ctx.true() if disc.linearization_mode == disc.LinearizationMode.AUTO else ctx.false())
    transcendental = not _observable(cfg, sum(sizes[n] for n in model.input_names))
    for name in model.output_names:
        if not transcendental:
            ctx.observe(f"out[{name}]", out[name])
        if check_shape(ctx, f"execute[{name}]", out[name], (sizes[name],)):
            ctx.check_eq(f"execute[{name}] == predict[{name}]", out[name], np.ravel(expected[name]))
    for name in model.input_names:
        ctx.check_eq(f"input {name} passed through", out[name], inputs[name])
    jac = disc.linearize({k: v.copy() for k, v in inputs.items()}, compute_all_jacobians=True)
    jexp = model.predict_jacobian({k: v.copy() for k, v in inputs.items()})
    for o in model.output_names:
        for i in model.input_names:
            if not transcendental:
                ctx.observe(f"jac[{o}][{i}]", jac[o][i])
            if check_shape(ctx, f"linearize[{o}][{i}]", jac[o][i], (sizes[o], sizes[i])):
                ctx.check_eq(f"linearize[{o}][{i}] == predict_jacobian", jac[o][i], jexp[o][i])
    # and the dictionary Jacobian is the derivative of the dictionary prediction
    flat = ctx.array([v for name in model.input_names for v in elems(inputs[name])])

    def predict_flat(xv):
        res, pos = [], 0
        d = {}
        for name in model.input_names:
            d[name] = xv[pos:pos + sizes[name]]
            pos += sizes[name]
        p = model.predict(d)
        for o in model.output_names:
            res += elems(np.ravel(p[o]))
        return res

    vals = [v for o in model.output_names for v in elems(np.ravel(expected[o]))]
    ref, tol = ref_jacobian(ctx, predict_flat, flat, cfg, values=vals, cond=_cond(cfg, model))
    row = 0
    for o in model.output_names:
        for a in range(sizes[o]):
            col = 0
            for i in model.input_names:
                for b in range(sizes[i]):
                    ctx.check(f"{_tag(cfg, model)}: linearize[{o}][{i}][{a},{b}] == d execute/d input", same(ctx, _py(_plain(jac[o][i])[a, b]), ref[row][col], tol[row]))
                    col += 1
            row += 1


# ------------------------------------------------------------------------------------------------------------
# mixture of experts (hard classification): the class of a query point is chosen by the solver
# ------------------------------------------------------------------------------------------------------------
def _moe_dataset():
    """20 samples on a 5 x 4 grid of [0,2] x [-1,2] with a kink along x1 + x2 = 2 (two well separated regimes)."""
    from gemseo.datasets.io_dataset import IODataset

    pts = np.array([[0.5 * i, -1.0 + j] for i in range(5) for j in range(4)])
    a, b = pts[:, 0], pts[:, 1]
    kink = (a + b > 2.0) * 1.0
    data = IODataset(dataset_name="moe")
    data.add_input_variable("x", pts)
    data.add_output_variable("y", (1 + 2 * a - 3 * b + 0.5 * a * b + 20 * kink * (a + b - 2.0))[:, None])
    data.add_output_variable("z", np.array([[p * p - q, 5 * q + 10 * k] for p, q, k in zip(a, b, kink)]))
    return data


def _affine(transformer, values, inverse=False):
    """Oracle-side restatement of a fitted scaler: v*coefficient + offset, or its inverse, component by component."""
    c, o = [float(v) for v in transformer.coefficient], [float(v) for v in transformer.offset]
    if inverse:
        return [(v - o[k]) / c[k] for k, v in enumerate(values)]
    return [v * c[k] + o[k] for k, v in enumerate(values)]


def h_moe(ctx, cfg):
    """Hard mixture of experts: predict(x) is the chosen expert's public prediction, predict_jacobian(x) its derivative.

    Clustering, classification and the experts are fitted concretely; at query time the compiled classifier
    (``classifier._predict``, scikit-learn) is replaced by a contract stub returning the class the solver chose for each
    sample (in concrete mode too, so that the replayed class is the model's choice).
    """
    import gemseo.mlearning.regression.algos.moe as moe_module
    from gemseo.mlearning.regression.algos.base_regressor import BaseRegressor
    from gemseo.mlearning.regression.algos.moe import MOERegressor
    from symgem.core import SymArray

    data = _moe_dataset()
    top = BaseRegressor.DEFAULT_TRANSFORMER if cfg["moe_transformer"] == "default" else {}
    moe = MOERegressor(data, transformer=top)
    moe.set_clusterer("KMeans", n_clusters=2, random_state=0)
    kw = dict(degree=2) if cfg["expert"] == "PolynomialRegressor" else {}
    moe.set_regressor(cfg["expert"], transformer={k: _transformer(v) for k, v in cfg["expert_transformer"].items()}, **kw)
    moe.learn()
    n_in, n_out, n_cls = 2, 3, moe.n_clusters
    ctx.check("two clusters, one expert each", ctx.true() if n_cls == 2 and len(moe.regress_models) == 2 else ctx.false())
    for expert in moe.regress_models:
        _install_sklearn_stub(ctx, expert.algo)
        if cfg["expert"] == "PolynomialRegressor":
            _install_sklearn_stub(ctx, expert._poly)
    # float64 work arrays of moe.py hold symbols: value-preserving object arrays
    ctx.patch(moe_module, "zeros", lambda shape, *a, **k: SymArray(np.zeros(shape, dtype=object) + 0.0))
    ns = cfg.get("samples", 1)
    classes = [ctx.choice(f"class{s}", n_cls) for s in range(ns)]
    current = {"classes": list(classes)}

    def classify(input_data):  # contract of the compiled classifier: some class in range(n_clusters) per sample
        if len(input_data) != len(current["classes"]):
            raise AssertionError("classifier stub called with an unexpected number of samples")
        return np.array(current["classes"], dtype=int)[:, None]

    moe.classifier._predict = classify
    X = ctx.matrix("x", ns, n_in)
    _box(ctx, elems(X))
    query = X[0] if ns == 1 else X
    pred = moe.predict(query)
    jac = moe.predict_jacobian(query)
    ctx.observe("predict", pred)
    ctx.observe("jacobian", jac)
    if not (check_shape(ctx, "moe.predict", pred, (n_out,) if ns == 1 else (ns, n_out))
            and check_shape(ctx, "moe.predict_jacobian", jac, (n_out, n_in) if ns == 1 else (ns, n_out, n_in))):
        return
    preds, jacs = ([pred], [jac]) if ns == 1 else ([pred[s] for s in range(ns)], [jac[s] for s in range(ns)])
    for s in range(ns):
        x, expert = X[s], moe.regress_models[classes[s]]
        xs = elems(x)
        # oracle: the chosen expert's public prediction at the (MoE-level transformed) point, MoE-level output scaling undone
        xt = _affine(moe.transformer["inputs"], xs) if "inputs" in moe.transformer else xs
        local = elems(expert.predict(ctx.array(xt)))
        expected = _affine(moe.transformer["outputs"], local, inverse=True) if "outputs" in moe.transformer else local
        for i, got in enumerate(elems(preds[s])):
            ctx.check(f"moe: predict{s}[{i}] == prediction of the expert of class {classes[s]}", same(ctx, got, expected[i]))
        current["classes"] = [classes[s]]  # finite differences (concrete mode) re-evaluate a single sample with its class
        ref, tol = ref_jacobian(ctx, moe.predict, x, cfg, values=preds[s])
        current["classes"] = list(classes)
        check_jac(ctx, f"moe: predict_jacobian{s} == d predict/dx (class {classes[s]})", jacs[s], ref, tol)
    if cfg.get("discipline") and ns == 1:
        from gemseo.core.discipline import Discipline
        from gemseo.disciplines.surrogate import SurrogateDiscipline

        del moe.classifier._predict  # the constructor evaluates the Jacobian at the (concrete) default inputs
        ctx.patch(SurrogateDiscipline, "default_grammar_type", Discipline.GrammarType.SIMPLE, symbolic_only=False)
        disc = SurrogateDiscipline(moe)
        disc.set_cache(Discipline.CacheType.NONE)
        moe.classifier._predict = classify
        out = disc.execute({"x": X[0].copy()})
        dj = disc.linearize({"x": X[0].copy()}, compute_all_jacobians=True)
        row = 0
        for name, size in (("y", 1), ("z", 2)):
            if check_shape(ctx, f"moe discipline: execute[{name}]", out[name], (size,)) and check_shape(
                    ctx, f"moe discipline: linearize[{name}][x]", dj[name]["x"], (size, n_in)):
                ctx.check_eq(f"moe discipline: execute[{name}] == predict", out[name], preds[0][row:row + size])
                ctx.check_eq(f"moe discipline: linearize[{name}][x] == predict_jacobian", dj[name]["x"], jacs[0][row:row + size])
            row += size


# ------------------------------------------------------------------------------------------------------------
# the differentiator itself (trusted base): closed forms + sympy
# ------------------------------------------------------------------------------------------------------------
def h_diff(ctx, cfg):
    if not ctx.symbolic:
        return
    from symgem import diff as D

    for label, ok in D.selftest():
        ctx.check(label, ctx.true() if ok else ctx.false())


PIPE = ["Pipeline", ["Scaler", [0.5, -1.0], [2.0, 0.25]], "MinMax"]  # 2 features
PIPE1 = ["Pipeline", ["Scaler", 0.5, 4.0], "Standard"]  # any number of features
LINMAP = ["LinMap", [[1.0, 2.0], [0.0, 1.0]], [[1.0, -2.0], [0.0, 1.0]]]  # a shear and its inverse: does not commute with diagonal scalings
TRANSFORMERS = {
    "none": {},
    "default": "default",  # BaseRegressor.DEFAULT_TRANSFORMER: MinMaxScaler on inputs and outputs
    "std_pipe": {"inputs": "Standard", "outputs": PIPE1},
    "in_only": {"inputs": ["Pipeline", "MinMax", "Standard"]},
    "out_only": {"outputs": "MinMax"},
}


def configs(tier):
    thorough = tier == "thorough"
    extra = dict(sympy=True) if thorough else {}
    out = [("diff", {})]
    # ---- kernels: symbolic point, centre, epsilon ---------------------------------------------------------------
    for name in KERNELS:
        for dim in (1, 2):
            # SciPy's linear/cubic/quintic/thin_plate kernels ignore epsilon: the claim for them is at epsilon = 1; epsilon = 1/2 and 2
            # exhibit the recorded defect (a concrete epsilon keeps the counterexample search decidable)
            for eps in (["sym"] if name not in EPS_FREE else [1.0, 0.5, 2.0]):
                if name in EPS_FREE and dim == 2 and eps != 1.0:
                    continue  # d = 1 exhibits the defect; the 2-D counterexample search (irrational distance, log terms) is slow or undecided
                out.append(("kernel", dict(kernel=name, d=dim, eps=eps, **extra)))

    for name in KERNELS:
        out.append(("kernel_centre", dict(kernel=name, d=2)))

    def rbf(kernel, data, tr="none", **kw):
        out.append(("model", dict(model="rbf", kernel=kernel, data=data, transformer=TRANSFORMERS[tr], **kw, **extra)))

    # ---- fitted RBF models ---------------------------------------------------------------------------------------
    for name in KERNELS:
        # 1 input, SciPy's default epsilon (= 1/2 here); thin_plate: the query is pinned (log terms: z3 finds no counterexample otherwise)
        # (thin_plate with epsilon != 1 is only exercised by the kernel harness: with 8 pairs of log terms z3 finds no counterexample)
        if name not in EPS_FREE:
            rbf(name, "1in1out")
        elif name != "thin_plate":
            rbf(name, "1in1out", fix={"0": 2.25})  # recorded defect: pinned query keeps the counterexample search cheap
        # 2 inputs, 2 outputs, epsilon = 1/2, query pinned at the point P at rational distances from all centres
        rbf(name, "2in2out", epsilon=0.5 if name != "thin_plate" else 1.0, fix=PROBE)
        if name in EPS_FREE:
            rbf(name, "1in1out", epsilon=1.0)
        # 2 inputs, free query point: algebraic kernels only (exp/log axioms over 6 irrational distances: z3 answers unknown)
        if name in ("multiquadric", "inverse_multiquadric"):
            rbf(name, "2in2out", epsilon=0.5)
        if name in ("linear", "cubic", "quintic"):
            rbf(name, "2in2out", epsilon=1.0)
    # with transformers (1 input: scaling keeps distances rational); epsilon is given where SciPy's default would not be a power of two
    for name, eps in [("multiquadric", 0.5), ("gaussian", 0.25), ("cubic", 1.0), ("inverse_multiquadric", 2.0)]:
        for tr in (["default", "std_pipe"] if not thorough else ["default", "std_pipe", "in_only", "out_only"]):
            rbf(name, "1in1out", tr, **({} if tr == "default" and name in ("multiquadric", "gaussian") else dict(epsilon=eps)))
    rbf("cubic", "1in1out", "default", fix={"0": 2.25})  # the all-default user configuration of an epsilon-free kernel (SciPy's epsilon = 1/8): recorded defect
    # default epsilon, query pinned at a rational point: every kernel argument is a constant, so a Jacobian evaluated with another epsilon
    # than the fitted one is refuted in rational arithmetic (free queries only get 'unknown' for such a discrepancy)
    rbf("gaussian", "1in1out", fix={"0": 2.25})
    rbf("gaussian", "1in1out", "default", fix={"0": 2.25})
    rbf("multiquadric", "1in1out", samples=2)
    rbf("cubic", "2in2out", epsilon=1.0, samples=2)
    if thorough:
        for name in KERNELS:
            if name != "thin_plate":  # 32 log terms: z3 cannot even decide the feasibility of the path
                rbf(name, "1in1out", "default", samples=2, **(dict(epsilon=1.0) if name in EPS_FREE else {}))
    # ---- linear and polynomial models ----------------------------------------------------------------------------
    for kind in ("linear", "poly"):
        for data in ("ab_yz", "2in2out", "1in1out"):
            for tr in TRANSFORMERS:
                if not thorough and data == "1in1out" and tr not in ("none", "default"):
                    continue
                out.append(("model", dict(model=kind, data=data, transformer=TRANSFORMERS[tr], **extra)))
        out.append(("model", dict(model=kind, data="ab_yz", transformer=TRANSFORMERS["default"], samples=2, **extra)))
        out.append(("model", dict(model=kind, data="ab_yz", transformer={}, fit_intercept=False, **extra)))
    out.append(("model", dict(model="poly", degree=3, data="1in1out", transformer=TRANSFORMERS["default"], **extra)))
    if thorough:
        out.append(("model", dict(model="poly", degree=3, data="ab_yz", transformer=TRANSFORMERS["std_pipe"], **extra)))
    # ---- transformers --------------------------------------------------------------------------------------------
    tlist = [("MinMax", "d1"), ("MinMax", "d2"), ("MinMax", "d2const"), ("MinMax", "d2zero"), ("Standard", "d1"), ("Standard", "d2"),
             ("Standard", "d2const"), ("Standard", "d2zero"), (["Scaler", [0.5, -1.0], [2.0, 0.25]], "d2"), (["Scaler", 3.0, 0.5], "d2"),
             (PIPE, "d2"), (PIPE1, "d1"), (["Pipeline", "MinMax", "Standard"], "d2"), (["Pipeline", "Standard", "MinMax", ["Scaler", 1.0, -2.0]], "d2const"),
             (["Pipeline"], "d2"), (LINMAP, "d2"), (["Pipeline", ["Scaler", [0.5, -1.0], [2.0, 0.25]], LINMAP], "d2"),
             (["Pipeline", LINMAP, "MinMax"], "d2"), (["Pipeline", "Standard", LINMAP, ["Scaler", [1.0, 0.0], [4.0, 0.5]]], "d2")]
    for spec, fit in tlist:
        # the empty pipeline returns a (d, d) identity also for 2-D data (broadcastable, not per-sample): shape not asserted there
        for ndim in ((1, 2) if spec != ["Pipeline"] else (1,)):
            out.append(("transformer", dict(transformer=spec, fit=fit, ndim=ndim, **extra)))
    # ---- mixture of experts (hard classification, class chosen by the solver) ------------------------------------------
    scal = {"inputs": "MinMax", "outputs": "MinMax"}
    for expert in ("LinearRegressor", "PolynomialRegressor"):
        for etr in ({}, scal, {"inputs": "Standard"}):
            for mtr in ("none", "default"):
                if not thorough and etr == {"inputs": "Standard"} and mtr == "default":
                    continue
                out.append(("moe", dict(expert=expert, expert_transformer=etr, moe_transformer=mtr, **extra)))
        out.append(("moe", dict(expert=expert, expert_transformer=scal, moe_transformer="none", samples=2, **extra)))
        out.append(("moe", dict(expert=expert, expert_transformer=scal, moe_transformer="default", discipline=True, **extra)))
    # ---- surrogate discipline ------------------------------------------------------------------------------------
    for cfg in [dict(model="linear", data="ab_yz", transformer="default"), dict(model="poly", data="ab_yz", transformer={}),
                dict(model="poly", data="2in2out", transformer=TRANSFORMERS["std_pipe"]),
                dict(model="rbf", kernel="quintic", data="ab_yz", transformer={}, epsilon=1.0, fix=PROBE),
                dict(model="rbf", kernel="cubic", data="1in1out", transformer="default", epsilon=1.0),
                dict(model="rbf", kernel="gaussian", data="2in2out", transformer={}, epsilon=0.5, fix=PROBE)]:
        out.append(("surrogate", dict(**cfg, **extra)))
    return out


HARNESSES = {"kernel": h_kernel, "kernel_centre": h_kernel_centre, "model": h_model, "transformer": h_transformer, "surrogate": h_surrogate, "moe": h_moe, "diff": h_diff}
