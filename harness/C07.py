"""C07 - coupled total derivatives satisfy the implicit-function equations (partial: scipy.sparse / SuperLU / Krylov are contract stubs).

Real code under test, executed on symbolic partial derivatives: ``BaseMDA._compute_jacobian``, ``MDAChain._compute_jacobian`` (default
``chain_linearize=False``), ``JacobianAssembly.total_derivatives / _check_inputs / _compute_diff_ios_and_couplings / compute_sizes /
compute_dimension / _get_derivation_mode / _get_jacobian_generator / _assemble_jacobian_as_matrix / assemble_jacobian / split_jac``,
``AssembledJacobianOperator._matvec/_rmatvec``, ``CoupledSystem.direct_mode / adjoint_mode / _direct_mode / _adjoint_mode /
_direct_mode_lu / _adjoint_mode_lu``, ``traverse_add_diff_io_mda / _replace_strongly_coupled``, ``LinearProblem``,
``LinearSolverLibraryFactory.execute`` and ``ScipyLinalgAlgos._pre_run/_run/_check_solver_info`` down to the SciPy call.

The compiled environment (scipy.sparse containers, SuperLU, the Krylov solvers) is replaced *in symbolic mode only* by contract stubs
(``META['stubs']``): value-preserving dense storage, placement of the very same blocks, and an exact linear solve.  Which block goes
where, the ``-I`` of the residuals, the transposition of the adjoint system, the mode selection, the choice of disciplines and couplings
to differentiate and the splitting per variable are gemseo's code running on symbols.  Concrete replays and the differential self-test
run the real SciPy (LGMRES / SuperLU).  A structurally singular assembled matrix (identically zero row or column: a missing block) on a well-posed
system is given the environment's own meaning: SuperLU's ``RuntimeError`` with ``use_lu_fact``, a solve of the regular part by the Krylov solvers.

The oracle never touches gemseo: it builds ``dR/dU`` and ``dR/dx`` from the partial derivatives the disciplines return
(``R_c = y_c - Y_c(x, y, w)`` for every coupling component, ``R_r = r(x, y, w)`` for every residual of a discipline with state variables
``w``; ``U`` = couplings and states), solves by Cramer's rule (Laplace expansion written out here) and states
``dF/dx + dF/dU . dU/dx`` entry by entry.
"""
from __future__ import annotations

import time
from fractions import Fraction

import numpy as np

from harness.common import _plain, _py, exact_const, subsets
from symgem.core import Budget

META = dict(
    bounds=dict(
        quick="7 systems of 2-4 harness disciplines whose partial derivatives are FREE SYMBOLIC REALS (every entry of every block; uninterpreted functions of the "
              "discipline's inputs at the time of the call in the 'uf' configurations), variable sizes 1-2, coupled dimension <= 3: ring2 (2 strongly coupled "
              "disciplines, shared and local inputs, a function in each), ring2v (vector variables), self (self-coupled discipline in a cycle), ring3 (3 disciplines "
              "in a ring), weak (weakly coupled upstream and downstream disciplines around a strongly coupled pair), state / state_fn (a discipline with a "
              "residual/state pair whose state equations it solves); MDAGaussSeidel, MDAJacobi, MDAChain (default chain_linearize=False); linearization_mode "
              "direct / adjoint / auto; matrix_type matrix (sparse path) and linear_operator; use_lu_fact on/off; linear solvers DEFAULT, LGMRES, GMRES (all through the "
              "same solve contract); harness 'total': the request = any non-empty subset of the non-coupling inputs x any single output or all outputs (couplings "
              "included) such that every requested pair is dependent and some coupling is needed, chosen by the solver; disciplines filling all blocks or only the "
              "requested ones; reversed listing order; a second, larger request on the same MDA object; harness 'subsets' (weak system): the requests with an "
              "independent (output, input) pair or needing no coupling at all (zero blocks / plain partial derivatives expected); harness 'state_direct': outputs "
              "computed directly from a state variable.  Added after a missed seeded change and two reported defects, with EVERY non-empty subset of the outputs "
              "(couplings included) x every non-empty subset of the root inputs as the request (dependent requests in 'total', the others in 'subsets'), in every MDA "
              "class, mode and variant of the list above but not their full product: side / side_v (a discipline with a residual/state pair of size 1 / 2 that lies on "
              "NO coupling path, next to a strongly coupled pair: a request may involve the state only, the couplings only, or both; coupled dimension 3 / 4, block "
              "diagonal), cyc2 / cyc2u (two strongly coupled groups in one MDA, the second reading a strong coupling of the first directly, with / without a direct "
              "dependency of the second group on x; coupled dimension 4, block triangular), selfone (a self-coupled discipline alone in its strongly coupled group "
              "with a weakly coupled discipline downstream; added after a missed mutant)",
        thorough="the same with every non-empty output subset and every MDA class x mode x (Krylov | LU | linear operator) on every system; uninterpreted partial "
                 "derivatives in every mode x variant (MDAGaussSeidel); second requests in direct and adjoint mode; side, side_v, cyc2, cyc2u, selfone in the full product as "
                 "well, and their 'subsets' requests in every MDA class x mode x variant",
    ),
    outside=[
        "the numerical behaviour of SuperLU and of the Krylov solvers (tolerances, non-convergence, the LGMRES->GMRES->SuperLU fallback, ILU preconditioning, breakdown on "
        "singular or ill-conditioned systems): they are replaced by the exact-solve contract; a change confined to the solver selection that still calls *a* solver "
        "with the same matrix and right-hand side is NOT detected",
        "the storage formats of scipy.sparse (csr/csc/dok, explicit zeros, dtype promotion): replaced by dense value-preserving storage",
        "disciplines returning scipy.sparse or JacobianOperator partial derivatives (sparse_classes / shift_identity branches of _get_jacobian_generator)",
        "coupled dimension > 3 (4 for the block-diagonal / block-triangular systems side_v, cyc2, cyc2u), variable sizes > 2, more than 4 disciplines (Laplace expansion "
        "and z3's polynomial identities grow quickly); more than two strongly coupled groups, a strong coupling read by more than one other group",
        "what the Krylov solvers do with a matrix that is singular only for particular VALUES of the partial derivatives (excluded by the well-conditioning "
        "assumption on correct code): unspecified vector; for them only STRUCTURAL singularity (an identically zero row or column: a Jacobian block gemseo failed "
        "to provide) is modelled, as a solve of the regular part.  SuperLU is modelled as refusing every matrix with det == 0 (exact arithmetic: a float64 replay "
        "need not meet an exactly zero pivot; such a counterexample would be reported as non-reproducing, never as a violation)",
        "the MDA iteration itself (C06): every MDA is warm-started at a symbolic consistent point of an affine contracting execution map and stops at its first check",
        "MDANewtonRaphson / MDAQuasiNewton / MDAGSNewton and JacobianAssembly.compute_newton_step, plot_dependency_jacobian",
        "requests naming a state or residual variable as output, compute_all_jacobians=True (the couplings are then requested as inputs, which gemseo refuses)",
        "state equations NOT solved by the discipline (needs a Newton-type MDA)",
        "a request containing an input on which no requested output depends: gemseo refuses it with an explicit ValueError ('Failed to determine the size of input "
        "variable'), which is accepted; every other exception is reported",
        "the residual-norm diagnostic of the LU modes (log message only)",
        "non-numeric couplings, cache tolerances (lin_cache_tol_fact), parallel execution (n_processes=1)",
    ],
    stubs=[
        "jacobian_assembly.csr_matrix / csc_matrix -> DenseSparse: the same values in a dense 2-D object array ((m, n) -> zero matrix); exposes shape, dtype, T, real, "
        "[i, :] / [:, j] (2-D pieces, as scipy.sparse matrices), unary minus, dot / @, + , toarray / todense, copy, tocsc / tocsr, astype",
        "jacobian_assembly.bmat -> dense placement of the given blocks (None = zero block); block sizes are read off the blocks as scipy does",
        "jacobian_assembly.eye -> numpy.eye (dense identity of the same dtype)",
        "jacobian_assembly.empty -> object-dtype array of exact zeros",
        "jacobian_assembly.factorized(A) -> solve(b) = the exact solution of A x = b (same shape as b)",
        "scipy_linalg.ScipyLinalgAlgos.__NAMES_TO_FUNCTIONS[*] (lgmres, gmres, bicg, ... ) -> (exact solution of A x = b as a 1-D array, info 0); a LinearOperator A is "
        "known through its action only: its matrix is obtained by applying A.matvec to the unit vectors (this runs gemseo's _matvec/_rmatvec)",
        "exact solve = adj(A) b / det(A) by cofactor expansion; for a singular A (impossible for gemseo's own matrix under the harness assumption) an unspecified vector of "
        "fresh symbols is returned; every call re-states the contract as "
        "obligations 'A x == b' so that the stub's own algebra is checked by the solver on every path",
        "singular A, C07's own harnesses only (install_stubs(singular='environment')): factorized(A) raises RuntimeError('Factor is exactly singular') as SuperLU does, for "
        "an identically zero row or column and on the paths where det(A) == 0; the harness turns this RuntimeError - from the stub or, in float64 replays, from the real "
        "SuperLU - into the failed obligation 'LU factorization succeeds (assembled dR/dy singular although dR/dU of the coupled system is regular)'; structurally "
        "singular A (an identically zero row or column) handed to the Krylov wrappers: for k identically zero rows with zero "
        "right-hand side and k identically zero columns around a regular (n-k) x (n-k) system, return the exact solution of the regular part and UNSPECIFIED values (fresh "
        "symbols) for the k unknowns that appear in no equation (the real LGMRES/GMRES started from zero return 0 there: the contract is weaker); any other structurally "
        "singular system: an unspecified vector.  The differential self-test runs these paths on the real LGMRES",
        "scipy_linalg.issparse -> also true for DenseSparse",
        "jacobian_assembly.norm (used only by the LU modes' residual diagnostic, which gates a log message) -> an opaque value that is never above the tolerance",
        "module global float() in gemseo.mda.base_mda_solver -> identity on symbolic reals (as in C06/C17)",
        "harness disciplines use SimpleGrammar and no cache",
    ],
    assumptions=[
        "well-conditioned residual Jacobian: |det(dR/dU)| >= 1/4 and every partial derivative in [-2, 2] (stated on the oracle's own matrix before gemseo runs)",
        "the MDA is started at the consistent point y* = Y(x, y*) of an affine execution map with concrete dyadic contraction coefficients (y* is an explicit exact linear "
        "combination of the symbolic inputs x, computed in the harness); the partial derivatives handed to gemseo are independent of that map (gemseo never compares them)",
        "every input of a harness discipline influences every output of it (the structural dependency used to classify requests)",
        "well-conditioned means the residual Jacobian of the WHOLE coupled system (all couplings and states) is regular; the property then requires every request to "
        "succeed whatever the LU option: a RuntimeError of the factorization on such a system is reported",
    ],
)

EXPLORER_OPTS = {"quick": dict(query_timeout_ms=10000, wall_budget_s=90.0), "thorough": dict(query_timeout_ms=90000, wall_budget_s=2400.0)}

# ------------------------------------------------------------------------------------------------
# systems: disciplines (name, {input: size}, {output: size}[, {residual: state}]); every input of a discipline influences every
# output of it, except that a state output does not depend on its own input value and a residual output is zero (solved)
# ------------------------------------------------------------------------------------------------
SYSTEMS = {
    # two strongly coupled disciplines, a shared input x, a local input u, one function per discipline
    "ring2": [("d0", {"x": 1, "y1": 1}, {"y0": 1, "f": 1}), ("d1", {"x": 1, "u": 1, "y0": 1}, {"y1": 1, "g": 1})],
    # the same with vector variables (coupled dimension 3)
    "ring2v": [("d0", {"x": 2, "y1": 1}, {"y0": 2, "f": 1}), ("d1", {"u": 1, "y0": 2}, {"y1": 1, "g": 2})],
    # a self-coupled discipline in a cycle
    "self": [("d0", {"x": 1, "y0": 1, "y1": 1}, {"y0": 1, "f": 1}), ("d1", {"u": 1, "y0": 1}, {"y1": 1})],
    # three disciplines in a ring
    "ring3": [("d0", {"x": 1, "y2": 1}, {"y0": 1}), ("d1", {"y0": 1, "u": 1}, {"y1": 1, "g": 1}), ("d2", {"y1": 1}, {"y2": 1, "f": 1})],
    # weakly coupled upstream (a) and downstream (h) disciplines around a strongly coupled pair; da/du = da/dw = dy/dw = dg/dw = 0
    "weak": [("up", {"x": 1}, {"a": 1}), ("d0", {"a": 1, "y1": 1}, {"y0": 1}), ("d1", {"u": 1, "y0": 1}, {"y1": 1, "g": 1}),
             ("down", {"y1": 1, "w": 1}, {"h": 1})],
    # a discipline with a residual r and its state s (state equations solved by the discipline); the coupling y1 comes from a third discipline reading the state,
    # so no requested function depends *directly* on the state
    "state": [("d0", {"x": 1, "y1": 1}, {"y0": 1, "f": 1}), ("B", {"y0": 1, "u": 1, "s": 1}, {"s": 1, "r": 1}, {"r": "s"}),
              ("d2", {"s": 1}, {"y1": 1})],
    # the same where the coupling y1 and the function g are outputs of the discipline owning the state: they depend directly on the state
    "state_fn": [("d0", {"x": 1, "y1": 1}, {"y0": 1, "f": 1}), ("B", {"y0": 1, "u": 1, "s": 1}, {"s": 1, "r": 1, "y1": 1, "g": 1}, {"r": "s"})],
    # a discipline with a residual/state pair that is on NO coupling path (f depends on x only through the state w) next to a strongly coupled pair:
    # requesting f alone involves no coupling variable at all (only the state), requesting h alone does not involve the state discipline
    "side": [("Imp", {"x": 1, "w": 1}, {"w": 1, "r": 1, "f": 1}, {"r": "w"}), ("da", {"x": 1, "u": 1, "yb": 1}, {"ya": 1}),
             ("db", {"ya": 1}, {"yb": 1, "h": 1})],
    # the same with a state, a residual and an input of size 2 (coupled dimension 4, block diagonal)
    "side_v": [("Imp", {"x": 2, "w": 2}, {"w": 2, "r": 2, "f": 1}, {"r": "w"}), ("da", {"x": 2, "u": 1, "yb": 1}, {"ya": 1}),
               ("db", {"ya": 1}, {"yb": 1, "h": 1})],
    # two strongly coupled groups in one MDA, the second one (d3, d4) reading the strong coupling y1 of the first one (d1, d2) directly
    "cyc2": [("d1", {"x": 1, "y2": 1}, {"y1": 1}), ("d2", {"y1": 1}, {"y2": 1}), ("d3", {"x": 1, "y1": 1, "y4": 1}, {"y3": 1}),
             ("d4", {"y3": 1}, {"y4": 1, "f": 1})],
    # the same where the second group depends on x ONLY through the first group (d3 reads a local input u instead of x)
    "cyc2u": [("d1", {"x": 1, "y2": 1}, {"y1": 1}), ("d2", {"y1": 1}, {"y2": 1}), ("d3", {"u": 1, "y1": 1, "y4": 1}, {"y3": 1}),
              ("d4", {"y3": 1}, {"y4": 1, "f": 1})],
    # a self-coupled discipline that is in no cycle with another discipline (a strongly coupled "group" of one) and a weakly coupled one downstream
    "selfone": [("d0", {"x": 1, "y0": 1}, {"y0": 1, "f": 1}), ("d1", {"u": 1, "y0": 1}, {"g": 1})],
}


class Sys:
    """Names, sizes and the structural dependency relation of a system (oracle side)."""

    def __init__(self, name):
        self.name = name
        self.discs = [(d[0], dict(d[1]), dict(d[2]), dict(d[3]) if len(d) > 3 else {}) for d in SYSTEMS[name]]
        self.ins, self.outs, self.res2state = {}, {}, {}
        for (_, i, o, rs) in self.discs:
            self.ins.update(i)
            self.outs.update(o)
            self.res2state.update(rs)
        self.sizes = dict(self.ins)
        self.sizes.update(self.outs)
        self.states = list(self.res2state.values())
        self.residuals = list(self.res2state)
        self.couplings = [n for n in self.outs if n in self.ins and n not in self.states]
        self.roots = [n for n in self.ins if n not in self.outs]
        self.functions = [n for n in self.outs if n not in self.states and n not in self.residuals]  # what may be requested
        self.prod = {n: (d, i, rs) for (d, i, o, rs) in self.discs for n in o}
        # dep[o] = the root inputs on which o depends (through any chain of disciplines)
        self.dep = {}
        for o in self.outs:
            seen, todo, roots = set(), [o], set()
            while todo:
                n = todo.pop()
                if n in seen:
                    continue
                seen.add(n)
                if n in self.roots:
                    roots.add(n)
                if n in self.prod and n not in self.residuals:
                    todo.extend(self.prod[n][1])
            self.dep[o] = roots

    def needs_coupling(self, o, x):
        """For a dependent pair: o is a coupling, or x reaches o through another discipline's output (a coupling or a state)."""
        d, i, _ = self.prod[o]
        return o in self.couplings or any(n in self.outs and x in self.dep[n] for n in i)


def _coef_frac(S, d, o, k, i, j):
    """Concrete dyadic coefficient of the affine execution map (a contraction on the couplings/states); NOT a partial derivative given to gemseo."""
    if o in S.residuals or (o in S.states and i == o):
        return Fraction(0)
    if i in S.outs:
        return Fraction((-1) ** (k + j + len(d) + len(o)), 8)
    return Fraction(2 + j + k, 2)


def _coef(ctx, S, d, o, k, i, j):
    c = _coef_frac(S, d, o, k, i, j)
    return 0.0 if c == 0 else exact_const(ctx, float(c))


def consistent_point(ctx, S, xroot):
    """The multidisciplinary solution y* = Y(x, y*) of the affine execution map as explicit exact linear combinations of the root
    inputs (rational Gauss-Jordan elimination in the harness), so that the MDA started there stops at its first check."""
    unknowns = [(n, k) for n in S.couplings + S.states for k in range(S.sizes[n])]
    rootc = [(n, k) for n in S.roots for k in range(S.sizes[n])]
    nu = len(unknowns)
    M = [[Fraction(int(r == c)) for c in range(nu)] + [Fraction(0)] * len(rootc) for r in range(nu)]
    for r, (o, k) in enumerate(unknowns):
        d, ins, _ = S.prod[o]
        for i in ins:
            for j in range(ins[i]):
                c = _coef_frac(S, d, o, k, i, j)
                if (i, j) in unknowns:
                    M[r][unknowns.index((i, j))] -= c
                else:
                    M[r][nu + rootc.index((i, j))] += c
    for c in range(nu):  # Gauss-Jordan with exact fractions
        piv = next(r for r in range(c, nu) if M[r][c] != 0)
        M[c], M[piv] = M[piv], M[c]
        M[c] = [v / M[c][c] for v in M[c]]
        for r in range(nu):
            if r != c and M[r][c] != 0:
                f = M[r][c]
                M[r] = [a - f * b for a, b in zip(M[r], M[c])]
    point = {}
    for r, (o, k) in enumerate(unknowns):
        acc = 0.0
        for q, (n, j) in enumerate(rootc):
            c = M[r][nu + q]
            if c != 0:
                acc = acc + (exact_const(ctx, c) if ctx.symbolic else float(c)) * xroot[n][j]
        point.setdefault(o, []).append(acc)
    return point


class Partials:
    """The partial derivatives the disciplines return: free real symbols (``kind='free'``) or uninterpreted functions of the
    discipline's inputs at the time of the call (``kind='uf'``).  Independent of the affine execution map on purpose."""

    def __init__(self, ctx, S, kind):
        self.ctx, self.S, self.kind = ctx, S, kind
        self._uf = {}

    def get(self, d, o, k, i, j, flat):
        nm = f"d{d}.{o}{k}/{i}{j}"
        if self.kind == "free":
            return self.ctx.real(nm)
        if nm not in self._uf:
            self._uf[nm] = self.ctx.uf(nm, len(flat))
        return self._uf[nm](*flat)

    def block(self, d, ins, o, i, values):
        flat = [v for n in sorted(ins) for v in values[n]]
        return [[self.get(d, o, k, i, j, flat) for j in range(self.S.sizes[i])] for k in range(self.S.sizes[o])]


_CLASS = None


def _disc_class():
    global _CLASS
    if _CLASS is not None:
        return _CLASS
    from gemseo.core.discipline import Discipline

    class AffineDiscipline(Discipline):
        default_grammar_type = Discipline.GrammarType.SIMPLE
        default_cache_type = Discipline.CacheType.NONE

        def __init__(self, ctx, S, name, ins, outs, res2state, partials, jac_mode, log):
            super().__init__(name=name)
            self.set_cache(Discipline.CacheType.NONE)
            self._c, self._S, self._ins, self._outs, self._p, self._jm, self._log = ctx, S, dict(ins), dict(outs), partials, jac_mode, log
            self.io.input_grammar.update_from_names(list(ins))
            self.io.output_grammar.update_from_names(list(outs))
            self.io.input_grammar.defaults = {n: np.zeros(s) for n, s in ins.items()}
            if res2state:
                self.io.residual_to_state_variable = dict(res2state)
                self.io.state_equations_are_solved = True

        def _vals(self, data):
            return {n: [_py(v) for v in _plain(np.asarray(data[n])).ravel()] for n in self._ins}

        def _run(self, input_data):
            vals = self._vals(input_data)
            self._log.append(("run", self.name))
            out = {}
            for o, so in self._outs.items():
                comp = []
                for k in range(so):
                    acc = 0.0
                    for i in sorted(self._ins):
                        for j in range(self._ins[i]):
                            c = _coef(self._c, self._S, self.name, o, k, i, j)
                            if not _is0(c):
                                acc = acc + c * vals[i][j]
                    comp.append(acc)
                out[o] = self._c.array(comp)
            return out

        def _compute_jacobian(self, input_names=(), output_names=()):
            vals = self._vals(self.io.data)
            self._log.append(("jac", self.name, tuple(input_names), tuple(output_names)))
            ins, outs = list(self._ins), list(self._outs)
            if self._jm == "requested":
                ins = [i for i in ins if not input_names or i in input_names]
                outs = [o for o in outs if not output_names or o in output_names]
            self.jac = {o: {i: self._c.array(self._p.block(self.name, self._ins, o, i, vals)) for i in ins} for o in outs}

    _CLASS = AffineDiscipline
    return _CLASS


# ------------------------------------------------------------------------------------------------
# oracle (never touches gemseo): Cramer's rule on dR/dU over all coupling and state components
# ------------------------------------------------------------------------------------------------
def _is0(v):
    return isinstance(v, (int, float)) and v == 0


def _det(M):
    """Determinant by Laplace expansion along the first row (structural zeros skipped)."""
    n = len(M)
    if n == 0:
        return 1.0
    if n == 1:
        return M[0][0]
    acc = 0.0
    for c in range(n):
        if _is0(M[0][c]):
            continue
        minor = [[M[r][q] for q in range(n) if q != c] for r in range(1, n)]
        t = M[0][c] * _det(minor)
        acc = acc + t if c % 2 == 0 else acc - t
    return acc


def oracle(ctx, S, partials, point):
    """{output: {root input: nested list}} at ``point`` = {name: [scalars]}; states the well-conditioning assumptions
    (bounded partial derivatives, |det(dR/dU)| >= 1/4) before dividing."""
    sizes = S.sizes
    blocks = {}

    def blk(o, i):
        d, dins, _ = S.prod[o]
        if i not in dins:
            return None
        if (o, i) not in blocks:
            blocks[(o, i)] = partials.block(d, dins, o, i, {n: point[n] for n in dins})
        return blocks[(o, i)]

    # unknowns U: coupling components then state components; one equation per unknown
    unknowns = [(n, k) for n in S.couplings + S.states for k in range(sizes[n])]
    state2res = {s: r for r, s in S.res2state.items()}
    eqs = [(n, k, "coupling") if n in S.couplings else (state2res[n], k, "residual") for (n, k) in unknowns]
    nu = len(unknowns)
    A = [[0.0] * nu for _ in range(nu)]
    for r, (o, k, kind) in enumerate(eqs):
        for c, (v, j) in enumerate(unknowns):
            b = blk(o, v)
            p = 0.0 if b is None else b[k][j]
            if kind == "coupling":
                # R = y - Y(x, U)
                if (o, k) == (v, j):
                    A[r][c] = 1.0 if _is0(p) else 1.0 - p
                else:
                    A[r][c] = 0.0 if _is0(p) else -p
            else:
                # R = r(x, U)
                A[r][c] = p
    det = _det(A)
    for o in S.outs:  # every partial derivative of the system is bounded (part of 'well-conditioned', keeps float64 replays accurate)
        for i in S.ins:
            if o in S.states:
                continue  # the explicit d state / d input blocks a discipline may return are not part of the implicit-function expression
            for row in (blk(o, i) or []):
                for v in row:
                    ctx.assume(ctx.and_(ctx.le(-2.0, v), ctx.le(v, 2.0)))
    ctx.assume(ctx.or_(ctx.le(0.25, det), ctx.le(det, -0.25)))
    # dU/dx by Cramer's rule, one right-hand side per root input component:  A . dU/dx = -dR/dx
    dU = {}
    for x in S.roots:
        for j in range(sizes[x]):
            rhs = []
            for (o, k, kind) in eqs:
                b = blk(o, x)
                p = 0.0 if b is None else b[k][j]
                rhs.append(p if kind == "coupling" or _is0(p) else -p)
            for c in range(nu):
                if all(_is0(v) for v in rhs):
                    dU[(unknowns[c], x, j)] = 0.0
                    continue
                Ac = [[rhs[r] if q == c else A[r][q] for q in range(nu)] for r in range(nu)]
                dU[(unknowns[c], x, j)] = _det(Ac) / det
    tot = {}
    for o in S.functions:
        tot[o] = {}
        for x in S.roots:
            rows = []
            for k in range(sizes[o]):
                row = []
                for j in range(sizes[x]):
                    if o in S.couplings:
                        row.append(dU[((o, k), x, j)])
                        continue
                    b = blk(o, x)
                    acc = 0.0 if b is None else b[k][j]
                    for (v, q) in unknowns:
                        bv = blk(o, v)
                        if bv is None or _is0(dU[((v, q), x, j)]):
                            continue
                        acc = acc + bv[k][q] * dU[((v, q), x, j)]
                    row.append(acc)
                rows.append(row)
            tot[o][x] = rows
    return tot


# ------------------------------------------------------------------------------------------------
# contract stubs for the compiled environment (symbolic mode only)
# ------------------------------------------------------------------------------------------------
class DenseSparse:
    """Stands for a scipy.sparse matrix (csr/csc and their transposes): the same values in a dense 2-D object array.

    Only data movement and exact ring arithmetic; indexing returns 2-D pieces, as scipy.sparse matrices do."""

    ndim = 2

    def __init__(self, a):
        from symgem.core import as_symarray

        a = as_symarray(a)
        if a.ndim != 2:
            raise ValueError(f"a sparse matrix is 2-D, got shape {a.shape}")
        self.a = a

    shape = property(lambda self: self.a.shape)
    dtype = property(lambda self: self.a.dtype)
    T = property(lambda self: DenseSparse(self.a.T))
    real = property(lambda self: self)

    def transpose(self):
        return self.T

    def copy(self):
        return DenseSparse(self.a.copy())

    def tocsc(self):
        return self

    tocsr = tocsc

    def astype(self, *a, **k):
        return self

    def toarray(self):
        return self.a.copy()

    todense = toarray

    def __neg__(self):
        return DenseSparse(-self.a)

    def __getitem__(self, idx):
        if not isinstance(idx, tuple):
            idx = (idx, slice(None))
        r, c = idx
        r = slice(r, r + 1) if isinstance(r, (int, np.integer)) else r
        c = slice(c, c + 1) if isinstance(c, (int, np.integer)) else c
        return DenseSparse(self.a[r, c])

    def dot(self, other):
        if isinstance(other, DenseSparse):
            return DenseSparse(np.matmul(self.a, other.a))
        from symgem.core import as_symarray

        return np.matmul(self.a, as_symarray(np.asarray(other)))

    __matmul__ = dot

    def __add__(self, other):
        if isinstance(other, DenseSparse):
            return DenseSparse(self.a + other.a)
        return self.a + other  # sparse + dense is dense in scipy

    __radd__ = __add__


def _to_dense2d(x):
    from symgem.core import SymArray

    if isinstance(x, DenseSparse):
        return x.a
    if hasattr(x, "toarray"):  # a genuine scipy.sparse object holding concrete numbers
        return SymArray(np.asarray(x.toarray(), dtype=object))
    if isinstance(x, SymArray):
        return x
    return SymArray(np.asarray(np.asarray(x), dtype=object))


def _zeros(shape):
    from symgem.core import SymArray

    z = np.empty(shape, dtype=object)
    z[...] = 0.0
    return SymArray(z)


def _stub_sparse_ctor(arg, *a, **k):
    """csr_matrix / csc_matrix: ``(m, n)`` -> the zero matrix, anything else -> the same values."""
    if isinstance(arg, tuple) and len(arg) == 2 and all(isinstance(v, (int, np.integer)) for v in arg):
        return DenseSparse(_zeros(arg))
    return DenseSparse(_to_dense2d(arg))


def _stub_bmat(blocks, format=None, dtype=None):
    """scipy.sparse.bmat: place the given blocks (``None`` = zero block) side by side; sizes are read off the blocks."""
    nr, ncol = len(blocks), len(blocks[0])
    hs, ws = [None] * nr, [None] * ncol
    for r in range(nr):
        for c in range(ncol):
            b = blocks[r][c]
            if b is None:
                continue
            m, n = b.shape
            if hs[r] not in (None, m) or ws[c] not in (None, n):
                raise ValueError("blocks: incompatible block dimensions")  # as scipy
            hs[r], ws[c] = m, n
    if any(h is None for h in hs) or any(w is None for w in ws):
        raise ValueError("blocks: a block row/column is entirely None")  # as scipy
    out = _zeros((sum(hs), sum(ws)))
    r0 = 0
    for r in range(nr):
        c0 = 0
        for c in range(ncol):
            b = blocks[r][c]
            if b is not None:
                out[r0:r0 + hs[r], c0:c0 + ws[c]] = _plain(_to_dense2d(b))
            c0 += ws[c]
        r0 += hs[r]
    return DenseSparse(out)


def _minor(M, r, c):
    n = len(M)
    return [[M[p][q] for q in range(n) if q != c] for p in range(n) if p != r]


def _det_col(M):
    """Determinant by expansion along the first column (written separately from the oracle's)."""
    n = len(M)
    if n == 1:
        return M[0][0]
    acc = 0.0
    for r in range(n):
        if _is0(M[r][0]):
            continue
        t = M[r][0] * _det_col(_minor(M, r, 0))
        acc = acc + t if r % 2 == 0 else acc - t
    return acc


def _const0(v):
    from symgem.core import SymReal, _const_fraction, _is_const

    if isinstance(v, SymReal):
        return 0.0 if _is_const(v.t) and _const_fraction(v.t) == 0 else v
    return v


SINGULAR_MESSAGE = "Factor is exactly singular"  # the RuntimeError of SuperLU (scipy.sparse.linalg.factorized / splu)


def _structurally_singular(rows):
    n = len(rows)
    return any(all(_is0(v) for v in row) for row in rows) or any(all(_is0(rows[r][c]) for r in range(n)) for c in range(n))


class SolveContract:
    """The exact linear solve standing for SuperLU and the Krylov solvers: for a non-singular ``A`` the unique ``x`` with ``A x = b``
    (written as adj(A) b / det(A)).  Singular systems are outside the contract (an unspecified vector is returned).  Every use
    re-states the contract as obligations ``A x == b`` so that the stub's own algebra is checked by the solver.

    With ``singular='environment'`` a singular matrix is treated as the compiled environment treats it: SuperLU (``factorized``) raises
    ``RuntimeError('Factor is exactly singular')``; the Krylov solvers solve the regular part of a STRUCTURALLY singular (identically zero
    rows and columns: the way a missing Jacobian block shows), decoupled system (``_decoupled``) and return an unspecified vector
    otherwise."""

    def __init__(self, ctx, singular="unspecified"):
        self.ctx = ctx
        self.n = 0
        # what a singular matrix means (see ``install_stubs``): 'unspecified' = outside the contract (the historical behaviour, kept for the
        # harnesses importing these stubs); 'environment' = what the compiled environment does: SuperLU refuses it, a Krylov solver
        # solves the regular part of a system that decouples into a regular part and identically zero equations
        self.singular = singular

    def matrix_of(self, A):
        if isinstance(A, DenseSparse):
            return A.a
        if hasattr(A, "matvec") and not isinstance(A, np.ndarray):
            # a LinearOperator is known through its action only: probe it with the unit vectors (runs gemseo's _matvec/_rmatvec)
            n = A.shape[1]
            out = _zeros((A.shape[0], n))
            for j in range(n):
                e = _zeros((n,))
                e[j] = 1.0
                out[:, j] = _plain(np.asarray(A.matvec(e))).ravel()
            return out
        return _to_dense2d(A)

    def solve(self, A, b, lu=False):
        ctx = self.ctx
        M = self.matrix_of(A)
        n = M.shape[0]
        if M.shape != (n, n):
            raise ValueError(f"solve: the matrix is not square: {M.shape}")
        bb = _plain(np.asarray(b if not isinstance(b, DenseSparse) else b.a))
        bshape = bb.shape
        bv = [_const0(_py(v)) for v in bb.ravel()]
        if len(bv) != n:
            raise ValueError(f"solve: right-hand side of size {len(bv)} for a matrix of order {n}")
        rows = [[_const0(_py(M[r, c])) for c in range(n)] for r in range(n)]
        self.n += 1
        if self.singular == "environment" and _structurally_singular(rows):
            if lu:
                raise RuntimeError(SINGULAR_MESSAGE)  # (already refused by ``factorized``)
            dec = self._decoupled(rows, bv)
            if dec is not None:
                return dec, bshape
            det = 0.0
        else:
            det = _det_col(rows)
        if bool(det == 0):
            if self.singular == "environment" and lu:
                raise RuntimeError(SINGULAR_MESSAGE)  # (already refused by ``factorized``)
            # singular system: outside the contract, the solvers return an unspecified vector (infeasible for gemseo's own matrix under
            # the harness assumption det(dR/dU) != 0; reached only when a wrong matrix is handed to the solver)
            out = _zeros((n,))
            for c in range(n):
                out[c] = ctx.real(f"unspecified_solution{self.n}_{c}")
            return out, bshape
        return self._exact(rows, bv, det, ""), bshape

    def is_singular(self, A):
        """An identically zero row or column, or det(A) == 0 on this path (forks when that depends on the values of the symbols)."""
        M = self.matrix_of(A)
        rows = [[_const0(_py(M[r, c])) for c in range(M.shape[1])] for r in range(M.shape[0])]
        return _structurally_singular(rows) or bool(_det_col(rows) == 0)

    def _decoupled(self, rows, bv):
        """Krylov solvers on a singular but consistent system of a special form: k identically zero rows with a zero right-hand side and
        k identically zero columns (unknowns that appear in no equation), the remaining (n-k) x (n-k) system being regular.  Started
        from zero the Krylov iterates stay in span{b, A b, ...}: they solve the regular part; the decoupled unknowns are left
        unspecified here (fresh symbols), which is weaker.  Any other singular system: ``None`` (unspecified vector)."""
        n = len(rows)
        zr = [r for r in range(n) if all(_is0(v) for v in rows[r]) and _is0(bv[r])]
        zc = [c for c in range(n) if all(_is0(rows[r][c]) for r in range(n))]
        if not zr or len(zr) != len(zc) or len(zr) == n:
            return None
        keep_r = [r for r in range(n) if r not in zr]
        keep_c = [c for c in range(n) if c not in zc]
        sub = [[rows[r][c] for c in keep_c] for r in keep_r]
        det = _det_col(sub)
        if bool(det == 0):
            return None
        xs = self._exact(sub, [bv[r] for r in keep_r], det, " (regular part of a decoupled singular system)")
        out = _zeros((n,))
        for q, c in enumerate(keep_c):
            out[c] = xs[q]
        for c in zc:
            out[c] = self.ctx.real(f"unspecified_decoupled_unknown{self.n}_{c}")
        return out

    def _exact(self, rows, bv, det, what):
        """adj(A) b / det(A) for det(A) != 0, re-stated as obligations A x == b."""
        ctx = self.ctx
        n = len(rows)
        x = []
        for c in range(n):
            acc = 0.0
            for r in range(n):
                if _is0(bv[r]):
                    continue
                cof = _det_col(_minor(rows, r, c)) if n > 1 else 1.0
                t = cof * bv[r]
                acc = acc + t if (r + c) % 2 == 0 else acc - t
            x.append(0.0 if _is0(acc) else acc / det)
        for r in range(n):
            lhs = 0.0
            for c in range(n):
                if _is0(rows[r][c]) or _is0(x[c]):
                    continue
                lhs = lhs + rows[r][c] * x[c]
            ctx.check(f"stub contract: solve #{self.n} row {r}{what}: A x == b", ctx.eq(lhs, bv[r]))
        out = _zeros((n,))
        for c in range(n):
            out[c] = x[c]
        return out


class _ExactResidual:
    """Stands for ``norm(A x - b)`` / ``norm(b)`` in the LU modes' diagnostic (it only gates a log message): with the exact solve the
    relative residual is 0 (nan for b = 0 in float64), never above the tolerance."""

    def __truediv__(self, other):
        return self

    def __gt__(self, other):
        return False


def install_stubs(ctx, singular="unspecified"):
    """``singular``: what the solve contract does with a matrix whose determinant is zero on the current path.  'unspecified' (default,
    historical): an unspecified vector whatever the solver; 'environment': ``factorized`` raises the RuntimeError of SuperLU ("Factor
    is exactly singular") and the Krylov wrappers solve the regular part of a structurally singular, decoupled system
    (``SolveContract._decoupled``)."""
    if not ctx.symbolic:
        return None
    import gemseo.algos.linear_solvers.scipy_linalg.scipy_linalg as sl
    import gemseo.core.derivatives.jacobian_assembly as ja
    import gemseo.mda.base_mda_solver as bms
    from symgem.core import SymReal

    sc = SolveContract(ctx, singular)

    def factorized(A):
        if singular == "environment" and sc.is_singular(A):
            raise RuntimeError(SINGULAR_MESSAGE)  # as scipy.sparse.linalg.factorized (SuperLU), at factorization time

        def solve(b):
            x, bshape = sc.solve(A, b, lu=True)
            return x.reshape(bshape)

        return solve

    def krylov(A, b, **settings):
        x, _ = sc.solve(A, b)
        return x, 0

    ctx.patch(ja, "csr_matrix", _stub_sparse_ctor)
    ctx.patch(ja, "csc_matrix", _stub_sparse_ctor)
    ctx.patch(ja, "bmat", _stub_bmat)
    ctx.patch(ja, "empty", lambda shape, *a, **k: _zeros(shape))
    ctx.patch(ja, "eye", lambda n, dtype=None, **k: np.eye(n, dtype=dtype or float))
    ctx.patch(ja, "factorized", factorized)
    ctx.patch(ja, "norm", lambda v, *a, **k: _ExactResidual())
    real_issparse = sl.issparse
    ctx.patch(sl, "issparse", lambda x: isinstance(x, DenseSparse) or real_issparse(x))
    table = sl.ScipyLinalgAlgos._ScipyLinalgAlgos__NAMES_TO_FUNCTIONS
    for name in list(table):
        ctx.patch(table, name, krylov)
    ctx.patch(bms, "float", lambda v: v if isinstance(v, SymReal) else float(v))
    return sc


# ------------------------------------------------------------------------------------------------
# the real MDA
# ------------------------------------------------------------------------------------------------
def build_mda(cfg, discs):
    from gemseo.core.discipline import Discipline
    from gemseo.mda.gauss_seidel import MDAGaussSeidel
    from gemseo.mda.jacobi import MDAJacobi
    from gemseo.mda.mda_chain import MDAChain

    common = dict(max_mda_iter=5, tolerance=1e-6, log_convergence=False, use_lu_fact=bool(cfg.get("lu", False)),
                  linear_solver=cfg.get("solver", "DEFAULT"))
    kind = cfg["mda"]
    if kind == "gs":
        mda = MDAGaussSeidel(discs, **common)
    elif kind == "jacobi":
        mda = MDAJacobi(discs, n_processes=1, **common)
    elif kind == "chain":
        mda = MDAChain(discs, inner_mda_name="MDAGaussSeidel", inner_mda_settings=dict(max_mda_iter=5, tolerance=1e-6, log_convergence=False), **common)
        for q in [mda.mdo_chain, *mda.mdo_chain.disciplines]:
            q.set_cache(Discipline.CacheType.NONE)
    else:
        raise ValueError(kind)
    mda.set_cache(Discipline.CacheType.NONE)
    mda.linearization_mode = cfg.get("mode", "auto")
    mda.matrix_type = cfg.get("matrix", "matrix")
    return mda


def dense(b):
    if isinstance(b, DenseSparse):
        return b.a
    if hasattr(b, "toarray"):
        return b.toarray()
    return np.asarray(b)


def _subsets(items, max_size=None):
    return [list(s) for s in subsets(items) if max_size is None or len(s) <= max_size or len(s) == len(items)]


def reads_state(S, o):
    """The discipline computing o reads a state variable: o depends *directly* on the state."""
    return any(n in S.states for n in S.prod[o][1])


def requests(S, kind, max_out, outs="all"):
    """The (inputs, outputs) requests of a harness, classified with the structural dependency relation.

    'clean': every requested (output, input) pair is dependent and some coupling is needed (the situation of every MDF problem);
    'other': at least one independent pair, or no coupling needed at all."""
    out = []
    for I in _subsets(S.roots):
        funcs = [o for o in S.functions if outs == "all" or (outs == "direct") == reads_state(S, o)]
        for O in _subsets(funcs, max_out):
            all_dep = all(x in S.dep[o] for o in O for x in I)
            needs_coupling = any(S.needs_coupling(o, x) for o in O for x in I if x in S.dep[o])
            clean = all_dep and needs_coupling
            if (kind == "clean") == clean:
                out.append((I, O))
    return out


class _Stop(Exception):
    """Raised by the harness itself after the first failed obligation of a path (the remaining entries would only repeat it, and
    every counterexample costs several non-linear solver queries)."""


def _ck(ctx, label, formula):
    if ctx.check(label, formula) is False:
        raise _Stop


def check_request(ctx, pre, S, jac, tot, I, O, observe=True):
    for o in O:
        row = jac.get(o) if hasattr(jac, "get") else None
        if row is None:
            _ck(ctx, pre + f"no Jacobian for output {o}", ctx.false())
            continue
        for x in I:
            b = row.get(x)
            if b is None:
                _ck(ctx, pre + f"no block d{o}/d{x}", ctx.false())
                continue
            b = dense(b)
            exp = tot[o][x]
            shp = tuple(np.shape(b))
            if shp != (S.sizes[o], S.sizes[x]):
                _ck(ctx, pre + f"d{o}/d{x}: shape {shp} != {(S.sizes[o], S.sizes[x])}", ctx.false())
                continue
            if observe:
                ctx.observe(pre + f"d{o}/d{x}", np.ravel(b))
            g = _plain(b) if isinstance(b, np.ndarray) else np.asarray(b, dtype=object)
            for k in range(S.sizes[o]):
                for j in range(S.sizes[x]):
                    _ck(ctx, pre + f"d{o}/d{x}[{k},{j}] == implicit-function value", ctx.eq(_py(g[k, j]), exp[k][j]))


def _run(ctx, cfg, kind):
    S = Sys(cfg["system"])
    pre = f"{cfg['system']}: "
    sizes = S.sizes
    partials = Partials(ctx, S, cfg.get("partials", "free"))
    install_stubs(ctx, singular="environment")

    # symbolic inputs and the consistent point (couplings and states) of the affine, contracting execution map
    point = {n: [ctx.real(f"p_{n}{k}") for k in range(sizes[n])] for n in S.roots}
    point.update(consistent_point(ctx, S, point))

    # the request, chosen by the solver among the requests of this harness
    reqs = requests(S, kind, cfg.get("max_out", 1), cfg.get("outs", "all"))
    if "req" in cfg:
        I, O = reqs[cfg["req"]]
    else:
        I, O = reqs[ctx.choice("req", len(reqs))]

    # oracle first: the well-conditioning assumption is stated on the oracle's own residual Jacobian
    tot = oracle(ctx, S, partials, point)

    log = []
    cls = _disc_class()
    discs = [cls(ctx, S, d, i, o, rs, partials, cfg.get("jac_mode", "all"), log) for (d, i, o, rs) in S.discs]
    if cfg.get("order"):
        discs = [discs[k] for k in cfg["order"]]
    mda = build_mda(cfg, discs)
    mda.add_differentiated_inputs(I)
    mda.add_differentiated_outputs(O)
    data = {n: ctx.array(list(v)) for n, v in point.items()}

    def linearize(label, I, O):
        try:
            return mda.linearize(data)
        except RuntimeError as e:
            if str(e) != SINGULAR_MESSAGE:
                raise
            # SuperLU (float64 replays) or its contract stub (symbolic mode) refused the assembled matrix: the coupled system is well posed (the oracle's
            # own dR/dU is regular by assumption), so the property requires a result whatever the LU option
            _ck(ctx, pre + label + " LU factorization succeeds (assembled dR/dy singular although dR/dU of the coupled system is regular)", ctx.false())
            return None
        except ValueError as e:
            # gemseo refuses a request containing an input on which no requested output depends: accepted (see META['outside'])
            msg = str(e)
            for x in I:
                if msg == f"Failed to determine the size of input variable {x}" and not any(x in S.dep[o] for o in O):
                    ctx.observe(pre + label + " refused", [1.0])
                    return None
            raise

    jac = linearize("req1", I, O)
    if jac is None:
        return
    ctx.observe(pre + "refused", [0.0]) if kind == "other" else None
    check_request(ctx, pre + "req1 ", S, jac, tot, I, O)

    if cfg.get("second"):
        # a second, larger request on the same MDA object at the same point: one more input and/or one more output
        outs = cfg.get("outs", "all")
        funcs = [o for o in S.functions if outs == "all" or (outs == "direct") == reads_state(S, o)]
        more = [(x, None) for x in S.roots if x not in I] + [(None, o) for o in funcs if o not in O]
        more = [(x, o) for (x, o) in more if kind == "other" or requests_ok(S, I + ([x] if x else []), O + ([o] if o else []))]
        if more:
            x, o = more[ctx.choice("more", len(more))]
            I2, O2 = I + ([x] if x else []), O + ([o] if o else [])
            if x:
                mda.add_differentiated_inputs([x])
            if o:
                mda.add_differentiated_outputs([o])
            jac2 = linearize("req2", I2, O2)
            if jac2 is not None:
                check_request(ctx, pre + "req2 ", S, jac2, tot, I2, O2, observe=False)


def requests_ok(S, I, O):
    return all(x in S.dep[o] for o in O for x in I) and any(S.needs_coupling(o, x) for o in O for x in I)


def _guarded(ctx, cfg, kind):
    if ctx.symbolic and getattr(ctx, "violations", None) and time.perf_counter() - ctx.t_start > 20.0:
        # counterexamples were already found in this configuration: stop exploring it (reported as budget; the violations stand).
        # Never taken on a tree that satisfies the property.
        raise Budget("violations already found in this configuration; remaining paths skipped")
    try:
        _run(ctx, cfg, kind)
    except _Stop:
        pass


def h_total(ctx, cfg):
    _guarded(ctx, cfg, "clean")


def h_subsets(ctx, cfg):
    _guarded(ctx, cfg, "other")


CLEAN_SYSTEMS = ("ring2", "ring2v", "self", "ring3", "weak", "state", "state_fn")
SIDE_SYSTEMS = ("side", "side_v")
CYCLE_SYSTEMS = ("cyc2", "cyc2u")
VARIANTS = {"krylov": dict(), "lu": dict(lu=True), "linop": dict(matrix="linear_operator")}


def configs(tier):
    quick = tier == "quick"
    out = []

    def add(h, system, mda, mode, variant="krylov", **kw):
        cfg = dict(system=system, mda=mda, mode=mode, **VARIANTS[variant], **kw)
        if system.startswith("state") and h == "total":
            cfg["outs"] = "indirect"  # outputs computed from a state variable directly hit a recorded defect: harness 'state_direct'
        if not quick:
            cfg.setdefault("max_out", None)
        out.append((h, cfg))

    for system in CLEAN_SYSTEMS:
        n = len(SYSTEMS[system])
        rev = list(reversed(range(n)))
        if quick:
            for mode in ("direct", "adjoint"):
                for variant in VARIANTS:
                    add("total", system, "gs", mode, variant)
            add("total", system, "gs", "auto")
            add("total", system, "jacobi", "direct", "lu")
            add("total", system, "jacobi", "adjoint", "linop")
            add("total", system, "chain", "auto")
            add("total", system, "chain", "adjoint", "lu")
            add("total", system, "chain", "direct", "linop")
            # disciplines filling only the requested blocks, listed in reverse order
            add("total", system, "gs", "adjoint", jac_mode="requested", order=rev)
            add("total", system, "chain", "direct", jac_mode="requested", order=rev)
            # other linear solvers (same solve contract: this exercises the library plumbing only)
            add("total", system, "gs", "direct", solver="GMRES")
            add("total", system, "jacobi", "adjoint", solver="LGMRES")
            # partial derivatives as uninterpreted functions of the point at which each discipline is linearized
            add("total", system, "gs", "direct", partials="uf")
            add("total", system, "chain", "adjoint", "linop", partials="uf")
            # a second, larger request on the same MDA object
            add("total", system, "gs", "direct", second=True)
            add("total", system, "chain", "adjoint", "linop", second=True, jac_mode="requested")
        else:
            for mda in ("gs", "jacobi", "chain"):
                for mode in ("direct", "adjoint", "auto"):
                    for variant in VARIANTS:
                        add("total", system, mda, mode, variant)
            for mode in ("direct", "adjoint", "auto"):
                for variant in VARIANTS:
                    add("total", system, "gs", mode, variant, partials="uf", jac_mode="requested", order=rev)
            for mda in ("gs", "chain"):
                for mode in ("direct", "adjoint"):
                    add("total", system, mda, mode, second=True, max_out=1)
                    add("total", system, mda, mode, "linop", second=True, jac_mode="requested", max_out=1)
            for solver in ("LGMRES", "GMRES"):  # (BICG-type solvers break down in float64 on some of these tiny systems: numerical behaviour, outside)
                add("total", system, "gs", "direct", solver=solver)
                add("total", system, "jacobi", "adjoint", solver=solver)
    # requests with independent (output, input) pairs, or needing no coupling at all (weak system)
    add("subsets", "weak", "gs", "direct")
    add("subsets", "weak", "chain", "adjoint", "lu")
    add("subsets", "weak", "jacobi", "auto", "linop")
    # outputs computed directly from a state variable (one request per configuration)
    n_direct = {"state": 3, "state_fn": 9}
    for system in ("state", "state_fn"):
        for req in (range(n_direct[system]) if not quick else (0, 1)):
            for mode, variant in (("direct", "krylov"), ("adjoint", "lu")):
                out.append(("state_direct", dict(system=system, mda="gs", mode=mode, outs="direct", req=req, max_out=None, **VARIANTS[variant])))
    # ---- added after a missed seeded change and two reported defects (appended so that the indices of the configurations above are stable) ----
    # SIDE_SYSTEMS: a residual/state discipline on no coupling path next to a strongly coupled pair; CYCLE_SYSTEMS: two strongly coupled groups, the
    # second one reading a strong coupling of the first one.  EVERY non-empty subset of outputs x every non-empty subset of inputs in both tiers
    # (max_out=None): the dependent, coupling-or-state-needing requests in 'total', the others (independent pairs) in 'subsets'.
    for system in SIDE_SYSTEMS + CYCLE_SYSTEMS:
        n = len(SYSTEMS[system])
        rev = list(reversed(range(n)))
        if quick:
            combos = [("gs", "direct", "krylov"), ("gs", "adjoint", "lu"), ("gs", "auto", "linop"), ("jacobi", "direct", "lu"), ("jacobi", "adjoint", "krylov"),
                      ("chain", "auto", "krylov"), ("chain", "adjoint", "lu"), ("chain", "direct", "linop")]
            if system in ("side_v", "cyc2u"):
                combos = [("gs", "direct", "lu"), ("gs", "adjoint", "krylov"), ("jacobi", "auto", "linop"), ("chain", "adjoint", "lu")]
            for mda, mode, variant in combos:
                add("total", system, mda, mode, variant, max_out=None)
            add("total", system, "gs", "adjoint", jac_mode="requested", order=rev, max_out=None)
            if system in ("side", "cyc2"):
                add("total", system, "chain", "direct", partials="uf", jac_mode="requested", order=rev, max_out=None)
                add("total", system, "jacobi", "adjoint", solver="GMRES", max_out=None)
                add("total", system, "gs", "direct", second=True)
                add("total", system, "chain", "adjoint", "lu", second=True, jac_mode="requested")
        else:
            for mda in ("gs", "jacobi", "chain"):
                for mode in ("direct", "adjoint", "auto"):
                    for variant in VARIANTS:
                        add("total", system, mda, mode, variant)
            for mode in ("direct", "adjoint", "auto"):
                for variant in VARIANTS:
                    add("total", system, "gs", mode, variant, partials="uf", jac_mode="requested", order=rev)
            for mda in ("gs", "chain"):
                for mode in ("direct", "adjoint"):
                    add("total", system, mda, mode, second=True, max_out=1)
                    add("total", system, mda, mode, "lu", second=True, jac_mode="requested", max_out=1)
            for solver in ("LGMRES", "GMRES"):
                add("total", system, "jacobi", "adjoint", solver=solver)
    for system in ("side", "side_v", "cyc2u"):  # (cyc2 has a single root input: every request is dependent)
        if quick:
            combos = [("gs", "direct", "krylov"), ("chain", "adjoint", "lu"), ("jacobi", "auto", "linop")] if system == "side" else \
                     [("gs", "adjoint", "lu"), ("chain", "direct", "krylov")]
        else:
            combos = [(mda, mode, variant) for mda in ("gs", "jacobi", "chain") for mode in ("direct", "adjoint", "auto") for variant in VARIANTS]
        for mda, mode, variant in combos:
            add("subsets", system, mda, mode, variant, max_out=None)
    # a self-coupled discipline alone in its group (every subset of outputs x inputs)
    if quick:
        combos = [("gs", "direct", "krylov"), ("gs", "adjoint", "lu"), ("jacobi", "auto", "linop"), ("chain", "adjoint", "krylov"), ("chain", "direct", "lu")]
    else:
        combos = [(mda, mode, variant) for mda in ("gs", "jacobi", "chain") for mode in ("direct", "adjoint", "auto") for variant in VARIANTS]
    for mda, mode, variant in combos:
        add("total", "selfone", mda, mode, variant, max_out=None)
    add("total", "selfone", "gs", "adjoint", jac_mode="requested", order=[1, 0], partials="uf", max_out=None)
    add("total", "selfone", "chain", "direct", second=True)
    for mda, mode, variant in combos[:2] if quick else combos:
        add("subsets", "selfone", mda, mode, variant, max_out=None)
    return out


HARNESSES = {"total": h_total, "subsets": h_subsets, "state_direct": h_total}
