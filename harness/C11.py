"""C11 - saved histories, design spaces, problems and caches reload identically (PARTIAL claim).

The move (the one that made C07 decidable): h5py / libhdf5 is the compiled ENVIRONMENT.  In symbolic mode it is replaced by the
in-memory contract stub ``harness/h5fake.py`` ("what was written under a path/name is what is read back, nothing else"), so that all
of gemseo's Python bookkeeping - group layout ``x/k/v``, per-entry name lists, scalar slots and ``arr_<i>`` sub-groups, the index
offset of appended outputs, the pending-array buffer, the append/overwrite dispatch, design-space and problem serialization, the
cache's per-node entry groups - runs for real with SYMBOLIC stored values.  In concrete mode (counterexample replay and differential
self-test) the fake is NOT installed: the real h5py writes real files into a ``tempfile.mkdtemp`` directory that the harness removes;
the self-test is therefore a translation validation of the fake against libhdf5 on the explored histories.

Every path is CONCRETE as far as the ORDER of operations is concerned (``ctx.choice``: the solver enumerates the histories with pruning
and constructs the counterexample) and SYMBOLIC in the stored VALUES: one path proves the round trip for every value at once (a wrong
index offset / name order / scalar-vs-vector slot shows as a term mismatch whatever the numbers are).

Oracles are a lock-step reference model kept by the harness (list of (point, {name: (shape, terms)})) and explicit per-view
comparisons; never a second call of the code under test.
"""
from __future__ import annotations

import itertools
import shutil
import tempfile

import numpy as np

from harness.common import _plain, _py, elems
from harness.h5fake import FakeH5, fake_or_tmp_path, sym_array_stub
from symgem.core import SymArray

INF = float("inf")

META = dict(
    bounds=dict(
        quick="EVERY PATH IS CONCRETE AS FAR AS THE ORDER OF OPERATIONS IS CONCERNED (ctx.choice: the solver enumerates the histories with pruning and constructs "
              "the counterexample) AND SYMBOLIC IN THE STORED VALUES.  db_history: one Database, K=3 operations chosen by the solver + a fixed tail (one more "
              "append-export, then a single full export to a second file; both reloaded); operations: store a NEW point (<= 3 points, concrete coordinates: float, "
              "integer-valued float, int64; dimension 1-2) with any subset of the output names including the empty one, store MORE outputs (any non-empty subset of the "
              "missing names) at ANY earlier point, Database.to_hdf(append=True) to the incremental file, [own configurations] the incremental file rewritten by "
              "another writer (DesignSpace.to_hdf(append=False)) or overwritten by Database.to_hdf(append=False), a full export to ANOTHER file in between (K=4); "
              "2-3 output names per configuration with kinds Python float / size-1 array / vector(2) / 2-D arrays (1x2, 2x2) / Python list, names chosen so that "
              "scalars are stored in non-alphabetical order around vectors and gradient names '@f' sort first; root node and nested nodes ('n1/n2', 'hist'); with 3 "
              "names the first operation is pinned per configuration and later new points use 4 of the 8 subsets, <= 2 points.  After EVERY export the file is "
              "reloaded with Database.from_hdf and compared with the lock-step reference model (number and order of points, coordinates, set of names per point, "
              "shape and every component of every value as terms).  space: 6 layouts (1-4 variables, sizes 1-2, float variables with symbolic bounds [bounded / "
              "lower-only / upper-only / unbounded / equal bounds] and symbolic current values within the bounds or no current value; integer variables with concrete "
              "bounds, infinite integer bounds, concrete or missing current values; multi-character names in non-alphabetical order), to_hdf/from_hdf and the "
              "to_file/from_file dispatch ('.h5' and '.hdf5' names; route and reader chosen by the solver), root and nested nodes, a second space under another "
              "node of the same file.  problem: OptimizationProblem with objective (minimized or maximized), a vector inequality and a shifted equality constraint, an "
              "observable, non-default tolerances / differentiation method / step, with or without an OptimizationResult (concrete), on a space with symbolic bounds; "
              "K=2 operations among store (objective only / all values / everything incl. gradients), more outputs at an earlier point, problem.to_hdf(append=False), "
              "problem.to_hdf(append=True), database.to_hdf(append=True) on the same file + a final problem.to_hdf (append chosen by the solver); root and nested "
              "nodes.  cache: HDF5Cache on 1-2 nodes (incl. nested nodes with a common parent) of one file, 1-2 entries per node (inputs x[2], p[1], outputs y[2], z[1], "
              "rectangular Jacobian of 4 blocks or none: solver flags; Jacobian before or after the outputs; interleaving of the writes to the two nodes chosen by the "
              "solver), then re-instantiated on the same file/node: len, look-up of every entry, get_all_entries, an unknown input is not served.",
        thorough="same with K=4 database operations (3 names: every subset at every step, 3 points), K=3 problem operations, 2+2 cache entries on two nodes",
    ),
    outside=[
        "h5py / libhdf5 themselves: dtype conversion (float64 storage is MODELLED as exact real storage), chunking and resizing on disk, durability, flushing, "
        "concurrent access, file locking, version compatibility.  The claim is about gemseo's Python bookkeeping under the contract 'what was written under a "
        "(file, node, name) is read back from it'.  The contract stub harness/h5fake.py is compared with the real h5py (i) by tools/h5fake_selfcheck.py (86 "
        "operations, results and exception types) and (ii) by the differential self-test on the explored histories (concrete float64 run on real files)",
        "the text formats: DesignSpace.to_csv/from_csv (PrettyTable formatting and str->float parsing realise the symbols; 16 significant digits), Database.to_ggobi, "
        "OptimizationProblem/Database.to_dataset; pickle-based serialization (C20)",
        "database values that change at an existing (point, name) between two appends (the property speaks of NEW outputs at existing points), Database.clear / "
        "clear_from_iteration / remove_empty_entries / filter between two appends, outputs added by mutating the mapping returned by Database.__getitem__ instead "
        "of Database.store, listeners, more than 3 points / 3 names / K operations, vectors longer than 2, NaN values, complex values, sparse Jacobians",
        "symbolic point coordinates (the pending buffer is keyed by the byte hash of the point; the points are concrete so that the REAL xxh3 hash is used; hash "
        "collisions between different points are outside)",
        "the ORDER of the output names inside a reloaded entry and the ORDER of the reloaded constraints / observables (file groups are listed alphabetically: the "
        "constraints come back sorted by name, observed, not asserted: the statement says 'same function descriptions'); derived strings (special_repr); the callables "
        "of the reloaded functions (they read the database)",
        "OptimizationResult with symbolic fields (utils.hdf5.convert_h5_group_to_dict tests the dtype kind of what it reads: an object array of terms would be taken "
        "for strings): the solution is concrete dyadic data, which makes that part an example-based test run by this framework; a solution that changes between "
        "problem.to_hdf(append=True) calls; multi-objective problems / ParetoFront",
        "integer design variables with symbolic bounds or values (engine rule: integer bounds concrete); the pydantic validation of Variable on the reloaded bounds",
        "HDF5Cache: tolerance > 0, clear(), update_file_format, string inputs, sparse Jacobians, Jacobians whose outputs do not all have the same inputs "
        "(nest_flat_bilevel_dict documents 'sub-dictionaries will have the same keys'; a non-rectangular Jacobian written through cache_jacobian raises KeyError when "
        "read back: observed, not asserted), two LIVE caches writing new entries to the same node (C20 notes), multiprocessing locks, consistency of the byte hash "
        "with equality",
        "scenario backups / crash points (C12)",
    ],
    stubs=[
        "harness/h5fake.py (symbolic mode only): in-memory stand-in for h5py installed as the module global 'h5py' (and the names File / Group imported from it) of "
        "gemseo.algos._hdf_database, gemseo.algos.design_space, gemseo.algos.optimization_problem, gemseo.utils.hdf5, gemseo.caches._hdf5_file_singleton.  Contract: "
        "per file path, a tree of groups and datasets; a dataset returns the values it was given (copy on write and on read), numbers with the dtype h5py would use, "
        "variable-length strings as bytes, symbolic reals as the same terms; errors mirrored from h5py 3.11: FileNotFoundError on r/r+ of a missing file, 'w' truncates "
        "and refuses a file that is open, KeyError on missing members, ValueError when creating an existing dataset/group, TypeError on resize without maxshape, "
        "RuntimeError beyond maxshape, TypeError on non-broadcastable assignment, ValueError/OSError/RuntimeError/KeyError on writes through a read-only handle, "
        "alphabetical member order, len()/iteration of scalar datasets refused.  h5py.string_dtype/special_dtype/check_string_dtype (pure dtype metadata) are "
        "delegated to the real h5py.  Concrete mode (replay, self-test) uses the REAL h5py on files in a tempfile.mkdtemp directory removed by the harness",
        "module global 'array' of gemseo.algos._hdf_database, gemseo.algos.design_space (HDFDatabase.__to_real, DesignSpace.__to_real, array(dataset) on reading) and "
        "gemseo.caches._hdf5_file_singleton -> value-preserving: data holding symbols become an object array of the same terms whatever dtype=float64 says",
        "gemseo.algos.design_space.Variable -> the REAL pydantic Variable built on placeholder bounds of the same shape with the same infinite components, then the "
        "given bound arrays written unchanged into the instance (pydantic-core cannot hold symbols; same stub as harness.common.build_space); "
        "gemseo.algos.design_space.vectorize -> element-wise application (numpy.vectorize refuses object arrays of symbols)",
        "gemseo.caches.base_full_cache.get_multi_processing_manager -> plain dict instead of a manager-process dict (symbolic mode only; single process); "
        "gemseo.caches._hdf5_file_singleton.exists / Path -> existence look-ups answered by the fake file system; harness.common.install_hash_stub (symbolic cache "
        "keys collide: look-ups are decided by the real compare_dict_of_arrays); the HDF5FileSingleton multiton entry of the harness file is dropped at the start of "
        "every execution (both modes)",
    ],
    assumptions=[
        "design-space bounds satisfy lb < ub (or lb == ub for 'E' components) and symbolic current values lie within the bounds (documented preconditions)",
        "the entries of one cache node have pairwise different inputs (first component of x); the 'unknown' input differs from all of them",
        "outputs are added to an existing point through Database.store (the documented API), never by mutating the stored mapping",
    ],
)

EXPLORER_OPTS = {"quick": dict(max_paths=20000, wall_budget_s=200.0, selftest_paths=40),
                 "thorough": dict(max_paths=200000, wall_budget_s=1400.0, selftest_paths=150)}


# ------------------------------------------------------------------------------------------------
# environment
# ------------------------------------------------------------------------------------------------
class Env:
    """The environment of one harness execution: the fake h5py (symbolic mode) or a temporary directory (concrete mode)."""

    def __init__(self, ctx):
        self.ctx = ctx
        self.fake = FakeH5()
        self.tmp = None if ctx.symbolic else tempfile.mkdtemp(prefix="verif_c11_")
        self.fake.install(ctx)
        if ctx.symbolic:
            import gemseo.algos._hdf_database as hd
            import gemseo.algos.design_space as dsm

            # value-preserving float64 casts: HDFDatabase.__to_real, DesignSpace.__to_real, array(dataset) when reading back
            ctx.patch(hd, "array", sym_array_stub(hd.array))
            ctx.patch(dsm, "array", sym_array_stub(dsm.array))

    def path(self, name):
        return fake_or_tmp_path(self.ctx, self.tmp, name)

    def close(self):
        if self.tmp is not None:
            shutil.rmtree(self.tmp, ignore_errors=True)


def with_env(fn):
    def run(ctx, cfg):
        env = Env(ctx)
        try:
            return fn(ctx, cfg, env)
        finally:
            env.close()

    run.__name__ = fn.__name__
    return run


# ------------------------------------------------------------------------------------------------
# values of the database outputs
# ------------------------------------------------------------------------------------------------
KINDS = {
    "float": "Python float",
    "arr1": "array of size 1",
    "vec": "vector of size 2",
    "mat": "2-D array of shape (2, 2) (a Jacobian)",
    "row": "2-D array of shape (1, 2)",
    "list": "Python list of 2 floats",
}


def new_value(ctx, kind, tag):
    """A fresh value of the given kind: (object handed to Database.store, shape, flat list of terms)."""
    if kind == "float":
        v = ctx.real(tag)
        return v, (), [v]
    if kind == "arr1":
        a = ctx.reals(tag + "_", 1)
        return a, (1,), elems(a)
    if kind == "vec":
        a = ctx.reals(tag + "_", 2)
        return a, (2,), elems(a)
    if kind == "mat":
        a = ctx.matrix(tag + "_", 2, 2)
        return a, (2, 2), elems(a)
    if kind == "row":
        a = ctx.matrix(tag + "_", 1, 2)
        return a, (1, 2), elems(a)
    if kind == "list":
        lst = [ctx.real(f"{tag}_{i}") for i in range(2)]
        return lst, (2,), list(lst)
    raise ValueError(kind)


def check_value(ctx, label, got, shape, terms):
    """Shape and components of a reloaded value against the reference terms."""
    gshape = tuple(np.shape(got))
    if gshape != tuple(shape):
        ctx.check(f"{label}:shape {gshape} == {tuple(shape)}", ctx.false())
        return
    ctx.check(f"{label}:shape", ctx.true())
    for i, (a, b) in enumerate(zip(elems(got) if isinstance(got, (np.ndarray, list, tuple)) else [_py(got)], terms)):
        ctx.check(f"{label}[{i}]", ctx.eq(a, b))


def check_database(ctx, label, db, ref, obs=True):
    """The reloaded database ``db`` against the reference model ``ref`` = [(point tuple, {name: (shape, terms)})]."""
    items = [(k.wrapped_array, v) for k, v in db.items()]
    ctx.check(f"{label}:number of entries {len(items)} == {len(ref)}", ctx.true() if len(items) == len(ref) else ctx.false())
    flat = []
    for i, ((x, outs), (pt, routs)) in enumerate(zip(items, ref)):
        same_pt = tuple(np.shape(x)) == (len(pt),) and all(float(a) == float(b) for a, b in zip(np.asarray(x).ravel(), pt))
        ctx.check(f"{label}:point#{i} {np.asarray(x).tolist()} == {list(pt)}", ctx.true() if same_pt else ctx.false())
        names, rnames = sorted(outs), sorted(routs)
        ctx.check(f"{label}:names#{i} {names} == {rnames}", ctx.true() if names == rnames else ctx.false())
        for name in rnames:
            if name in outs:
                shape, terms = routs[name]
                check_value(ctx, f"{label}:#{i}.{name}", outs[name], shape, terms)
                flat += elems(outs[name]) if isinstance(outs[name], (np.ndarray, list, tuple)) else [_py(outs[name])]
    if obs:
        ctx.observe(label, ctx.array(flat) if flat else np.zeros(0))
    return items


def subsets_of(idx, min_size=0):
    idx = list(idx)
    out = []
    for k in range(min_size, len(idx) + 1):
        out += list(itertools.combinations(idx, k))
    return out


# ------------------------------------------------------------------------------------------------
# harness: database histories
# ------------------------------------------------------------------------------------------------
POINTS = {
    "float": [[0.5, -1.25], [2.0, 3.0], [0.0, 7.75], [-4.5, 1.0]],
    "float1": [[0.5], [2.0], [-3.25], [8.0]],
    "intval": [[1.0, -2.0], [3.0, 0.0], [0.0, 5.0], [7.0, 7.0]],
    "int64": [[1, -2], [3, 0], [0, 5], [7, 7]],
}


@with_env
def h_db_history(ctx, cfg, env):
    """A Database driven by a history of K operations chosen by the solver; after every export the file is reloaded."""
    from gemseo.algos.database import Database

    names = [n for n, _ in cfg["outs"]]
    kinds = dict(cfg["outs"])
    pts = POINTS[cfg["points"]]
    dtype = np.int64 if cfg["points"] == "int64" else np.float64
    node = cfg.get("node", "")
    K = cfg["K"]
    max_pts = cfg.get("max_points", 3)
    ops_allowed = cfg["ops"]
    file_a, file_b = env.path("incremental.h5"), env.path("final.h5")

    db = Database()
    ref = []  # lock-step reference model: [(point tuple, {name: (shape, terms)})]
    n_exports = 0
    a_written = False

    def export_and_check(label, path, append):
        db.to_hdf(path, append=append, hdf_node_path=node)
        back = Database.from_hdf(path, hdf_node_path=node, log=False)
        check_database(ctx, label, back, ref)
        return back

    for k in range(K):
        # the operations the real API permits in the current state (concrete on this path)
        menu = []
        if "new" in ops_allowed and len(ref) < max_pts:
            allowed = cfg.get("new_subsets") if k > 0 or not cfg.get("new_subsets0") else cfg.get("new_subsets0")
            for s in (subsets_of(range(len(names))) if allowed is None else [tuple(s) for s in allowed]):
                menu.append(("new", None, s))
        if "more" in ops_allowed:
            for p, (_, routs) in enumerate(ref):
                missing = [i for i, n in enumerate(names) if n not in routs]
                for s in subsets_of(missing, 1):
                    menu.append(("more", p, s))
        for op in ("append", "full_other", "rewrite", "full_same"):
            if op in ops_allowed:
                menu.append((op, None, None))
        if k == 0 and cfg.get("ops0"):
            menu = [m for m in menu if m[0] in cfg["ops0"]]
        op, p, s = menu[ctx.choice(f"op{k}", len(menu))]
        if op in ("new", "more"):
            outs = {}
            routs = {}
            for i in s:
                v, shape, terms = new_value(ctx, kinds[names[i]], f"v{k}_{names[i].replace('@', 'd')}")
                outs[names[i]] = v
                routs[names[i]] = (shape, terms)
            if op == "new":
                pt = pts[len(ref)]
                db.store(np.array(pt, dtype=dtype), outs)
                ref.append((tuple(pt), routs))
            else:
                db.store(np.array(ref[p][0], dtype=dtype), outs)
                ref[p][1].update(routs)
        elif op == "append":
            export_and_check(f"step{k}:append", file_a, True)
            a_written = True
            n_exports += 1
        elif op == "full_same":
            # a full export over the incremental file itself (append=False truncates it)
            export_and_check(f"step{k}:full-same", file_a, False)
            a_written = True
            n_exports += 1
        elif op == "full_other":
            # a full export to ANOTHER file in between two incremental exports
            export_and_check(f"step{k}:full-other", file_b, False)
            n_exports += 1
        elif op == "rewrite":
            # the incremental file is rewritten by another writer (here DesignSpace.to_hdf, append=False: the file then holds a design
            # space and no database groups, the case named in the comment of HDFDatabase.to_file)
            db.input_space.to_hdf(file_a, append=False, hdf_node_path=node)
            a_written = True

    # tail: one more incremental export, then a single final export to another file; both must reload to the reference content
    back_a = export_and_check("final:append", file_a, True)
    back_b = export_and_check("final:full", file_b, False)
    items_a = [(k_.wrapped_array, v) for k_, v in back_a.items()]
    items_b = [(k_.wrapped_array, v) for k_, v in back_b.items()]
    ctx.check("final:incremental file and single export have the same number of entries",
              ctx.true() if len(items_a) == len(items_b) else ctx.false())
    for i, ((xa, oa), (xb, ob)) in enumerate(zip(items_a, items_b)):
        ctx.check(f"final:same names#{i}", ctx.true() if sorted(oa) == sorted(ob) else ctx.false())
        for n in sorted(set(oa) & set(ob)):
            if tuple(np.shape(oa[n])) != tuple(np.shape(ob[n])):
                ctx.check(f"final:same shape#{i}.{n}", ctx.false())
                continue
            for j, (a, b) in enumerate(zip(elems(oa[n]) if np.ndim(oa[n]) else [_py(oa[n])], elems(ob[n]) if np.ndim(ob[n]) else [_py(ob[n])])):
                ctx.check(f"final:same value#{i}.{n}[{j}]", ctx.eq(a, b))
    # the input space travels with the database (Database.to_hdf writes it, from_hdf reads it)
    if ref:
        sp = back_a.input_space
        ctx.check("final:input space dimension", ctx.true() if sp.dimension == len(ref[0][0]) else ctx.false())


def _db_configs(tier):
    quick = tier == "quick"
    out = []

    def add(**cfg):
        out.append(("db_history", cfg))

    base_ops = ["new", "more", "append"]
    two = [("f", "float"), ("g", "vec")]
    # two names, every subset, K operations + tail
    for pts, node in (("float", ""), ("intval", "n1/n2")):
        for op0 in (["new"], ["append"]):
            add(outs=two, points=pts, node=node, K=3 if quick else 4, ops=base_ops, ops0=op0)
    add(outs=[("f", "float"), ("@f", "row")], points="float1", node="", K=3 if quick else 4, ops=base_ops)
    add(outs=[("g", "arr1"), ("a", "list")], points="int64", node="hist", K=3 if quick else 4, ops=base_ops)
    # three names (scalar / vector / matrix mixes: the scalar slots and the arr_<i> indices interleave), first operation pinned
    three_sets = [
        [("f", "float"), ("g", "vec"), ("@f", "mat")],
        [("m", "float"), ("b", "arr1"), ("a", "float")],   # scalars stored in non-alphabetical order around a vector
        [("z", "list"), ("c", "float"), ("@c", "row")],
    ]
    for outs in three_sets if not quick else three_sets[:2]:
        for s0 in ([(0,), (1,), (2,), (0, 1), (0, 2), (1, 2), (), (0, 1, 2)] if not quick else [(0,), (1,), (2,), ()]):
            add(outs=outs, points="float", node="", K=3 if quick else 4, ops=base_ops, ops0=["new"], new_subsets0=[list(s0)],
                new_subsets=[[], [0], [1, 2], [0, 1, 2]] if quick else None, max_points=2 if quick else 3)
    # the incremental file is rewritten by another writer / overwritten by a full export in between
    add(outs=two, points="float", node="", K=3 if quick else 4, ops=base_ops + ["rewrite", "full_same"], new_subsets=[[0], [0, 1]], ops0=["new"])
    add(outs=two, points="float", node="n1", K=3 if quick else 4, ops=base_ops + ["rewrite", "full_same"], new_subsets=[[1], []], ops0=["new"])
    # a full export to another file between two incremental exports
    add(outs=two, points="float", node="", K=4, ops=base_ops + ["full_other"], new_subsets=[[0]], ops0=["new"], max_points=2, family="other_file")
    return out


# ------------------------------------------------------------------------------------------------
# harness: design spaces
# ------------------------------------------------------------------------------------------------
def install_variable_stub(ctx):
    """pydantic-core (compiled) validates the bounds of ``Variable``: it cannot hold symbols.  ``Variable(...)`` is called by the real
    ``DesignSpace.add_variable`` inside ``from_hdf`` with the arrays read back from the file; the stub builds the REAL ``Variable`` on
    placeholder bounds of the same shape with the same infinite components (so that the real size / dimension / type validation runs)
    and then writes the given bound arrays, unchanged, into the instance (the stub already used by ``harness.common.build_space``)."""
    if not ctx.symbolic:
        return
    import gemseo.algos.design_space as dsm
    from harness.h5fake import _contains_sym

    real_variable = dsm.Variable

    def variable(**kw):
        lb, ub = kw.get("lower_bound", -INF), kw.get("upper_bound", INF)
        if not (_contains_sym(lb) or _contains_sym(ub)):
            return real_variable(**kw)

        def placeholder(b, finite):
            a = np.asarray(_plain(b) if isinstance(b, np.ndarray) else b, dtype=object)
            out = np.empty(a.shape, dtype=float)
            for i, e in enumerate(a.ravel()):
                e = _py(e)
                out.flat[i] = e if isinstance(e, float) and np.isinf(e) else finite
            return out

        kw2 = dict(kw)
        kw2["lower_bound"], kw2["upper_bound"] = placeholder(lb, 0.0), placeholder(ub, 1.0)
        var = real_variable(**kw2)
        for attr, b in (("lower_bound", lb), ("upper_bound", ub)):
            var.__dict__[attr] = SymArray(np.atleast_1d(np.asarray(_plain(b) if isinstance(b, np.ndarray) else b, dtype=object)))
        # the order check of the real validator, on the real (symbolic) bounds: forks unless the path condition decides it; the genuine
        # pydantic error is raised by the real class on a violating placeholder
        if (var.__dict__["upper_bound"] < var.__dict__["lower_bound"]).any():
            real_variable(size=1, lower_bound=1.0, upper_bound=0.0)
        return var

    ctx.patch(dsm, "Variable", variable)

    real_vectorize = dsm.vectorize

    def vectorize(fn, *a, **k):
        """numpy.vectorize on an array of symbols: the element-wise application it stands for (DesignSpace._check_value)."""
        vec = real_vectorize(fn, *a, **k)

        def call(arr):
            if isinstance(arr, SymArray):
                out = np.empty(arr.shape, dtype=bool)
                for i, e in enumerate(_plain(arr).ravel()):
                    out.flat[i] = bool(fn(_py(e)))
                return out
            return vec(arr)

        return call

    ctx.patch(dsm, "vectorize", vectorize)


# layouts: (name, type, per-component bound kinds for floats [B bounded symbolic, L lower only, R upper only, U unbounded, E equal bounds] or
# concrete integer bounds, current value: "sym" (symbolic, within the bounds) / concrete list / None)
SPACE_LAYOUTS = {
    "f1": [("x", "float", "B", "sym")],
    "f2": [("x", "float", "BU", "sym"), ("y_long_name", "float", "L", None)],
    "mixed": [("x_1", "float", "BR", "sym"), ("n", "integer", [(0, 5), (-3, 4)], [2, -1]), ("zz", "float", "U", "sym")],
    "mixed_novalue": [("count", "integer", [(1, 9)], None), ("x", "float", "EB", "sym"), ("w", "float", "LU", None)],
    "int_inf": [("k", "integer", [(-INF, 3), (0, INF)], [1, 7]), ("alpha", "float", "B", None)],
    "order": [("b", "float", "B", "sym"), ("a", "float", "U", "sym"), ("c", "float", "R", None), ("aa", "float", "B", "sym")],
}


def build_symbolic_space(ctx, layout, prefix=""):
    """A real DesignSpace with symbolic float bounds / values + its explicit description."""
    from harness.common import build_space

    spec = []
    for name, typ, bounds, value in layout:
        if typ == "integer":
            # (infinite integer bounds are passed as floats)
            spec.append((name, typ, bounds))
        else:
            spec.append((name, typ, bounds))
    # integer variables with infinite bounds are not handled by build_space (it casts to float arrays, which is what gemseo does too)
    ds, info = build_space(ctx, [(n, t, b) for n, t, b, _ in layout], prefix=prefix)
    if ctx.symbolic:
        # (build_space stores object arrays; a bound array without any symbol must be the float64 array gemseo itself would hold)
        from symgem.core import has_sym

        for var in ds._variables.values():
            for attr in ("lower_bound", "upper_bound"):
                b = var.__dict__[attr]
                if b.dtype == object and not has_sym(b):
                    var.__dict__[attr] = np.array(_plain(b), dtype=float)
    values = {}
    off = 0
    for name, typ, bounds, value in layout:
        size = len(bounds)
        if value == "sym":
            vs = [ctx.real(f"{prefix}val_{name}{c}") for c in range(size)]
            for c in range(size):
                if info.lb[off + c] != -INF:
                    ctx.assume(ctx.le(info.lb[off + c], vs[c]))
                if info.ub[off + c] != INF:
                    ctx.assume(ctx.le(vs[c], info.ub[off + c]))
            ds.set_current_variable(name, ctx.array(vs))
            values[name] = vs
        elif value is not None:
            ds.set_current_variable(name, np.array(value))
            values[name] = [float(v) for v in value]
        off += size
    return ds, info, values


def check_space(ctx, label, ds2, layout, info, values):
    names = [n for n, *_ in layout]
    got_names = list(ds2.variable_names)
    ctx.check(f"{label}:names {got_names} == {names}", ctx.true() if got_names == names else ctx.false())
    ctx.check(f"{label}:dimension", ctx.true() if ds2.dimension == info.n else ctx.false())
    off = 0
    flat = []
    for (name, typ, bounds, _), size in zip(layout, info.sizes):
        if name not in ds2:
            off += size
            continue
        ctx.check(f"{label}:{name}.size {ds2.get_size(name)} == {size}", ctx.true() if ds2.get_size(name) == size else ctx.false())
        ctx.check(f"{label}:{name}.type {ds2.get_type(name)} == {typ}", ctx.true() if str(ds2.get_type(name)) == typ else ctx.false())
        for what, got, exp in (("lower_bound", ds2.get_lower_bound(name), info.lb[off:off + size]),
                               ("upper_bound", ds2.get_upper_bound(name), info.ub[off:off + size])):
            check_value(ctx, f"{label}:{name}.{what}", got, (size,), exp)
            flat += [e for e in elems(got) if not (isinstance(e, float) and np.isinf(e))]
        cur = ds2._current_value.get(name)
        if name in values:
            if cur is None:
                ctx.check(f"{label}:{name}.value present", ctx.false())
            else:
                check_value(ctx, f"{label}:{name}.value", cur, (size,), values[name])
                flat += elems(cur)
        else:
            ctx.check(f"{label}:{name}.value absent", ctx.true() if cur is None else ctx.false())
        off += size
    # whole-vector views of the reloaded space
    if got_names == names:
        check_value(ctx, f"{label}:get_lower_bounds()", ds2.get_lower_bounds(), (info.n,), info.lb)
        check_value(ctx, f"{label}:get_upper_bounds()", ds2.get_upper_bounds(), (info.n,), info.ub)
        ctx.check(f"{label}:has_current_value", ctx.true() if ds2.has_current_value == all(n in values for n in names) else ctx.false())
    ctx.observe(label, ctx.array(flat) if flat else np.zeros(0))


@with_env
def h_space(ctx, cfg, env):
    from gemseo.algos.design_space import DesignSpace

    install_variable_stub(ctx)
    layout = SPACE_LAYOUTS[cfg["layout"]]
    ds, info, values = build_symbolic_space(ctx, layout)
    node = cfg.get("node", "")
    path = env.path(cfg.get("file", "space.h5"))
    route = ["hdf", "file"][ctx.choice("route", 2)] if not node else "hdf"
    other = cfg.get("other")
    if other:
        # another space already lives in the file under another node: the two must not mix
        ds_o, info_o, values_o = build_symbolic_space(ctx, SPACE_LAYOUTS[other], prefix="o_")
        ds_o.to_hdf(path, append=False, hdf_node_path="other/node")
    if route == "hdf":
        ds.to_hdf(path, append=bool(other), hdf_node_path=node)
    else:
        ds.to_file(path)
    reader = ["from_hdf", "from_file"][ctx.choice("reader", 2)]
    ds2 = DesignSpace.from_hdf(path, node) if reader == "from_hdf" else DesignSpace.from_file(path, hdf_node_path=node)
    check_space(ctx, "reloaded", ds2, layout, info, values)
    if other:
        ds3 = DesignSpace.from_hdf(path, "other/node")
        check_space(ctx, "other-node", ds3, SPACE_LAYOUTS[other], info_o, values_o)
    # the original is untouched by the export
    check_space(ctx, "original-after-export", ds, layout, info, values)


def _space_configs(tier):
    out = []
    for layout in SPACE_LAYOUTS:
        out.append(("space", dict(layout=layout, node="", file="space.h5")))
    out.append(("space", dict(layout="mixed", node="n1/n2", file="space.hdf5")))
    out.append(("space", dict(layout="f2", node="", file="space.hdf5")))
    out.append(("space", dict(layout="order", node="here", other="mixed", file="two.h5")))
    out.append(("space", dict(layout="int_inf", node="deep/er/node", other="f2", file="two.h5")))
    return out


# ------------------------------------------------------------------------------------------------
# harness: optimization problems
# ------------------------------------------------------------------------------------------------
PB_OUTS = [("f", "float"), ("g", "vec"), ("[h-0.25]", "arr1"), ("o", "arr1"), ("@f", "vec"), ("@g", "mat")]
PB_POINTS = [[0.5, 0.25], [0.125, 0.75], [1.0, 0.0]]


def _build_problem(ctx, cfg):
    """A small problem (objective, inequality and equality constraints, observable) on a space with symbolic bounds."""
    from gemseo.algos.optimization_problem import OptimizationProblem
    from gemseo.algos.optimization_result import OptimizationResult
    from gemseo.core.mdo_functions.mdo_function import MDOFunction

    layout = [("x", "float", "BB" if cfg.get("sym_space", True) else "CD", "sym")]
    ds, info, values = build_symbolic_space(ctx, layout)
    pb = OptimizationProblem(ds)
    pb.objective = MDOFunction(lambda x: x[0] + x[1], "f", f_type="obj", expr="x0+x1", input_names=["x"], dim=1)
    pb.add_constraint(MDOFunction(lambda x: x, "g", f_type="ineq", input_names=["x"], dim=2), constraint_type="ineq")
    pb.add_constraint(MDOFunction(lambda x: x[:1], "h", f_type="eq", input_names=["x"], dim=1, expr="x0"), constraint_type="eq", value=0.25)
    pb.add_observable(MDOFunction(lambda x: x[1:], "o", input_names=["x"], dim=1, expr="x1"))
    if not cfg.get("minimize", True):
        pb.minimize_objective = False
    pb.tolerances.inequality = 0.125
    pb.tolerances.equality = 0.5
    pb.differentiation_method = cfg.get("diff", "user")
    pb.differentiation_step = 0.0078125
    sol = None
    if cfg.get("solution"):
        sol = dict(x_0=np.array([0.5, 0.5]), x_0_as_dict={"x": np.array([0.5, 0.5])}, x_opt=np.array([0.5, 0.25]),
                   x_opt_as_dict={"x": np.array([0.5, 0.25])}, f_opt=0.75, status=1, message="done", n_obj_call=3, n_grad_call=1,
                   n_constr_call=2, is_feasible=True, optimizer_name="Stub", constraint_values={"g": np.array([0.5, 0.25])},
                   optimum_index=0)
        pb.solution = OptimizationResult(**sol)
    return pb, layout, info, values, sol


def _describe(fn):
    return dict(name=fn.name, f_type=str(fn.f_type), expr=fn.expr, input_names=list(fn.input_names), dim=int(fn.dim))


def _check_same(ctx, label, got, exp):
    ok = got == exp
    if isinstance(ok, np.ndarray):
        ok = bool(ok.all()) and np.shape(got) == np.shape(exp)
    ctx.check(f"{label}: {got!r} == {exp!r}", ctx.true() if ok else ctx.false())


def check_problem(ctx, label, pb2, expected, sol):
    """Descriptions, tolerances and solution of the reloaded problem against what the harness recorded from the original."""
    _check_same(ctx, f"{label}:objective", _describe(pb2.objective), expected["objective"])
    for what, funcs in (("constraints", list(pb2.constraints)), ("observables", list(pb2.observables))):
        got = {f.name: _describe(f) for f in funcs}
        # (the ORDER of the reloaded constraints is not asserted: the file groups are listed alphabetically)
        _check_same(ctx, f"{label}:{what} names", sorted(got), sorted(expected[what]))
        _check_same(ctx, f"{label}:number of {what}", len(funcs), len(expected[what]))
        for name in sorted(set(got) & set(expected[what])):
            _check_same(ctx, f"{label}:{what}.{name}", got[name], expected[what][name])
    _check_same(ctx, f"{label}:ineq_tolerance", float(pb2.tolerances.inequality), expected["ineq"])
    _check_same(ctx, f"{label}:eq_tolerance", float(pb2.tolerances.equality), expected["eq"])
    _check_same(ctx, f"{label}:minimize_objective", bool(pb2.minimize_objective), expected["minimize"])
    _check_same(ctx, f"{label}:differentiation_method", str(pb2.differentiation_method), expected["diff"])
    _check_same(ctx, f"{label}:differentiation_step", float(pb2.differentiation_step), expected["step"])
    _check_same(ctx, f"{label}:is_linear", bool(pb2.is_linear), expected["is_linear"])
    if sol is None:
        _check_same(ctx, f"{label}:solution absent", pb2.solution is None, True)
        return
    if pb2.solution is None:
        ctx.check(f"{label}:solution present", ctx.false())
        return
    s2 = pb2.solution
    for k in ("x_0", "x_opt"):
        _check_same(ctx, f"{label}:solution.{k}", np.asarray(getattr(s2, k)).tolist(), sol[k].tolist())
    for k in ("x_0_as_dict", "x_opt_as_dict", "constraint_values"):
        got = getattr(s2, k)
        _check_same(ctx, f"{label}:solution.{k}", {a: np.asarray(b).tolist() for a, b in (got or {}).items()},
                    {a: b.tolist() for a, b in sol[k].items()})
    for k in ("f_opt", "status", "message", "n_obj_call", "n_grad_call", "n_constr_call", "is_feasible", "optimizer_name", "optimum_index"):
        got = getattr(s2, k)
        got = got.item() if isinstance(got, np.generic) else got
        _check_same(ctx, f"{label}:solution.{k}", got, sol[k])


@with_env
def h_problem(ctx, cfg, env):
    from gemseo.algos.database import Database
    from gemseo.algos.optimization_problem import OptimizationProblem

    install_variable_stub(ctx)
    pb, layout, info, values, sol = _build_problem(ctx, cfg)
    node = cfg.get("node", "")
    path = env.path("problem.h5")
    names = [n for n, _ in PB_OUTS]
    kinds = dict(PB_OUTS)
    # what the original says about itself, recorded before any export (plain strings / numbers)
    expected = dict(objective=_describe(pb.objective), constraints={c.name: _describe(c) for c in pb.constraints},
                    observables={o.name: _describe(o) for o in pb.observables}, ineq=0.125, eq=0.5,
                    minimize=bool(cfg.get("minimize", True)), diff=cfg.get("diff", "user"), step=0.0078125, is_linear=bool(pb.is_linear))
    if cfg.get("minimize", True):
        _check_same(ctx, "original objective name", expected["objective"]["name"], "f")
    ref = []
    db = pb.database
    fvals = "f" if cfg.get("minimize", True) else "-f"
    onames = [fvals if n == "f" else n for n in names]
    okinds = {(fvals if n == "f" else n): k for n, k in kinds.items()}
    groups = [[0], [0, 1, 2, 3], [4, 5], [0, 1, 2, 3, 4, 5]]  # objective only / all values / the gradients / everything
    written = False
    for k in range(cfg["K"]):
        menu = []
        if len(ref) < len(PB_POINTS):
            menu += [("new", None, g) for g in (groups[0], groups[1], groups[3])]
        for p_, (_, routs) in enumerate(ref):
            for g in groups[1:3]:
                miss = [i for i in g if onames[i] not in routs]
                if miss:
                    menu.append(("more", p_, miss))
        menu += [("pb_write", None, None), ("pb_append", None, None), ("db_append", None, None)]
        if k == 0 and cfg.get("ops0"):
            menu = [m for m in menu if m[0] in cfg["ops0"]]
        op, p_, sel = menu[ctx.choice(f"op{k}", len(menu))]
        if op in ("new", "more"):
            outs, routs = {}, {}
            for i in sel:
                v, shape, terms = new_value(ctx, okinds[onames[i]], f"v{k}_{i}")
                outs[onames[i]] = v
                routs[onames[i]] = (shape, terms)
            if op == "new":
                pt = PB_POINTS[len(ref)]
                db.store(np.array(pt), outs)
                ref.append((tuple(pt), routs))
            else:
                db.store(np.array(ref[p_][0]), outs)
                ref[p_][1].update(routs)
        elif op == "pb_write":
            pb.to_hdf(path, append=False, hdf_node_path=node)
            written = True
        elif op == "pb_append":
            pb.to_hdf(path, append=True, hdf_node_path=node)
            written = True
        else:
            db.to_hdf(path, append=True, hdf_node_path=node)
        if op in ("pb_write", "pb_append"):
            pb_k = OptimizationProblem.from_hdf(path, hdf_node_path=node)
            check_database(ctx, f"step{k}:{op}:database", pb_k.database, ref, obs=False)
    pb.to_hdf(path, append=bool(ctx.choice("final_append", 2)), hdf_node_path=node)
    pb2 = OptimizationProblem.from_hdf(path, hdf_node_path=node)
    check_problem(ctx, "reloaded", pb2, expected, sol)
    check_database(ctx, "reloaded:database", pb2.database, ref)
    check_space(ctx, "reloaded:design_space", pb2.design_space, layout, info, values)
    # the database alone can be read from the same file / node
    check_database(ctx, "reloaded:Database.from_hdf", Database.from_hdf(path, hdf_node_path=node, log=False), ref, obs=False)


def _problem_configs(tier):
    quick = tier == "quick"
    out = []
    K = 2 if quick else 3
    out.append(("problem", dict(K=K, node="", solution=True, ops0=["new"])))
    out.append(("problem", dict(K=K, node="", solution=True, ops0=["pb_write", "pb_append", "db_append"])))
    out.append(("problem", dict(K=K, node="pb/node", solution=False, minimize=False, diff="finite_differences", ops0=["new"])))
    out.append(("problem", dict(K=K, node="n", solution=True, sym_space=False, ops0=["pb_write", "db_append"])))
    return out


# ------------------------------------------------------------------------------------------------
# harness: HDF5Cache
# ------------------------------------------------------------------------------------------------
def _install_cache_env(ctx, env):
    """File-system look-ups of the HDF5 file singleton go to the fake in symbolic mode; symbolic keys collide (hash stub)."""
    from os.path import realpath

    import gemseo.caches._hdf5_file_singleton as sg
    from gemseo.utils.singleton import SingleInstancePerFileAttribute
    from harness.common import install_hash_stub

    # the multiton keeps one HDF5FileSingleton per real path for the life of the process: forget the ones of earlier executions of
    # this harness (an aborted path may have left a handle open)
    for key in [k for k in SingleInstancePerFileAttribute.instances if k[1] == realpath(env.path("cache.h5"))]:
        del SingleInstancePerFileAttribute.instances[key]
    if not ctx.symbolic:
        return
    install_hash_stub(ctx)
    fake = env.fake

    import pathlib

    class FakePath(pathlib.PurePosixPath):
        """``pathlib.Path`` whose file-system look-ups are answered by the fake file system."""

        def exists(self):
            return fake.exists(str(self))

    import gemseo.caches.base_full_cache as bfc

    class LocalManager:
        """The multiprocessing manager (a server process) shares the hash table between processes: in this single process a plain
        dict has the same content (symbolic mode only: the concrete runs use the real manager)."""

        @staticmethod
        def dict(*a, **k):  # noqa: A003
            return dict(*a, **k)

    ctx.patch(bfc, "get_multi_processing_manager", lambda: LocalManager)
    ctx.patch(sg, "exists", fake.exists)
    ctx.patch(sg, "Path", FakePath)
    ctx.patch(sg, "array", sym_array_stub(sg.array))


def _cache_entry_values(ctx, tag, with_jac):
    inputs = {"x": ctx.reals(f"{tag}_x", 2), "p": ctx.reals(f"{tag}_p", 1)}
    outputs = {"y": ctx.reals(f"{tag}_y", 2), "z": ctx.reals(f"{tag}_z", 1)}
    jac = {"y": {"x": ctx.matrix(f"{tag}_dydx", 2, 2), "p": ctx.matrix(f"{tag}_dydp", 2, 1)}, "z": {"x": ctx.matrix(f"{tag}_dzdx", 1, 2), "p": ctx.matrix(f"{tag}_dzdp", 1, 1)}} if with_jac else None
    # (rectangular: every output has a block for every input - the documented precondition of nest_flat_bilevel_dict, which HDF5Cache uses)
    return inputs, outputs, jac


def _check_entry(ctx, label, entry, inputs, outputs, jac, flat):
    for group, got, exp in (("inputs", entry.inputs, inputs), ("outputs", entry.outputs, outputs)):
        _check_same(ctx, f"{label}:{group} names", sorted(got), sorted(exp))
        for n in sorted(set(got) & set(exp)):
            check_value(ctx, f"{label}:{group}.{n}", got[n], np.shape(exp[n]), elems(exp[n]))
            flat += elems(got[n])
    gj = entry.jacobian or {}
    ej = jac or {}
    _check_same(ctx, f"{label}:jacobian outputs", sorted(gj), sorted(ej))
    for o in sorted(set(gj) & set(ej)):
        _check_same(ctx, f"{label}:jacobian[{o}] inputs", sorted(gj[o]), sorted(ej[o]))
        for i in sorted(set(gj[o]) & set(ej[o])):
            check_value(ctx, f"{label}:jacobian[{o}][{i}]", gj[o][i], np.shape(ej[o][i]), elems(ej[o][i]))
            flat += elems(gj[o][i])


@with_env
def h_cache(ctx, cfg, env):
    """Two HDF5Cache objects on two nodes of one file; entries written in an order chosen by the solver; then both are re-instantiated."""
    from gemseo.caches.hdf5_cache import HDF5Cache

    _install_cache_env(ctx, env)
    path = env.path("cache.h5")
    nodes = cfg["nodes"]
    caches = {n: HDF5Cache(hdf_file_path=path, hdf_node_path=n) for n in nodes}
    plan = cfg["entries"]  # per node: number of entries
    model = {n: [] for n in nodes}
    todo = [(n, i) for n in nodes for i in range(plan[n])]
    # the interleaving of the writes to the two nodes is chosen by the solver
    order = []
    while todo:
        heads = []
        for n in nodes:
            h = next((t for t in todo if t[0] == n), None)
            if h is not None:
                heads.append(h)
        t = heads[ctx.choice(f"next{len(order)}", len(heads))]
        todo.remove(t)
        order.append(t)
    for k, (n, i) in enumerate(order):
        with_jac = bool(ctx.flag(f"jac_{n.replace('/', '_')}_{i}")) if cfg.get("jac", True) else False
        inputs, outputs, jac = _cache_entry_values(ctx, f"e_{n.replace('/', '_')}_{i}", with_jac)
        if cfg.get("pin_x"):
            # many entries: the first input component is pinned to the entry number, so that the equality tests between entries are decided
            # without forking (the inputs are pinned; the outputs and the Jacobian blocks stay symbolic)
            ctx.assume(ctx.eq(elems(inputs["x"])[0], float(i)))
            for v in elems(inputs["x"])[1:] + elems(inputs["p"]):
                ctx.assume(ctx.eq(v, 0.5))
        for (pi, _, _) in model[n]:
            # entries of one node are distinct inputs (otherwise the second is the same entry)
            ctx.assume(ctx.not_(ctx.eq(elems(pi["x"])[0], elems(inputs["x"])[0])))
        jac_first = with_jac and cfg.get("jacfirst", True) and bool(ctx.flag(f"jacfirst_{k}"))
        if jac_first:
            caches[n].cache_jacobian(inputs, jac)
        caches[n].cache_outputs(inputs, outputs)
        if with_jac and not jac_first:
            caches[n].cache_jacobian(inputs, jac)
        model[n].append((inputs, outputs, jac))
    flat = []
    for n in nodes:
        again = HDF5Cache(hdf_file_path=path, hdf_node_path=n)
        _check_same(ctx, f"{n}:len of the re-instantiated cache", len(again), len(model[n]))
        for i, (inputs, outputs, jac) in enumerate(model[n]):
            _check_entry(ctx, f"{n}:lookup#{i}", again[inputs], inputs, outputs, jac, flat)
        entries = list(again.get_all_entries())
        _check_same(ctx, f"{n}:number of entries", len(entries), len(model[n]))
        for i, (entry, (inputs, outputs, jac)) in enumerate(zip(entries, model[n])):
            _check_entry(ctx, f"{n}:entry#{i}", entry, inputs, outputs, jac, [])
        # an input that was never cached is not served
        if model[n]:
            unknown = {"x": ctx.reals(f"unk_{n.replace('/', '_')}_x", 2), "p": ctx.reals(f"unk_{n.replace('/', '_')}_p", 1)}
            if cfg.get("pin_x"):
                ctx.assume(ctx.eq(elems(unknown["x"])[0], -1.0))
                for v in elems(unknown["x"])[1:] + elems(unknown["p"]):
                    ctx.assume(ctx.eq(v, 0.5))
            for (pi, _, _) in model[n]:
                ctx.assume(ctx.not_(ctx.eq(elems(pi["x"])[0], elems(unknown["x"])[0])))
            miss = again[unknown]
            _check_same(ctx, f"{n}:unknown input not served", (len(miss.outputs), len(miss.jacobian or {})), (0, 0))
    ctx.observe("cache", ctx.array(flat) if flat else np.zeros(0))


def _cache_configs(tier):
    quick = tier == "quick"
    out = [
        ("cache", dict(nodes=["node"], entries={"node": 2})),
        ("cache", dict(nodes=["a", "b"], entries={"a": 1, "b": 1}, jacfirst=not quick)),
        ("cache", dict(nodes=["grp/a", "grp/b"], entries={"grp/a": 2, "grp/b": 1}, jac=quick is False)),
        ("cache", dict(nodes=["top/x/n", "top/n"], entries={"top/x/n": 1, "top/n": 1}, jac=False)),
        # ten entries and more: the groups "1", "10", "11", "2", ... are listed by h5py in alphabetical order of their names
        ("cache", dict(nodes=["node"], entries={"node": 11}, jac=False, pin_x=True)),
    ]
    if not quick:
        out.append(("cache", dict(nodes=["a", "b"], entries={"a": 2, "b": 2}, jac=False)))
    return out


def configs(tier):
    return _db_configs(tier) + _space_configs(tier) + _problem_configs(tier) + _cache_configs(tier)


HARNESSES = {"db_history": h_db_history, "space": h_space, "problem": h_problem, "cache": h_cache}
