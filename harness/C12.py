"""C12 - a crashed run leaves a loadable prefix backup and restarts without rework (PARTIAL: the crash point is a solver variable).

Real code under test (unmodified, executed on symbols): ``BaseScenario.set_optimization_history_backup / _execute_backup_callback /
execute`` (the final export), ``OptimizationProblem.to_hdf`` (append), ``Database.store`` and its listener protocol,
``HDFDatabase.to_file / update_from_file / add_pending_array`` with all of their append bookkeeping (pending arrays, dataset indices, output
name lists, scalar / vector outputs), ``Database.from_hdf / update_from_hdf``, ``DesignSpace.to_hdf / from_hdf``,
``ProblemFunction._compute_*_db*`` (memoization of the loaded points), ``EvaluationCounter``, ``BaseDriverLibrary.execute``,
``BaseOptimizationLibrary._pre_run``, ``BaseDOELibrary._pre_run/_run``, ``DisciplinaryOpt``, ``FunctionFromDiscipline`` /
``DisciplineAdapter``, ``MDOChain``, ``Discipline.execute/linearize``, ``OptimizationResult.from_optimization_problem``.

Environment (contract stubs, see META): h5py/libhdf5 -> harness.h5fake (symbolic mode only; the concrete replays and the differential
self-test write REAL HDF5 files with the real h5py in a temporary directory), ``pathlib.Path.exists/unlink`` of base_scenario -> the same
fake file system, the optimisation algorithm / the DOE sampler -> harness stub libraries, process death -> a harness-private
``BaseException`` raised inside the k-th discipline execution, k = ``ctx.choice("crash", n+1)``.

Shape of the main harness ``crash_restart`` (every run is built from scratch: fresh design space, disciplines, scenario, library):

  P (optional)  an earlier, shorter, complete run with the backup (``pre``), or an earlier run of the same program that died in a configured
                execution (``pre_crash``: nested crash) -> the file "already contains earlier data"
  A             the uninterrupted reference run on its own copy of the initial file -> history H (validated entry by entry against a
                lock-step reference model of "which function was requested where" and against the uninterpreted discipline symbols);
                the harness snapshots A's database at the start of every discipline execution
  B             the same construction, dies in its k-th discipline execution; AT THAT INSTANT (no unwinding, no ``finally``) the harness
                copies the file: that copy F_k is all that survives, every Python object of B is dropped
  C             a fresh scenario, ``set_optimization_history_backup(F_k, load=True)``, executed to completion
"""
from __future__ import annotations

import os
import shutil
import tempfile

import numpy as np

from harness.C03 import _decided, _install_stop_criteria_stubs, _stub_doe_library, _stub_opt_library
from harness.common import elems, install_np_array_stub
from harness.disc import _discipline_class, make_symbols, to_list
from harness.h5fake import FakeH5, sym_array_stub

LB, UB, X0 = -1.0, 3.0, 1.0
WIDTH = UB - LB


class Crash(BaseException):
    """Process death inside a discipline (harness-private; not an ``Exception``: nothing in gemseo may intercept it)."""


# ------------------------------------------------------------------------------------------------
# environment
# ------------------------------------------------------------------------------------------------
def _install_perfect_hash(ctx):
    """``xxh3_64_hexdigest`` of ``hashable_ndarray`` -> collision-free hash: equal values <=> equal hash, decided by forking on the
    equality with the arrays hashed earlier on the path (symbolic mode only; the replay uses the real xxh3 hash).  The all-colliding
    stub of harness.common cannot be used here: ``HDFDatabase.add_pending_array`` keys its buffer by the hash alone."""
    if not ctx.symbolic:
        return
    import gemseo.algos.hashable_ndarray as hn
    from symgem.core import HashToken, SymBool, Unsupported

    seen = []  # (shape, scalars, digest)

    def digest(data, *a, **k):
        if isinstance(data, HashToken):
            arr = data.a
            shape, vals = tuple(arr.shape), elems(arr)
        elif isinstance(data, np.ndarray) and data.dtype == np.uint8:
            base = data.base
            if base is None or base.dtype != np.float64 or data.size != 8 * base.size:
                raise Unsupported("perfect hash stub: key that is not a float64 array")
            shape, vals = tuple(base.shape), [float(v) for v in base.ravel()]
        else:
            raise Unsupported(f"perfect hash stub: unexpected data {type(data).__name__}")
        for sh, old, dg in seen:
            if sh == shape and bool(SymBool(ctx.and_(*[ctx.eq(a, b) for a, b in zip(vals, old)]))):
                return dg
        dg = f"{len(seen) + 1:016x}"
        seen.append((shape, list(vals), dg))
        return dg

    ctx.patch(hn, "xxh3_64_hexdigest", digest)


class Env:
    """The file system of one harness execution: the in-memory fake (symbolic mode) or a temporary directory (concrete mode)."""

    def __init__(self, ctx):
        self.ctx = ctx
        self.fake = FakeH5()
        self.tmp = None if ctx.symbolic else tempfile.mkdtemp(prefix="c12_", dir="/tmp")
        self._install()

    def close(self):
        if self.tmp:
            shutil.rmtree(self.tmp, ignore_errors=True)

    def path(self, name):
        return f"/h5fake/{name}" if self.ctx.symbolic else os.path.join(self.tmp, name)

    def exists(self, path):
        return self.fake.exists(path) if self.ctx.symbolic else os.path.exists(path)

    def copy(self, src, dst):
        """Harness-level file copy (a closed file is durable: its content is what a later reader sees)."""
        if not self.exists(src):
            return
        if self.ctx.symbolic:
            self.fake.files[os.path.normpath(dst)] = _clone(self.fake.files[os.path.normpath(src)])
        else:
            shutil.copyfile(src, dst)

    def open_files(self):
        """Number of HDF5 files open right now (fake: its own counter; real h5py: the library's list of open file identifiers)."""
        if self.ctx.symbolic:
            return sum(self.fake.open_count.values())
        import h5py

        return len(h5py.h5f.get_obj_ids(types=h5py.h5f.OBJ_FILE))

    def _install(self):
        ctx, fake = self.ctx, self.fake
        _install_stop_criteria_stubs(ctx)
        _install_perfect_hash(ctx)
        install_np_array_stub(ctx)
        if not ctx.symbolic:
            return
        import pathlib

        import gemseo.algos._hdf_database as hd
        import gemseo.core.discipline.discipline as dmod
        import gemseo.core.mdo_functions.discipline_adapter as da
        import gemseo.scenarios.base_scenario as bs
        from symgem.core import SymArray

        def zeros_obj(shape, *a, **k):
            z = np.empty(shape, dtype=object)
            z[...] = 0.0
            return SymArray(z)

        import gemseo.formulations.base_formulation as bf

        ctx.patch(da, "empty", zeros_obj)
        ctx.patch(dmod, "csr_array", zeros_obj)
        ctx.patch(bf, "zeros", zeros_obj)   # unmask_x_swap_order: zeros(shape, dtype=object) would be a plain ndarray
        fake.install(ctx)
        ctx.patch(hd, "array", sym_array_stub(hd.array))

        class FakePath(type(pathlib.Path())):
            """``pathlib.Path`` whose ``exists`` / ``unlink`` look at the fake file system (the rest is pure path arithmetic)."""

            def exists(self, **kw):
                return fake.exists(str(self))

            def unlink(self, missing_ok=False):
                key = os.path.normpath(str(self))
                if key not in fake.files:
                    if missing_ok:
                        return
                    raise FileNotFoundError(2, "No such file or directory", key)
                if fake.open_count.get(key, 0):
                    raise OSError("h5fake: unlink of an open file is not modelled")
                del fake.files[key]

        ctx.patch(bs, "Path", FakePath)


def _clone(node):
    from harness.h5fake import _DataNode, _GroupNode

    if isinstance(node, _GroupNode):
        g = _GroupNode()
        g.attrs = dict(node.attrs)
        g.children = {k: _clone(c) for k, c in node.children.items()}
        return g
    d = _DataNode(node.value.copy(), node.maxshape, node.vlen, node.sym)
    d.attrs = dict(node.attrs)
    return d


# ------------------------------------------------------------------------------------------------
# disciplines that die
# ------------------------------------------------------------------------------------------------
_MORTAL = None


def _mortal_class():
    global _MORTAL
    if _MORTAL is None:
        base = _discipline_class()

        class MortalDiscipline(base):
            """harness.disc discipline whose ``_run`` reports to the run monitor first (which may raise :class:`Crash`)."""

            monitor = None

            def _run(self, input_data):
                self.monitor.before_execution(self, input_data)
                return super()._run(input_data)

        _MORTAL = MortalDiscipline
    return _MORTAL


class Monitor:
    """Per-run bookkeeping of the harness: execution log, database snapshots at the start of every execution, the crash."""

    def __init__(self, env, tag, crash_at=None, file=None, crash_copy=None):
        self.env, self.tag, self.crash_at, self.file, self.crash_copy = env, tag, crash_at, file, crash_copy
        self.execs = []       # (discipline name, {input: [scalars]})
        self.snaps = []       # database content at the start of execution e
        self.open_at_start = []
        self.database = None
        self.crashed = False

    def before_execution(self, disc, input_data):
        e = len(self.execs)
        self.execs.append((disc.name, {n: to_list(input_data[n]) for n in disc.sym.inputs}))
        self.snaps.append(snapshot(self.database))
        self.open_at_start.append(self.env.open_files())
        if self.crash_at is not None and e == self.crash_at:
            self.crashed = True
            # what survives the death is the file as it is NOW (nothing that gemseo does while the exception unwinds counts)
            self.env.copy(self.file, self.crash_copy)
            raise Crash(f"{self.tag}: process death in execution {e} ({disc.name})")


def snapshot(database):
    """[(key scalars, {output name: scalars})] in insertion order (python lists: immune to later in-place changes)."""
    return [(elems(k.wrapped_array), {n: elems(val) for n, val in v.items()}) for k, v in database.items()]


# ------------------------------------------------------------------------------------------------
# the oracle side: discipline symbols, physical points, reference model of the history
# ------------------------------------------------------------------------------------------------
class Oracle:
    """Independent statement of "the value of function ``name`` at the physical point ``x``" (uninterpreted discipline symbols;
    the chain rule is written out for the two-discipline chain) and of the recorded history (lock-step reference model)."""

    def __init__(self, ctx, cfg):
        self.ctx, self.cfg = ctx, cfg
        n, gs = cfg["n"], cfg.get("gsize", 1)
        if cfg["discs"] == 1:
            self.d = make_symbols(ctx, "D", {"x": n}, {"f": 1, "g": gs})
        else:
            self.d1 = make_symbols(ctx, "D1", {"x": n}, {"y": 1})
            self.d2 = make_symbols(ctx, "D2", {"x": n, "y": 1}, {"f": 1, "g": gs})
        self.names = ["f"] + (["g"] if cfg.get("constraint", True) else [])

    def value(self, name, x):
        n, gs = self.cfg["n"], self.cfg.get("gsize", 1)
        if self.cfg["discs"] == 1:
            vals = {"x": list(x)}
            if name == "@f":
                return [self.d.partial("f", 0, "x", j, vals) for j in range(n)]
            return [self.d.value(name, k, vals) for k in range(1 if name == "f" else gs)]
        y = self.d1.value("y", 0, {"x": list(x)})
        vals = {"x": list(x), "y": [y]}
        if name == "@f":
            return [self.d2.partial("f", 0, "x", j, vals) + self.d2.partial("f", 0, "y", 0, vals) * self.d1.partial("y", 0, "x", j, {"x": list(x)})
                    for j in range(n)]
        return [self.d2.value(name, k, vals) for k in range(1 if name == "f" else gs)]

    def same(self, a, b):
        """Whether two points are equal: already decided on the path by the database look-ups (forks otherwise, which is sound)."""
        return len(a) == len(b) and _decided(self.ctx, self.ctx.and_(*[self.ctx.eq(u, v) for u, v in zip(a, b)]))

    def find(self, entries, x):
        for i, (k, _) in enumerate(entries):
            if self.same(k, x):
                return i
        return None

    def model(self, initial, batches, max_iter, counter0):
        """Reference model of the database after the requests ``batches`` = [[(name, physical point), ...], ...] issued in order
        (the requests of one batch are issued at one point in an order the property does not fix: the outcome does not depend on it).
        A request for a recorded value is served; a request at a new point when ``max_iter`` new points were created stops the run."""
        entries = [(list(k), dict(v)) for k, v in initial]
        counter = counter0
        for batch in batches:
            for name, x in batch:
                i = self.find(entries, x)
                if i is None:
                    if max_iter and counter >= max_iter:
                        return entries
                    entries.append((list(x), {}))
                    counter += 1
                    i = len(entries) - 1
                if name not in entries[i][1]:
                    entries[i][1][name] = self.value(name, entries[i][0])
        return entries


def check_same(ctx, label, got, exp):
    """Two database contents are equal: same points in the same order, same output names, same values."""
    ok = len(got) == len(exp) and all(len(a[0]) == len(b[0]) and sorted(a[1]) == sorted(b[1]) and all(len(a[1][m]) == len(b[1][m]) for m in a[1])
                                      for a, b in zip(got, exp))
    ctx.check(f"{label}: same points, same output names {[sorted(v) for _, v in got]} vs {[sorted(v) for _, v in exp]}", ctx.true() if ok else ctx.false())
    if not ok:
        return False
    for i, (a, b) in enumerate(zip(got, exp)):
        for j, (u, v) in enumerate(zip(a[0], b[0])):
            ctx.check(f"{label}: point {i}[{j}]", ctx.eq(u, v))
        for m in sorted(a[1]):
            for j, (u, v) in enumerate(zip(a[1][m], b[1][m])):
                ctx.check(f"{label}: {m}[{j}] at point {i}", ctx.eq(u, v))
    return True


def check_between(ctx, label, got, lower, upper):
    """``lower`` <= ``got`` <= ``upper`` as database contents: the points of ``upper`` in order; at each point at least the outputs of
    ``lower`` and at most those of ``upper``, with the values of ``upper``."""
    ok = len(got) == len(upper) and len(lower) <= len(upper)
    if ok:
        for i, (g, u) in enumerate(zip(got, upper)):
            lo = lower[i][1] if i < len(lower) else {}
            ok = ok and len(g[0]) == len(u[0]) and set(lo) <= set(g[1]) <= set(u[1]) and all(len(g[1][m]) == len(u[1][m]) for m in g[1])
            if i == len(upper) - 1 and not g[1]:
                ok = False  # (an entry is created by its first value)
    ctx.check(f"{label}: the points completed before the crash, in order, each with the outputs completed before the crash "
              f"{[sorted(v) for _, v in got]} within {[sorted(v) for _, v in lower]} .. {[sorted(v) for _, v in upper]}", ctx.true() if ok else ctx.false())
    if not ok:
        return False
    for i, (g, u) in enumerate(zip(got, upper)):
        for j, (a, b) in enumerate(zip(g[0], u[0])):
            ctx.check(f"{label}: point {i}[{j}]", ctx.eq(a, b))
        for m in sorted(g[1]):
            for j, (a, b) in enumerate(zip(g[1][m], u[1][m])):
                ctx.check(f"{label}: {m}[{j}] at point {i}", ctx.eq(a, b))
    return True


# ------------------------------------------------------------------------------------------------
# scenarios and stub libraries
# ------------------------------------------------------------------------------------------------
class _Factory:
    """Stands for ``scenario._algo_factory``: returns the harness library whatever the (validated) algorithm name is."""

    def __init__(self, lib):
        self.lib = lib

    def execute(self, problem, algo_name=None, settings_model=None, **settings):
        return self.lib.execute(problem, **settings)


def _phys(cfg, p):
    return [LB + v * WIDTH for v in p] if cfg["normalized"] else list(p)


def _require(ctx, formula):
    """``ctx.assume`` through the branching machinery: the excluded side is explored and aborted at once.  Same semantics; unlike
    ``Explorer.assume`` a solver ``unknown`` (machine load) is retried on a fresh solver instead of ending the path as unsupported."""
    if not ctx.symbolic:
        ctx.assume(formula)
        return
    from symgem.core import PathAbort, SymBool

    if not bool(SymBool(formula)):
        raise PathAbort


def _opt_library(ctx, cfg, prog, reqlog):
    """Deterministic stub optimizer.  ``prog`` = one string per new point over f (objective) g (constraint) j (objective Jacobian): the
    functions requested there, in that order.  Point r is either the fixed symbolic vector ``p{r}_*`` (``points="fixed"``) or an
    uninterpreted function of the last value the algorithm received (``points="uf"``): in both cases the sequence of requests is a
    fixed function of the values it was given."""
    n, normalized = cfg["n"], cfg["normalized"]
    lo, hi = (0.0, 1.0) if normalized else (LB, UB)

    def request(pb, kind, p):
        reqlog.append(({"f": "f", "g": "g", "j": "@f"}[kind], _phys(cfg, elems(p))))
        if kind == "f":
            return elems(pb.objective.evaluate(p))[0]
        if kind == "g":
            return elems(pb.constraints[0].evaluate(p))[0]
        return elems(pb.objective.jac(p))[0]

    def run(lib, pb):
        x0 = pb.design_space.get_current_value(normalize=normalized)
        last = request(pb, "f", ctx.array(elems(x0)))   # (recorded by the real _pre_run: served from the database)
        for r, step in enumerate(prog, 1):
            if cfg.get("points", "fixed") == "uf":
                p = [ctx.uf(f"next{r}_{j}", 1)(last) for j in range(n)]
            else:
                p = [ctx.real(f"{cfg.get('point_prefix', 'p')}{r}_{j}") for j in range(n)]
            for v in p:
                _require(ctx, ctx.and_(ctx.le(lo, v), ctx.le(v, hi)))
            if cfg.get("distinct"):
                for q in [[(X0 - LB) / WIDTH if normalized else X0] * n] + run.points:
                    _require(ctx, ctx.not_(ctx.and_(*[ctx.eq(a, b) for a, b in zip(p, q)])))
            run.points.append(p)
            for kind in step:
                last = request(pb, kind, ctx.array(p))

    run.points = []
    return _stub_opt_library(run)


def _doe_library(ctx, cfg, n_samples, reqlog, names):
    n = cfg["n"]

    def sampler(design_space):
        rows = []
        for s in range(n_samples):
            r = [ctx.real(f"{cfg.get('point_prefix', 'u')}{s}_{j}") for j in range(n)]
            for v in r:
                _require(ctx, ctx.and_(ctx.le(0.0, v), ctx.le(v, 1.0)))
            if cfg.get("distinct"):
                for q in rows:
                    _require(ctx, ctx.not_(ctx.and_(*[ctx.eq(a, b) for a, b in zip(r, q)])))
            rows.append(r)
            reqlog.append([(nm, [LB + v * WIDTH for v in r]) for nm in names])  # a DOE evaluates every function at every sample
        return ctx.array(rows)

    return _stub_doe_library(sampler)


class Run:
    """One scenario run of the harness, from construction to the end (or the death) of ``execute``."""

    def __init__(self, ctx, cfg, env, oracle, tag, file, load=False, erase=False, crash_at=None, size=None, max_iter=None, reset=None):
        from gemseo.algos.design_space import DesignSpace
        from gemseo.core.discipline import Discipline
        from gemseo.scenarios.doe_scenario import DOEScenario
        from gemseo.scenarios.mdo_scenario import MDOScenario

        self.ctx, self.cfg, self.tag = ctx, cfg, tag
        n, gs, kind = cfg["n"], cfg.get("gsize", 1), cfg["kind"]
        self.reqlog = []
        self.mon = mon = Monitor(env, tag, crash_at, file, env.path(f"{tag}.crash.h5"))
        size = cfg["size"] if size is None else size
        if kind == "mdo":
            lib = _opt_library(ctx, cfg, cfg["prog"][:size], self.reqlog)
        else:
            lib = _doe_library(ctx, cfg, size, self.reqlog, oracle.names)
        cls = _mortal_class()
        ds = DesignSpace()
        ds.add_variable("x", size=n, lower_bound=LB, upper_bound=UB, value=X0)
        if cfg["discs"] == 1:
            discs = [cls(ctx, "D", {"x": n}, {"f": 1, "g": gs})]
        else:
            discs = [cls(ctx, "D1", {"x": n}, {"y": 1}), cls(ctx, "D2", {"x": n, "y": 1}, {"f": 1, "g": gs})]
        for d in discs:
            d.monitor = mon
            if cfg.get("cache") == "simple":
                d.set_cache(Discipline.CacheType.SIMPLE)
        sc = (MDOScenario if kind == "mdo" else DOEScenario)(discs, "f", ds, formulation_name="DisciplinaryOpt", name="SC")
        if cfg.get("constraint", True):
            sc.add_constraint("g", constraint_type="ineq")
        sc._algo_factory = _Factory(lib)
        problem = sc.formulation.optimization_problem
        mon.database = problem.database
        backup = cfg["backup"]
        sc.set_optimization_history_backup(file, at_each_iteration=backup in ("iteration", "both"), at_each_function_call=backup in ("call", "both"),
                                           load=load, erase=erase)
        self.loaded = snapshot(problem.database)
        self.counter_after_load = problem.evaluation_counter.current
        settings = dict(enable_progress_bar=False, log_problem=False)
        if kind == "mdo":
            # (stop_crit_n_x: the xtol/ftol testers - property C03 - look at the last n_x points; 10 keeps them silent, 3 is the default)
            settings.update(algo_name="SLSQP", max_iter=cfg["max_iter"] if max_iter is None else max_iter, normalize_design_space=cfg["normalized"],
                            stop_crit_n_x=cfg.get("n_x", 10))
        else:
            settings.update(algo_name="CustomDOE")
        if reset is not None:
            settings["reset_iteration_counters"] = reset
        self.propagated = False
        self.completed = False
        try:
            sc.execute(**settings)
            self.completed = True
        except Crash:
            self.propagated = True
        self.final = snapshot(problem.database)
        self.counter_final = problem.evaluation_counter.current
        self.tol = problem.tolerances.inequality
        res = sc.optimization_result if self.completed else None
        self.result = None
        if res is not None:
            self.result = dict(x_opt=None if res.x_opt is None else elems(res.x_opt), f_opt=None if res.f_opt is None else elems(res.f_opt)[0],
                               feasible=bool(res.is_feasible))
        self.open_after = env.open_files()
        # (the scenario, its problem, database, disciplines and library are local: dropped here)

    def batches(self, names):
        """The requests of the run, in order: every function at the initial point (the documented first step of an optimizer), then
        those of the algorithm / every function at every sample."""
        if self.cfg["kind"] == "doe":
            return list(self.reqlog)
        x0 = [X0] * self.cfg["n"]
        return [[(nm, x0) for nm in names]] + [[r] for r in self.reqlog]


# ------------------------------------------------------------------------------------------------
# the harness
# ------------------------------------------------------------------------------------------------
def h_crash_restart(ctx, cfg):
    env = Env(ctx)
    try:
        _crash_restart(ctx, cfg, env)
    finally:
        env.close()


def _no_open_file(ctx, run):
    bad = [e for e, c in enumerate(run.mon.open_at_start) if c]
    ctx.check(f"run {run.tag}: no HDF5 file is open while a discipline executes (executions with an open file: {bad})", ctx.true() if not bad else ctx.false())


def _crash_restart(ctx, cfg, env):
    oracle = Oracle(ctx, cfg)
    names = oracle.names
    mdo = cfg["kind"] == "mdo"
    exact = cfg["backup"] in ("call", "both")
    reset = cfg.get("reset", False if mdo else None)
    file0 = env.path("initial.h5")
    initial = []
    # ---- P: the file already contains the result of an earlier, shorter run ----------------------------------------------------
    if cfg.get("pre_crash") is not None:
        # the earlier data is what an earlier run of the SAME program left when it died in its (configured) execution pre_crash
        P = Run(ctx, cfg, env, oracle, "P", file0, crash_at=cfg["pre_crash"])
        ctx.check("run P dies and the death propagates", ctx.true() if P.mon.crashed and P.propagated else ctx.false())
        _no_open_file(ctx, P)
        file0 = P.mon.crash_copy
    elif cfg.get("pre"):
        P = Run(ctx, cfg, env, oracle, "P", file0, size=cfg["pre"], max_iter=cfg.get("pre_max_iter"))
        ctx.check("run P completes", ctx.true() if P.completed else ctx.false())
        _no_open_file(ctx, P)
        initial = oracle.model([], P.batches(names), cfg.get("pre_max_iter", cfg.get("max_iter")) if mdo else cfg["pre"], 0)
        check_same(ctx, "history of the earlier run P == reference model", P.final, initial)
    has_file = env.exists(file0)
    ctx.check("the earlier file exists", ctx.true() if has_file or not cfg.get("pre") else ctx.false())
    # ---- A: the uninterrupted run ------------------------------------------------------------------------------------------
    fileA = env.path("A.h5")
    env.copy(file0, fileA)
    A = Run(ctx, cfg, env, oracle, "A", fileA, load=has_file, reset=reset if has_file else None)
    ctx.check("run A completes", ctx.true() if A.completed else ctx.false())
    _no_open_file(ctx, A)
    if has_file:
        from gemseo.algos.database import Database

        if exact and cfg.get("pre"):
            check_same(ctx, "the earlier file as loaded by A == history of P", A.loaded, P.final)
        initial = A.loaded
    budget = cfg["max_iter"] if mdo else cfg["size"]
    H = oracle.model(initial, A.batches(names), budget, len(initial) if (has_file and reset is False) else 0)
    check_same(ctx, "history H of the uninterrupted run == reference model", A.final, H)
    nA = len(A.mon.execs)
    ctx.observe("n_exec_A", [float(nA)])
    ctx.observe("H", [v for k, o in A.final for v in k + [w for m in sorted(o) for w in o[m]]])
    # ---- B: dies in execution k ---------------------------------------------------------------------------------------------
    k = ctx.choice("crash", nA + 1)
    fileB = env.path("B.h5")
    env.copy(file0, fileB)
    B = Run(ctx, cfg, env, oracle, "B", fileB, load=has_file, reset=reset if has_file else None, crash_at=k if k < nA else None)
    _no_open_file(ctx, B)
    if k < nA:
        ctx.check(f"run B dies in execution {k} and the death propagates through gemseo untouched", ctx.true() if B.mon.crashed and B.propagated and not B.completed else ctx.false())
        survivor = B.mon.crash_copy
        upper = A.mon.snaps[k]
    else:
        ctx.check("run B (no crash) completes", ctx.true() if B.completed and not B.mon.crashed else ctx.false())
        survivor = fileB
        upper = A.final
    del B
    # ---- the file that survives ------------------------------------------------------------------------------------------------
    from gemseo.algos.database import Database

    pre = f"crash in execution {k} of {nA}: " if k < nA else f"no crash ({nA} executions): "
    F = None
    if not env.exists(survivor):
        ctx.check(pre + f"no backup file exists only if nothing was completed before the crash ({len(upper)} points were)", ctx.true() if not upper else ctx.false())
        F = []
    else:
        try:
            F = snapshot(Database.from_hdf(survivor, log=False))
        except Exception as e:  # noqa: BLE001
            ctx.check(pre + f"the backup file can be loaded ({type(e).__name__}: {e})", ctx.false())
    if F is None:
        return
    ctx.observe("F", [v for kk, o in F for v in kk + [w for m in sorted(o) for w in o[m]]])
    if exact:
        check_same(ctx, pre + "backup file == the evaluations completed before the crash, as the uninterrupted run records them", F, upper)
    else:
        # backup at each iteration: the file is at least what the database held when the last point was created (the entries
        # before it as they were at the start of the execution that created it, the last one with at least one output) and at
        # most what it held at the crash; both readings of "completed before the crash" are accepted
        j = k if k < nA else nA
        while j > 0 and len(A.mon.snaps[j - 1] if j - 1 < nA else A.final) >= len(upper):
            j -= 1
        before = A.mon.snaps[j - 1] if (j > 0 and upper) else []
        lower = []
        for i in range(len(upper)):
            o = {}
            if i < len(initial):     # what the file contained initially stays
                o.update(initial[i][1])
            if i < len(before):
                o.update(before[i][1])
            lower.append((upper[i][0], o))
        check_between(ctx, pre + "backup file", F, lower, upper)
    # the prefix relation with H (what the uninterrupted run records)
    okp = len(F) <= len(A.final) and all(set(F[i][1]) <= set(A.final[i][1]) for i in range(len(F)))
    ctx.check(pre + "backup file is a prefix of the history H", ctx.true() if okp else ctx.false())
    # ---- C: restart from the survivor ------------------------------------------------------------------------------------------
    fileC = env.path("C.h5")
    env.copy(survivor, fileC)
    C = Run(ctx, cfg, env, oracle, "C", fileC, load=True, reset=reset)
    ctx.check(pre + "the restarted run completes", ctx.true() if C.completed else ctx.false())
    if not C.completed:
        return
    _no_open_file(ctx, C)
    check_same(ctx, pre + "database after set_optimization_history_backup(load=True) == backup file", C.loaded, F)
    if F:
        ctx.check(pre + f"evaluation counter after the load {C.counter_after_load} == number of loaded entries {len(F)}",
                  ctx.true() if C.counter_after_load == len(F) else ctx.false())
    # (a) keeps the loaded entries, in the same positions
    ok = len(C.final) >= len(F) and all(set(F[i][1]) <= set(C.final[i][1]) for i in range(len(F)))
    ctx.check(pre + "restart keeps the loaded entries in the same positions", ctx.true() if ok else ctx.false())
    if ok:
        for i, (kk, o) in enumerate(F):
            for j, (a, b) in enumerate(zip(kk, C.final[i][0])):
                ctx.check(pre + f"restart: loaded point {i}[{j}] kept", ctx.eq(a, b))
            for m in sorted(o):
                for j, (a, b) in enumerate(zip(o[m], C.final[i][1][m])):
                    ctx.check(pre + f"restart: loaded {m}[{j}] at point {i} kept", ctx.eq(a, b))
    # (b) no execution at a point stored in the backup (with every output the run requests there); no rework elsewhere either
    requests = [r for b in C.batches(names) for r in b]
    per_disc = {}
    for dname, data in C.mon.execs:
        per_disc.setdefault(dname, []).append(data["x"])
    for dname, pts in per_disc.items():
        groups = []
        for x in pts:
            for g in groups:
                if oracle.same(g[0], x):
                    g[1] += 1
                    break
            else:
                groups.append([x, 1])
        for x, count in groups:
            i = oracle.find(F, x)
            have = set(F[i][1]) if i is not None else set()
            wanted = {nm for nm, q in requests if oracle.same(q, x)}
            missing = wanted - have
            ctx.check(pre + f"restart: {dname} executed {count}x at a point of the backup holding {sorted(have)} of the requested {sorted(wanted)}: "
                      "not re-executed at a stored point", ctx.true() if missing else ctx.false())
            if i is not None:   # (elsewhere "once per value" is the memoization clause of C01, not this property)
                ctx.check(pre + f"restart: {dname} executed {count}x at a point of the backup where {sorted(missing)} were missing: at most once per missing value",
                          ctx.true() if count <= len(missing) else ctx.false())
    # (c) the reported optimum is at least as good as the best loaded entry (feasibility first, then the objective)
    if C.result is not None and cfg.get("check_optimum", True):
        for i, (kk, o) in enumerate(F):
            if "f" not in o or any(nm not in o for nm in names):
                continue
            feas_i = ctx.and_(*[ctx.le(v, C.tol) for v in o["g"]]) if "g" in names else ctx.true()
            if C.result["f_opt"] is None:
                # (no objective value reported: legitimate when no recorded point is both feasible and valued, e.g. the only feasible
                # point lacks the objective; it is a violation only if this complete loaded entry is feasible)
                ctx.check(pre + f"restart reports no optimum although the complete loaded entry {i} is feasible", ctx.not_(feas_i))
                continue
            good = ctx.and_(ctx.true() if C.result["feasible"] else ctx.false(), ctx.le(C.result["f_opt"], o["f"][0]))
            ctx.check(pre + f"reported optimum at least as good as loaded entry {i}", ctx.implies(feas_i, good))
    # (d) stored values are replayed exactly: same history as the uninterrupted run
    if cfg.get("same_history", True):
        check_same(ctx, pre + "history of the restarted run == history H of the uninterrupted run", C.final, A.final)
    ctx.observe("C", [v for kk, o in C.final for v in kk + [w for m in sorted(o) for w in o[m]]])


def h_options(ctx, cfg):
    """``erase=True``, ``load=True`` on an absent file, ``erase and load`` on an existing file (the documented ValueError)."""
    env = Env(ctx)
    try:
        from gemseo.algos.database import Database

        oracle = Oracle(ctx, cfg)
        names = oracle.names
        mdo = cfg["kind"] == "mdo"
        exact = cfg["backup"] in ("call", "both")
        file = env.path("backup.h5")
        case = ("erase+load/existing", "erase/existing", "load/absent", "erase/absent")[ctx.choice("case", 4)]
        old = []
        if case.endswith("existing"):
            P = Run(ctx, dict(cfg, point_prefix="q"), env, oracle, "P", file, size=cfg["pre"])   # (an unrelated earlier run: other points)
            ctx.check("run P completes and leaves a file", ctx.true() if P.completed and env.exists(file) else ctx.false())
            old = P.final
        else:
            ctx.check("no file initially", ctx.true() if not env.exists(file) else ctx.false())
        if case == "erase+load/existing":
            try:
                Run(ctx, cfg, env, oracle, "E", file, load=True, erase=True)
                ctx.check(case + ": ValueError (conflicting options)", ctx.false())
            except ValueError:
                ctx.check(case + ": ValueError (conflicting options)", ctx.true())
            if exact:
                check_same(ctx, case + ": the existing file is left as it was", snapshot(Database.from_hdf(file, log=False)), old)
            return
        E = Run(ctx, cfg, env, oracle, "E", file, load=case.startswith("load"), erase=case.startswith("erase"))
        ctx.check(case + ": the run completes", ctx.true() if E.completed else ctx.false())
        _no_open_file(ctx, E)
        ctx.check(case + f": nothing is loaded ({len(E.loaded)} entries, counter {E.counter_after_load})",
                  ctx.true() if not E.loaded and E.counter_after_load == 0 else ctx.false())
        H = oracle.model([], E.batches(names), cfg["max_iter"] if mdo else cfg["size"], 0)
        check_same(ctx, case + ": history == reference model of a run from scratch", E.final, H)
        ctx.check(case + ": a backup file exists after the run", ctx.true() if env.exists(file) else ctx.false())
        if env.exists(file):
            F = snapshot(Database.from_hdf(file, log=False))
            ctx.observe("F", [v for kk, o in F for v in kk + [w for m in sorted(o) for w in o[m]]])
            if exact:
                check_same(ctx, case + ": backup file == history of this run only (no earlier data)", F, E.final)
            else:
                ctx.check(case + f": backup file holds the {len(E.final)} points of this run only (no earlier data): {len(F)}", ctx.true() if len(F) == len(E.final) else ctx.false())
    finally:
        env.close()


def configs(tier):
    quick = tier == "quick"
    out = []

    def add(harness="crash_restart", **kw):
        cfg = dict(n=1, discs=1, kind="mdo", normalized=False, backup="call", prog=["fg"], max_iter=10, distinct=True)
        cfg.update(kw)
        if cfg["kind"] == "doe":
            for key in ("prog", "max_iter", "normalized"):
                cfg.pop(key)
        else:
            cfg.setdefault("size", len(cfg["prog"]))
        if cfg.get("normalized"):
            cfg["same_history"] = False   # (the property states the last clause for a design space that is not normalized)
        out.append((harness, cfg))

    # --- MDOScenario, one discipline --------------------------------------------------------------------------------------------
    for backup in ("call", "iteration"):
        add(backup=backup)
        add(backup=backup, normalized=True)
        add(backup=backup, prog=["f", "g"], distinct=False)                               # points free to coincide (with x0, with each other)
        add(backup=backup, prog=["f", "f"], constraint=False, points="uf")               # next point = uninterpreted function of the last value
        add(backup=backup, prog=["fg", "f", "f"], max_iter=2)                             # the budget stops the run
        add(backup=backup, prog=["f", "f"], constraint=False, pre=1)                      # file with earlier data
    add(backup="both", prog=["gf"], gsize=2)                                               # vector-valued constraint (array datasets)
    add(backup="iteration", prog=["gf"], gsize=2, constraint=True, check_optimum=False)
    add(backup="call", prog=["fj"], n=2, constraint=False)                                 # Jacobian requests, two design variables
    add(backup="iteration", prog=["jf"], constraint=False)
    add(backup="iteration", prog=["f", "f", "f"], constraint=False, pre=1, max_iter=3)   # earlier data + budget: the counter continues
    add(backup="call", prog=["fg"], cache="simple")                                        # disciplines with their default cache
    add(backup="call", prog=["f", "f"], constraint=False, n_x=3)                           # default xtol/ftol testers active (may stop the run early)
    add(backup="iteration", prog=["fg", "g"], pre=1, check_optimum=False)
    add(backup="call", prog=["fg", "f"], pre_crash=2)                                      # nested crash: the earlier file was left by a run that died
    # --- MDOScenario, chain of two disciplines -----------------------------------------------------------------------------------
    add(backup="call", discs=2, prog=["f"])
    add(backup="iteration", discs=2, prog=["f"], normalized=True)
    add(backup="call", discs=2, prog=["j"], constraint=False)
    # --- DOEScenario -----------------------------------------------------------------------------------------------------------
    for backup in ("call", "iteration"):
        add(kind="doe", backup=backup, size=2)
        add(kind="doe", backup=backup, size=2, distinct=False, constraint=False)
        add(kind="doe", backup=backup, size=3, constraint=False, pre=1)
    add(kind="doe", backup="both", size=2, gsize=2, check_optimum=False)
    add(kind="doe", backup="call", size=2, discs=2, constraint=False)
    add(kind="doe", backup="iteration", size=2, reset=False)
    add(kind="doe", backup="call", size=2, cache="simple")
    # --- options ---------------------------------------------------------------------------------------------------------------
    add("options", backup="call", prog=["f", "g"], pre=1)
    add("options", backup="iteration", prog=["fg"], pre=1, normalized=True)
    add("options", kind="doe", backup="call", size=2, pre=1)
    if quick:
        return out
    # --- thorough: longer runs (<= 6 discipline executions), two design variables, every backup mode -----------------------------------
    for backup in ("call", "iteration", "both"):
        add(backup=backup, prog=["fg", "fg"])
        add(backup=backup, prog=["fg", "gf"], normalized=True)
        add(backup=backup, prog=["f", "f", "f"], constraint=False, distinct=False)
        add(backup=backup, prog=["f", "f", "f"], constraint=False, points="uf")
        add(backup=backup, prog=["fg", "f"], n=2)
        add(backup=backup, prog=["fj", "j"], n=2, constraint=False)
        add(backup=backup, prog=["gf", "fg"], gsize=2, check_optimum=False)
        add(backup=backup, prog=["fg", "fg", "f"], max_iter=3)
        add(backup=backup, prog=["fg", "f", "f"], pre=1)
        add(backup=backup, prog=["fg", "f", "f"], pre=2, max_iter=3)
        add(backup=backup, prog=["f", "g", "f"], pre=2, pre_max_iter=2, max_iter=4)
        add(backup=backup, prog=["fg", "f"], cache="simple")
        add(backup=backup, discs=2, prog=["fg"])
        add(backup=backup, discs=2, prog=["f", "j"], constraint=False)
        add(backup=backup, discs=2, prog=["f", "f"], constraint=False, pre=1, cache="simple")
        add(kind="doe", backup=backup, size=3)
        add(kind="doe", backup=backup, size=3, constraint=False, distinct=False)
        add(kind="doe", backup=backup, size=4, constraint=False)
        add(kind="doe", backup=backup, size=2, n=2, gsize=2, check_optimum=False)
        add(kind="doe", backup=backup, size=4, constraint=False, pre=2)
        add(kind="doe", backup=backup, size=3, pre=1, reset=False)
        add(kind="doe", backup=backup, size=3, discs=2, constraint=False)
        add("options", backup=backup, prog=["fg", "f"], pre=2)
        add("options", kind="doe", backup=backup, size=3, pre=2, constraint=False)
        for k1 in (1, 2, 3):   # nested crash: the earlier file was left by a run that died in execution k1
            add(backup=backup, prog=["fg", "f"], pre_crash=k1)
        add(kind="doe", backup=backup, size=3, constraint=False, pre_crash=2)
    return out


HARNESSES = {"crash_restart": h_crash_restart, "options": h_options}
META = dict(
    bounds=dict(
        quick="MDOScenario and DOEScenario with the DisciplinaryOpt formulation on one discipline or a chain of two (uninterpreted outputs, caches off "
              "or the default SimpleCache); 1-2 design variables with concrete bounds [-1, 3], initial point 1; backup at each function call / at "
              "each iteration / both; file initially absent, or holding the history of an earlier shorter complete run, or left by an earlier run "
              "that itself died (nested crash, configured execution); a stub optimizer issuing "
              "<= 3 new points (objective / constraint / objective-Jacobian requests in a configured order) or a stub DOE of <= 3 samples, i.e. <= 4-6 "
              "discipline executions per run; max_iter binding or not; the crash point k ranges over EVERY discipline execution of the run plus 'no "
              "crash' (ctx.choice); design points (or the function giving the next point from the last value) and all function values / Jacobian "
              "entries are symbolic.  Each path is CONCRETE in the order of events (which execution dies, which points coincide, how the recorded "
              "values compare at the end): the solver enumerates these exhaustively within the bound and constructs the counterexamples; it "
              "reasons symbolically over the points and the values (congruence: 'the right value under the right point and name').",
        thorough="same with <= 3 new points carrying two requests each / <= 4 samples (<= 6-8 discipline executions per run), two design variables, "
                 "vector-valued constraint, earlier files of 2-3 entries, all three backup modes for every family",
    ),
    outside=[
        "REAL process death (os._exit, signals, power loss), libhdf5 buffering / flushing / journaling and the durability of a file on a real file system: "
        "the death is a Python BaseException raised inside Discipline._run and the surviving file is a copy taken at that instant",
        "what libhdf5 leaves on disk when the process dies WHILE a file is open (the obligation 'no HDF5 file is open while a discipline executes' is "
        "checked instead: gemseo closes the file after every export, so the last closed content is what survives)",
        "h5py / libhdf5 themselves (dtype conversion, chunking, resize, string encoding): replaced by harness.h5fake in symbolic mode; they run for real "
        "in the concrete replays and in the differential self-test only",
        "the optimisation algorithms and DOE samplers (compiled): replaced by deterministic stub libraries; their determinism is an assumption",
        "float64 rounding (the reason why the property restricts the last clause to a design space that is not normalized): reals are exact here, so "
        "'same history' is asserted in the not-normalized configurations only and the normalized ones assert the other clauses",
        "formulations other than DisciplinaryOpt, MDA-based processes, parallel DOEs (n_processes > 1), observables, multi-objective problems, "
        "equality constraints, integer variables",
        "a crash during the LAST export itself, crashes outside a discipline execution (inside the driver, inside a listener)",
        "restarting WITHOUT load=True (or erase=True) on a file that already holds data: the statement is silent; not asserted",
        "erase=True together with load=True when the file does not exist (docstring: ValueError; code: no error): ambiguous, not asserted",
        "the least-infeasible rule when no loaded entry is feasible (C04), entries of the backup that lack the objective or a constraint value "
        "(their quality is undefined: not compared with the reported optimum)",
        "collisions of the real xxh3 byte hash and its consistency with array equality (-0.0)",
        "the plot option of set_optimization_history_backup, the GGOBI format, hdf_node_path",
    ],
    stubs=[
        "h5py -> harness.h5fake.FakeH5 in every gemseo module importing it (symbolic mode only).  Contract: what was written under (file, node, dataset) "
        "is what is read back, with h5py's error behaviour; a file that has been CLOSED is durable and a crash while no file is open leaves the last "
        "closed content.  In concrete mode the real h5py writes real files in a temporary directory (self-test = validation of the fake on the explored paths)",
        "gemseo.scenarios.base_scenario.Path -> pathlib.Path subclass whose exists()/unlink() look at the fake file system (symbolic mode only)",
        "process death -> harness BaseException `Crash` raised in Discipline._run at the k-th execution of the run; at that instant the harness copies "
        "the backup file (nothing gemseo does during unwinding is counted) and afterwards drops every Python object of the run",
        "scenario._algo_factory -> returns the harness library (stub optimizer: harness.C03._stub_opt_library with a deterministic _run issuing the configured "
        "requests after the real _pre_run; stub DOE: harness.C03._stub_doe_library with a symbolic unit sampler); the algorithm name passed to execute "
        "(SLSQP / CustomDOE) is only validated",
        "hashable_ndarray.xxh3_64_hexdigest -> collision-free hash decided by forking on equality with the arrays hashed earlier (the all-colliding stub of "
        "the other harnesses would be unsound here: HDFDatabase.add_pending_array keys its buffer by the hash alone); symbolic mode only",
        "hashable_ndarray.np_array keeps SymArray (value-preserving copy); _hdf_database.array -> harness.h5fake.sym_array_stub (dtype=float64 on symbolic "
        "data is the identity); discipline_adapter.empty, base_formulation.zeros, discipline.csr_array -> object arrays of exact zeros; "
        "stop_criteria.average/allclose -> element-wise symbolic versions",
        "harness disciplines (harness.disc): SimpleGrammar, uninterpreted outputs and partial derivatives, cache NONE unless cfg['cache'] == 'simple'",
    ],
    assumptions=[
        "the restart protocol: a fresh scenario built like the crashed one, set_optimization_history_backup(file, load=True) with the same backup mode, executed "
        "with the same settings and, for MDOScenario, reset_iteration_counters=False (the documented way to complete a run from a backup without "
        "exceeding max_iter; with the default True the counter restored at load time is overwritten by the driver)",
        "deterministic algorithm: the sequence of requests is a fixed function of the values received (fixed symbolic points, or next point = "
        "uninterpreted function of the last value); requested points lie inside the bounds ([0,1] when normalized); with distinct=True the new "
        "points are pairwise different and differ from the initial point",
        "an optimizer first evaluates every function at the initial point (BaseOptimizationLibrary._pre_run), a DOE evaluates every function at every "
        "sample: this is how the harness knows which outputs a run requests at a point",
        "readings accepted for 'the evaluations completed before the crash': (call) backup at each function call: exactly the content of the "
        "uninterrupted run's database at the start of the k-th discipline execution; (iteration) backup at each iteration: any content between "
        "(lower) what the database held when its last point was created - earlier entries as they were at the start of the execution that created "
        "that point, the last point with at least one output - and (upper) the database at the start of the k-th execution; in both cases the points "
        "are the first points of the uninterrupted history in order, with its values",
        "crash in the very first execution with no earlier file: no backup file exists yet; 'loadable' is then read as 'absent, and a restart with "
        "load=True starts from scratch'",
        "'at least as good': if a loaded entry holding the objective and every constraint is feasible (g <= the problem's inequality tolerance) then "
        "the reported optimum is feasible and its objective is <= that entry's",
    ],
)
