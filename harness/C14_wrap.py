"""C14 (extension) - the per-library wrapper glue of the DOE factory, the sample-count arithmetic and the seed handling.

The third-party samplers (openturns, scipy.stats.qmc, pyDOE3: compiled / RNG code) are the ENVIRONMENT.  In symbolic mode each one
is replaced by a CONTRACT STUB that records how gemseo called it and returns an arbitrary symbolic matrix satisfying only the
sampler's documented contract (shape, range; for the structured OpenTURNS designs and the two full-factorial grids the documented
structure, written out here).  In concrete mode (counterexample replays, differential self-test) the same recorder is a PASS-THROUGH
around the REAL sampler: it records the arguments, calls the real class / function, checks the stub's contract on what the real
thing returned (obligations labelled "environment contract: ...") and hands the real matrix to gemseo.  Everything between the public
entry point (``compute_doe`` / ``generate_samples``) and the third-party call is gemseo's own code running on symbols.

Oracles are independent statements: the documented re-centering formula of the stratified designs (from the docstring example
``[0.2, 0.8] with [0.5] as center -> [0.1, 0.4, 0.5, 0.6, 0.9]``), the documented counts of OpenTURNS (``1 + 2 n L``, ``1 + L 2^n``,
``1 + L (2n + 2^n)``, ``prod(levels + 2)``), a lock-step reference model of ``Seeder`` (a counter), explicit per-algorithm tables of the
options / classes that must be used, and the affine design-space image written out per component.
"""
from __future__ import annotations

import itertools
from fractions import Fraction

import numpy as np

from harness.common import _plain, _py, build_space, check_shape, elems

WL = {
    "B": [("x", "float", "B")],
    "BB": [("x", "float", "BB")],
    "B,B": [("x", "float", "B"), ("yy", "float", "B")],
    "BBB": [("x", "float", "BBB")],
    "Ci": [("x", "float", "C"), ("k", "integer", [(0, 5)])],
    "iC": [("k", "integer", [(-3, 4)]), ("x", "float", "C")],
    "i": [("k", "integer", [(0, 5)])],
}
TOL = 1e-12


# ------------------------------------------------------------------------------------------------
# small helpers
# ------------------------------------------------------------------------------------------------
def _rows(a):
    a = _plain(a) if isinstance(a, np.ndarray) else np.asarray(a, dtype=object)
    if a.ndim == 1:
        return [[_py(v)] for v in a]
    return [[_py(v) for v in r] for r in a]


def _is_num(v):
    if isinstance(v, (int, float, np.integer, np.floating, Fraction)):
        return True
    t = getattr(v, "t", None)   # a symbolic real that is a constant (e.g. 1/2 + 0 * x simplified) counts as a number
    if t is not None:
        from symgem.core import _is_const

        return _is_const(t)
    return False


def _close(ctx, a, b):
    """Equality formula; two concrete numbers are compared with an absolute tolerance (they come from float64 computations such as
    linspace or i / (l - 1) whose last bit is not the subject)."""
    if _is_num(a) and _is_num(b):
        return ctx.true() if abs(float(a) - float(b)) <= 1e-9 else ctx.false()
    return ctx.eq(a, b)


def _in01(ctx, v):
    if _is_num(v):
        return ctx.true() if -TOL <= float(v) <= 1.0 + TOL else ctx.false()
    return ctx.and_(ctx.le(0.0, v), ctx.le(v, 1.0))


def _truth(ctx, b):
    return ctx.true() if b else ctx.false()


def _unit_matrix(ctx, name, n, d, lo=0.0, hi=1.0):
    """n x d fresh symbolic reals assumed in [lo, hi] (the sampler's documented range)."""
    rows = []
    for i in range(n):
        r = [ctx.real(f"{name}{i}_{j}") for j in range(d)]
        for v in r:
            ctx.assume(ctx.and_(ctx.le(lo, v), ctx.le(v, hi)))
        rows.append(r)
    return rows


def _contract_real(ctx, what, R, n, d, lo=0.0, hi=1.0):
    """Concrete mode: the real sampler honours the contract of the stub (validated on every replay / self-test run)."""
    R = np.asarray(R, dtype=float)
    ctx.check(f"environment contract: {what} returns a ({n}, {d}) matrix", _truth(ctx, R.shape == (n, d)))
    ctx.check(f"environment contract: {what} returns entries in [{lo}, {hi}]", _truth(ctx, R.size == 0 or (R.min() >= lo - TOL and R.max() <= hi + TOL)))
    return R


def _check_physical(ctx, info, samples, unit_rows, label="sample"):
    """The physical samples are the design-space image of ``unit_rows`` (component-wise, design-space order), inside the bounds,
    integer components integral (nearest integer; the rule at ties is not part of the property)."""
    S, d = len(unit_rows), info.n
    if not check_shape(ctx, f"{label}s", samples, (S, d)):
        return
    sm = _rows(samples)
    for s in range(S):
        for j in range(d):
            v = sm[s][j]
            img = info.lb[j] + unit_rows[s][j] * (info.ub[j] - info.lb[j])
            ctx.check(f"{label}[{s},{j}] >= lower bound", ctx.le(info.lb[j], v))
            ctx.check(f"{label}[{s},{j}] <= upper bound", ctx.le(v, info.ub[j]))
            if info.is_int[j]:
                ctx.check(f"{label}[{s},{j}] is an integer", ctx.is_int(v))
                ctx.check(f"{label}[{s},{j}] is the rounded design-space image of the unit sample", ctx.and_(ctx.le(v - img, 0.5), ctx.le(img - v, 0.5)))
            else:
                ctx.check(f"{label}[{s},{j}] is the design-space image of the unit sample", _close(ctx, v, img))


def _check_same_matrix(ctx, label, got, rows):
    """``got`` is exactly the matrix the sampler returned (no reordering, clipping or rescaling)."""
    if not check_shape(ctx, label, got, (len(rows), len(rows[0]) if rows else 0)):
        return
    g = _rows(got)
    for i, r in enumerate(rows):
        for j, v in enumerate(r):
            ctx.check(f"{label}[{i},{j}] is what the sampler returned", _close(ctx, g[i][j], v))


def _as_symarray_patch(ctx, module, names=("array",)):
    """float64 constructors of the module under test -> exact object storage (symbolic mode only, value-preserving)."""
    if not ctx.symbolic:
        return
    from symgem.core import as_symarray

    for nm in names:
        ctx.patch(module, nm, lambda x, *a, **k: as_symarray(x))


# ------------------------------------------------------------------------------------------------
# Seeder: lock-step reference model
# ------------------------------------------------------------------------------------------------
SEEDS = (None, 7, 11)


class SeedModel:
    """Documented behaviour of ``Seeder``: an explicit seed is used unchanged; without one the seed is the initial default seed plus
    the number of calls.  Whether the calls WITH an explicit seed count is read both ways (the docstring says 'on the i-th call to
    this method', the property anchor says 'incremented per call unless a seed is given'): both values are accepted."""

    def __init__(self, initial):
        self.initial, self.calls, self.default_calls = initial, 0, 0

    def step(self, seed):
        self.calls += 1
        if seed is None:
            self.default_calls += 1
            return {self.initial + self.calls, self.initial + self.default_calls}
        return {seed}


def _seed_checks(ctx, history):
    """history = [(explicit seed or None, forwarded seed, accepted set)]."""
    for t, (seed, fwd, ok) in enumerate(history):
        ctx.check(f"call {t}: the seed forwarded to the sampler ({fwd}) is the one Seeder prescribes {sorted(ok)}", _truth(ctx, fwd in ok))
    for (a, (sa, fa, _)), (b, (sb, fb, _)) in itertools.combinations(enumerate(history), 2):
        if sa is not None and sa == sb:
            ctx.check(f"calls {a},{b}: same explicit seed => same seed forwarded", _truth(ctx, fa == fb))
        if sa is None and sb is None:
            ctx.check(f"calls {a},{b}: no explicit seed => different seeds forwarded", _truth(ctx, fa != fb))


# ------------------------------------------------------------------------------------------------
# 1. OpenTURNS stratified designs (axial / factorial / composite)
# ------------------------------------------------------------------------------------------------
STRAT = {"OT_AXIAL": ("axial", "ot_axial_doe", "OTAxialDOE"), "OT_FACTORIAL": ("factorial", "ot_factorial_doe", "OTFactorialDOE"),
         "OT_COMPOSITE": ("composite", "ot_composite_doe", "OTCompositeDOE")}


def _strat_count(kind, d, L):
    """Number of points documented by OpenTURNS (Axial: 1 + 2 n L; Factorial: 1 + L 2^n; Composite: 1 + L (2n + 2^n))."""
    return {"axial": 1 + 2 * d * L, "factorial": 1 + L * 2 ** d, "composite": 1 + L * (2 * d + 2 ** d)}[kind]


def _strat_structure(kind, d, L):
    """[(signs, level index)] of every row: the centre, then per level the 2d axis points / the 2^d vertices (OpenTURNS order,
    validated against the real classes in concrete mode)."""
    def axial():
        for k in range(L):
            for j in range(d):
                for s in (1, -1):
                    sig = [0] * d
                    sig[j] = s
                    yield tuple(sig), k

    def factorial():
        for k in range(L):
            for t in itertools.product((-1, 1), repeat=d):
                yield tuple(reversed(t)), k

    rows = [((0,) * d, 0)]
    if kind in ("factorial", "composite"):
        rows += list(factorial())
    if kind in ("axial", "composite"):
        rows += list(axial())
    return rows


def _strat_class(algo):
    import importlib

    kind, modname, clsname = STRAT[algo]
    mod = importlib.import_module(f"gemseo.algos.doe.openturns._algos.{modname}")
    return kind, getattr(mod, clsname)


def _install_strat_stub(ctx, algo, contract, log):
    """Replace the OpenTURNS experiment class of the gemseo algorithm class by the recorder."""
    import gemseo.algos.doe.openturns._algos.base_ot_stratified_doe as bsm

    kind, cls = _strat_class(algo)
    real_cls = cls._ALGO_CLASS

    class Experiment:
        def __init__(self, center, levels):
            self.center, self.levels = elems(center), elems(levels)
            self.returned = None
            log.append(self)

        def generate(self):
            d, L = len(self.center), len(self.levels)
            struct = _strat_structure(kind, d, L)
            S = [[self.center[j] + sig[j] * self.levels[k] if sig[j] else self.center[j] for j in range(d)] for sig, k in struct]
            if not ctx.symbolic:
                R = np.array(real_cls(np.array(self.center, dtype=float), np.array(self.levels, dtype=float)).generate())
                ok = R.shape == (len(S), d)
                ctx.check(f"environment contract: openturns.{real_cls.__name__} returns {len(S)} points", _truth(ctx, ok))
                if ok:
                    ctx.check(f"environment contract: openturns.{real_cls.__name__} returns the centre and centre +- level on the axes / vertices",
                              _truth(ctx, bool(np.allclose(R, np.array(S, dtype=float), rtol=0, atol=1e-12))))
                self.returned = R
                return R
            if contract == "structure":
                M = S
            else:  # arbitrary matrix of the documented shape within the documented range
                M = []
                for i in range(len(S)):
                    r = [ctx.real(f"m{len(log)}_{i}_{j}") for j in range(d)]
                    for j, v in enumerate(r):
                        ctx.assume(ctx.or_(*[ctx.and_(ctx.le(self.center[j] - lv, v), ctx.le(v, self.center[j] + lv)) for lv in self.levels]))
                    M.append(r)
            self.returned = M
            return ctx.array(M)

    ctx.patch(cls, "_ALGO_CLASS", Experiment, symbolic_only=False)
    _as_symarray_patch(ctx, bsm)
    return kind, cls


def _strat_expected(c, lv, sig):
    """Docstring of generate_samples: the levels are relative positions between the centre and the bounds
    ([0.2, 0.8] with centre 0.5 -> 0.1, 0.4, 0.5, 0.6, 0.9)."""
    if sig > 0:
        return c + lv * (1 - c)
    if sig < 0:
        return c - lv * c
    return c


def _frac(ctx, num, den):
    from harness.common import exact_const

    return exact_const(ctx, num) / den if ctx.symbolic else num / den


class SymN:
    """Symbolic-mode stand-in for the integer ``n_samples`` in ``_compute_n_levels``: an integer-valued symbolic real.  ``n - 1`` and the
    divisions by concrete integers are exact rationals; ``int(quotient)`` - the truncation of a float64 quotient in the real code - is
    the exact floor (the cut: for n < 2^50 a non-integer quotient a / b lies at least 1 / b away from every integer, far more than the
    rounding error of two correctly rounded divisions, and integers are representable), returned as a concrete integer chosen by the solver;
    comparisons fork."""

    def __init__(self, ctx, n, kmax):
        self.ctx, self.n, self.kmax = ctx, n, kmax

    def __sub__(self, o):
        return _SymQ(self, self.n - o)

    def __gt__(self, o):
        return self.n > o

    def __lt__(self, o):
        return self.n < o

    def __format__(self, spec):
        return "n_samples"

    __hash__ = None


class _SymQ:
    def __init__(self, owner, q):
        self.owner, self.q = owner, q

    def __truediv__(self, o):
        return _SymQ(self.owner, self.q / o)

    def __int__(self):
        ctx = self.owner.ctx
        k = ctx.choice("int", self.owner.kmax + 1)
        ctx.assume(ctx.and_(ctx.le(k, self.q), ctx.lt(self.q, k + 1)))   # truncation of a non-negative quotient
        return k


def h_wrap_ot_stratified(ctx, cfg):
    algo, d, mode = cfg["algo"], cfg.get("d"), cfg["mode"]
    log = []
    if mode == "count_kernel":
        # _compute_n_levels for EVERY n_samples up to (kmax + 1) points-per-level: n is a symbolic integer
        kind, cls = _strat_class(algo)
        q, kmax = _strat_count(kind, d, 1) - 1, cfg["kmax"]
        n = ctx.real("n_samples")
        ctx.assume(ctx.is_int(n))
        ctx.assume(ctx.and_(ctx.le(1, n), ctx.le(n, (kmax + 1) * q)))
        arg = SymN(ctx, n, kmax) if ctx.symbolic else int(round(n))
        try:
            L = cls._compute_n_levels(arg, d)
        except ValueError:
            ctx.check(f"ValueError only when n_samples is below the smallest design ({1 + q} points)", ctx.lt(n, 1 + q))
            ctx.observe("levels", [-1.0])
            return
        ctx.observe("levels", [float(L)])
        ctx.check("an integer number of levels >= 1", _truth(ctx, isinstance(L, (int, np.integer)) and L >= 1))
        ctx.check("documented count 1 + L x (points per level) <= n_samples (never more than requested)", ctx.le(1 + q * L, n))
        return
    kind, cls = _install_strat_stub(ctx, algo, cfg.get("contract", "structure"), log)
    if mode == "levels":
        L = cfg["L"]
        levels = [ctx.real(f"lev{k}") for k in range(L)]
        for v in levels:   # ]0,1] documented; 1/64 keeps the float64 replays of a model strictly inside
            ctx.assume(ctx.and_(ctx.le(1.0 / 64, v), ctx.le(v, 1.0)))
        cm = cfg.get("centers", "vector")
        if cm == "default":
            cen, call_c = [0.5] * d, {}
        elif cm == "scalar":
            cen, call_c = [0.25] * d, dict(centers=0.25)
        else:
            k = d if cm == "vector" else 1
            cs = [ctx.real(f"cen{j}") for j in range(k)]
            for v in cs:   # ]0,1[ documented
                ctx.assume(ctx.and_(ctx.le(1.0 / 64, v), ctx.le(v, 63.0 / 64)))
            cen, call_c = (cs if cm == "vector" else cs * d), dict(centers=list(cs))
        out = cls().generate_samples(0, d, levels=list(levels), **call_c)
        if cfg.get("contract", "structure") == "structure":
            ctx.observe("unit samples", np.ravel(out))
        _strat_obligations(ctx, kind, d, L, cen, levels, out, log, cfg.get("contract", "structure"))
        return
    if mode == "n_samples":
        n = cfg["n_min"] + ctx.choice("n_samples", cfg["n_max"] - cfg["n_min"] + 1)
        try:
            out = cls().generate_samples(n, d)
        except ValueError:
            ctx.check(f"ValueError only when n_samples={n} is below the smallest design ({_strat_count(kind, d, 1)} points)", _truth(ctx, n < _strat_count(kind, d, 1)))
            ctx.observe("raised", [1.0])
            return
        ctx.observe("unit samples", np.ravel(out))
        ctx.check(f"n_samples={n} >= the smallest design ({_strat_count(kind, d, 1)} points): a design is returned", _truth(ctx, n >= _strat_count(kind, d, 1)))
        N = np.shape(out)[0]
        ctx.check(f"never more samples than requested ({N} <= {n})", _truth(ctx, N <= n))
        Ls = [L for L in range(1, n + 1) if _strat_count(kind, d, L) == N]
        ctx.check(f"the number of samples {N} is a documented count of the {kind} design in dimension {d}", _truth(ctx, bool(Ls)))
        if not Ls:
            return
        L = Ls[0]
        levels = [k / L for k in range(1, L + 1)]   # "the levels will be equispaced and symmetrical relative to the center"
        _strat_obligations(ctx, kind, d, L, [0.5] * d, levels, out, log, "structure")
        return
    # mode == "compute_doe": through the OpenTURNS library on a design space with symbolic bounds
    from gemseo.algos.doe.openturns.openturns import OpenTURNS

    ds, info = build_space(ctx, WL[cfg["layout"]])
    d = info.n
    lib = OpenTURNS(algo)
    if cfg.get("n_samples"):
        n = cfg["n_samples"]
        out = lib.compute_doe(ds, n_samples=n)
        N = np.shape(out)[0]
        ctx.check(f"never more samples than requested ({N} <= {n})", _truth(ctx, N <= n))
        Ls = [L for L in range(1, n + 1) if _strat_count(kind, d, L) == N]
        ctx.check(f"the number of samples {N} is a documented count of the {kind} design in dimension {d}", _truth(ctx, bool(Ls)))
        if not Ls:
            return
        L, cen = Ls[0], [0.5] * d
        levels = [k / L for k in range(1, L + 1)]
    else:
        levels, cen = [float(v) for v in cfg["levels"]], [float(v) for v in cfg["centers"]]
        L = len(levels)
        out = lib.compute_doe(ds, levels=levels, centers=cen if len(cen) > 1 else cen[0])
        cen = cen * d if len(cen) == 1 else cen
    ctx.observe("samples", np.ravel(out))
    unit = [[_strat_expected(cen[j], levels[k], sig[j]) for j in range(d)] for sig, k in _strat_structure(kind, d, L)]
    for i, r in enumerate(unit):
        for j, v in enumerate(r):
            ctx.check(f"expected unit sample[{i},{j}] in [0,1]", _in01(ctx, v))
    _check_physical(ctx, info, out, unit)


def _strat_obligations(ctx, kind, d, L, cen, levels, out, log, contract):
    N = _strat_count(kind, d, L)
    ctx.check("the OpenTURNS experiment is built exactly once", _truth(ctx, len(log) == 1))
    if not check_shape(ctx, f"documented count of the {kind} design x dimension", out, (N, d)) or len(log) != 1:
        return
    o = _rows(out)
    struct = _strat_structure(kind, d, L)
    exp = log[0]
    if contract != "structure" and exp.returned is not None:
        # the experiment must be asked for points at relative position `level` between ITS centre (1/2) and the faces of the unit cube
        ctx.check("experiment built in dimension d", _truth(ctx, len(exp.center) == d))
        for j, c in enumerate(exp.center):
            ctx.check(f"experiment centre[{j}] is the centre of the unit cube", _close(ctx, c, 0.5))
        ctx.check("experiment built with one level per requested level", _truth(ctx, len(exp.levels) == L))
        for k in range(min(L, len(exp.levels))):
            ctx.check(f"experiment level[{k}] is half the requested relative level", _close(ctx, exp.levels[k] * 2, levels[k]))
    M = _rows(np.asarray(exp.returned, dtype=object)) if exp.returned is not None else None
    for i in range(N):
        sig, k = struct[i]
        for j in range(d):
            v = o[i][j]
            ctx.check(f"unit sample[{i},{j}] in [0,1]", _in01(ctx, v))
            if contract == "structure" or not ctx.symbolic:
                ctx.check(f"unit sample[{i},{j}] is the level re-centred as documented (centre + level x distance to the bound)",
                          _close(ctx, v, _strat_expected(cen[j], levels[k], sig[j])))
            if contract != "structure" and M is not None:
                m = M[i][j]
                t = (m - 0.5) * 2
                c = cen[j]
                if ctx.symbolic:
                    e = ctx.ite(ctx.le(0.5, m), c + t * (1 - c), c + t * c)
                else:
                    e = c + t * (1 - c) if m >= 0.5 else c + t * c
                ctx.check(f"unit sample[{i},{j}] is the experiment's point re-centred piecewise-affinely", _close(ctx, v, e))


# ------------------------------------------------------------------------------------------------
# 2. full-factorial designs
# ------------------------------------------------------------------------------------------------
def _grid_rows(counts):
    """All combinations of range(c) per direction, first direction fastest (order of openturns.Box and pyDOE3.fullfact)."""
    return [tuple(reversed(t)) for t in itertools.product(*[range(c) for c in reversed(counts)])]


def _install_fullfact_stubs(ctx, log):
    """openturns.Box(levels).generate() and pyDOE3.fullfact(levels) -> their documented grids, written out exactly."""
    import gemseo.algos.doe.openturns._algos.ot_full_factorial_doe as otf
    import gemseo.algos.doe.pydoe.pydoe_full_factorial_doe as pyf

    real_box, real_fullfact = otf.Box, pyf.fullfact

    class Box:
        """Box(levels): levels[i] intermediate points in direction i, i.e. levels[i] + 2 regularly spaced points of [0, 1]."""

        def __init__(self, levels):
            self.levels = [int(v) for v in levels]
            log.append(("Box", list(self.levels)))

        def generate(self):
            counts = [l + 2 for l in self.levels]
            G = np.array([[i / (c - 1) for i, c in zip(r, counts)] for r in _grid_rows(counts)], dtype=float)
            if not ctx.symbolic:
                R = np.array(real_box(self.levels).generate())
                ctx.check("environment contract: openturns.Box returns the regular grid prod(levels + 2) x n including the bounds, first direction fastest",
                          _truth(ctx, R.shape == G.shape and bool(np.allclose(R, G, rtol=0, atol=1e-12))))
                return R
            return ctx.array(G)   # object storage of the same floats: the design-space bounds may be symbolic downstream

    def fullfact(levels):
        counts = [int(v) for v in levels]
        log.append(("fullfact", list(counts)))
        G = np.array(_grid_rows(counts), dtype=float).reshape(-1, len(counts))
        if not ctx.symbolic:
            R = real_fullfact(levels)
            ctx.check("environment contract: pyDOE3.fullfact returns the coded levels 0..k-1 of every combination, first factor fastest",
                      _truth(ctx, R.shape == G.shape and bool(np.array_equal(R, G))))
            return R
        return ctx.array(G)

    ctx.patch(otf, "Box", Box, symbolic_only=False)
    ctx.patch(pyf, "fullfact", fullfact, symbolic_only=False)
    _as_symarray_patch(ctx, otf)
    if ctx.symbolic:
        from symgem.core import SymArray

        ctx.patch(otf, "full", lambda shape, value: SymArray(np.full(shape, value, dtype=object)))


def _fullfact_lib(name):
    if name == "OT_FULLFACT":
        from gemseo.algos.doe.openturns.openturns import OpenTURNS

        return OpenTURNS(name)
    from gemseo.algos.doe.pydoe.pydoe import PyDOELibrary

    return PyDOELibrary(name)


def _fullfact_checks(ctx, tag, out, levels):
    """Documented: 'a full factorial DOE considers all the possible combinations of these levels across all the inputs'; the number of
    levels per direction is the setting; gemseo includes the bounds in the levels (regular grid of [0,1], pinned by its tests)."""
    d = len(levels)
    N = 1
    for l in levels:
        N *= l
    if not check_shape(ctx, f"{tag}: prod(levels) samples", out, (N, d)):
        return None
    o = np.asarray(_rows(out), dtype=float)
    for i in range(N):
        for j in range(d):
            ctx.check(f"{tag}: unit sample[{i},{j}] in [0,1]", _in01(ctx, float(o[i, j])))
    for j, l in enumerate(levels):
        vals = sorted(set(round(float(v), 9) for v in o[:, j]))
        ctx.check(f"{tag}: direction {j} takes exactly levels[{j}]={l} distinct values", _truth(ctx, len(vals) == l))
        if l >= 2 and len(vals) == l:
            ctx.check(f"{tag}: the {l} levels of direction {j} are equally spaced from 0 to 1", _truth(ctx, all(abs(v - k / (l - 1)) <= 1e-9 for k, v in enumerate(vals))))
    pts = {tuple(round(float(v), 9) for v in r) for r in o}
    ctx.check(f"{tag}: all the prod(levels) combinations are present (distinct rows)", _truth(ctx, len(pts) == N))
    return pts


class RootInt:
    """Symbolic-mode stand-in for the integer ``n_samples`` in ``BaseFullFactorialDOE._compute_fullfact_levels``: an integer-valued
    symbolic real ``n`` whose ``n ** (1.0 / d)`` - the only floating-point operation of the kernel - obeys the contract
    ``int(n ** (1/d)) == r``, or ``r - 1`` when ``n == r^d``, with ``r`` the exact integer d-th root (r^d <= n < (r+1)^d);
    comparisons fork."""

    def __init__(self, ctx, n, k):
        self.ctx, self.n, self.k = ctx, n, k

    def __pow__(self, e):
        return _RootVal(self.k)

    def __eq__(self, o):
        return self.n == o

    __req__ = __eq__

    def __ne__(self, o):
        return self.n != o

    def __gt__(self, o):
        return self.n > o

    def __lt__(self, o):
        return self.n < o

    def __ge__(self, o):
        return self.n >= o

    def __le__(self, o):
        return self.n <= o

    __hash__ = None


class _RootVal:
    def __init__(self, k):
        self.k = k

    def __int__(self):
        return self.k


def h_wrap_fullfact(ctx, cfg):
    mode = cfg["mode"]
    log = []
    if mode == "levels_kernel":
        # BaseFullFactorialDOE._generate_fullfact/_compute_fullfact_levels for EVERY n_samples with k <= kmax: n is a symbolic integer
        from gemseo.algos.doe.base_full_factorial_doe import BaseFullFactorialDOE

        d, kmax = cfg["d"], cfg["kmax"]
        seen = []

        class Probe(BaseFullFactorialDOE):
            def _generate_fullfact_from_levels(self, levels):
                seen.append(levels)
                return levels

        n = ctx.real("n_samples")
        ctx.assume(ctx.is_int(n))
        ctx.assume(ctx.le(1, n))
        ctx.assume(ctx.lt(n, (kmax + 1) ** d))
        if ctx.symbolic:
            k = ctx.choice("pow", kmax + 1)   # the value of int(n ** (1.0 / d)) allowed by the contract
            # r = k, or r = k + 1 when n is the perfect power (k + 1)^d (a root computed just below an integer)
            ctx.assume(ctx.or_(ctx.and_(ctx.le(k ** d, n), ctx.lt(n, (k + 1) ** d)), ctx.eq(n, (k + 1) ** d)))
            arg = RootInt(ctx, n, k)
        else:
            arg = int(round(n))
            r = round(arg ** (1.0 / d))
            r = r if r ** d <= arg else r - 1
            k = int(arg ** (1.0 / d))
            ctx.check("environment contract: int(n ** (1.0 / d)) is the exact integer root r, or r - 1 for the perfect power n = r^d", _truth(ctx, k == r or (k == r - 1 and r ** d == arg)))
        levels = Probe()._generate_fullfact(arg, d, levels=())
        ctx.observe("levels", [float(v) for v in levels])
        ctx.check("one level count per direction", _truth(ctx, len(levels) == d and len(set(levels)) == 1 and all(isinstance(v, (int, np.integer)) for v in levels)))
        r = int(levels[0])
        ctx.check("prod(levels) <= n_samples (never more than requested)", ctx.le(r ** d, n))
        ctx.check("prod(levels) is the largest d-th power not above n_samples (so == n_samples for a perfect power)", ctx.lt(n, (r + 1) ** d))
        if not ctx.symbolic and cfg.get("validate_pow"):
            # the float contract itself, exhaustively: n <= 10^4, d <= 4
            bad = []
            for dd in (1, 2, 3, 4):
                rr = 1
                for nn in range(1, 10001):
                    while (rr + 1) ** dd <= nn:
                        rr += 1
                    kk = int(nn ** (1.0 / dd))
                    if not (kk == rr or (kk == rr - 1 and rr ** dd == nn)):
                        bad.append((nn, dd))
            ctx.check("environment contract: int(n ** (1.0 / d)) == r (or r - 1 when n == r^d) for every n <= 10^4, d <= 4", _truth(ctx, not bad))
        return
    _install_fullfact_stubs(ctx, log)
    if mode == "levels":
        d = cfg["d"]
        levels = [1 + ctx.choice(f"levels{j}", cfg["lmax"]) for j in range(d)]
        pts = {}
        for name in ("OT_FULLFACT", "PYDOE_FULLFACT"):
            lib = _fullfact_lib(name)
            out = lib.compute_doe(d, levels=list(levels) if not cfg.get("scalar") else levels[0])
            ctx.observe(f"{name} unit samples", np.ravel(out))
            pts[name] = _fullfact_checks(ctx, name, out, levels if not cfg.get("scalar") else [levels[0]] * d)
        if all(p is not None for p in pts.values()):
            keep = [j for j, l in enumerate(levels if not cfg.get("scalar") else [levels[0]] * d) if l >= 2]
            a = {tuple(p[j] for j in keep) for p in pts["OT_FULLFACT"]}
            b = {tuple(p[j] for j in keep) for p in pts["PYDOE_FULLFACT"]}
            ctx.check("OT_FULLFACT and PYDOE_FULLFACT are the same set of points (directions with at least 2 levels)", _truth(ctx, a == b))
        return
    if mode == "n_samples":
        d = cfg["d"]
        n = 1 + ctx.choice("n_samples", cfg["n_max"])
        r = 1
        while (r + 1) ** d <= n:
            r += 1
        for name in ("OT_FULLFACT", "PYDOE_FULLFACT"):
            out = _fullfact_lib(name).compute_doe(d, n_samples=n)
            ctx.observe(f"{name} unit samples", np.ravel(out))
            N = np.shape(out)[0]
            ctx.check(f"{name}: never more samples than requested ({N} <= {n})", _truth(ctx, N <= n))
            ctx.check(f"{name}: {N} samples = the largest d-th power not above n_samples={n} ({r ** d})", _truth(ctx, N == r ** d))
            _fullfact_checks(ctx, name, out, [r] * d)
        return
    # mode == "compute_doe": on a design space with symbolic bounds
    ds, info = build_space(ctx, WL[cfg["layout"]])
    levels = list(cfg["levels"])
    counts = levels
    unit = [[(i / (c - 1) if c > 1 else 0.5) for i, c in zip(r, counts)] for r in _grid_rows(counts)]
    for name in ("OT_FULLFACT", "PYDOE_FULLFACT"):
        out = _fullfact_lib(name).compute_doe(ds, levels=levels)
        ctx.observe(f"{name} samples", np.ravel(out))
        N = np.shape(out)[0]
        ctx.check(f"{name}: prod(levels) samples", _truth(ctx, N == len(unit)))
        if N != len(unit):
            continue
        # a full-factorial design is a set of points: match every expected grid point (directions with one level: any value of [0,1])
        sm = _rows(out)
        for j in range(info.n):
            for s in range(N):
                ctx.check(f"{name}: sample[{s},{j}] within the bounds", ctx.and_(ctx.le(info.lb[j], sm[s][j]), ctx.le(sm[s][j], info.ub[j])))
                if info.is_int[j]:
                    ctx.check(f"{name}: sample[{s},{j}] is an integer", ctx.is_int(sm[s][j]))
        for e, u in enumerate(unit):
            alts = []
            for s in range(N):
                conj = []
                for j in range(info.n):
                    if counts[j] < 2:
                        continue
                    img = info.lb[j] + u[j] * (info.ub[j] - info.lb[j])
                    conj.append(ctx.and_(ctx.le(sm[s][j] - img, 0.5), ctx.le(img - sm[s][j], 0.5)) if info.is_int[j] else _close(ctx, sm[s][j], img))
                alts.append(ctx.and_(*conj))
            ctx.check(f"{name}: the grid point {e} (image of the regular unit grid) is one of the samples", ctx.or_(*alts))


# ------------------------------------------------------------------------------------------------
# 3a. pyDOE
# ------------------------------------------------------------------------------------------------
PYDOE_SHAPE = {"PYDOE_FF2N": lambda d, center: 2 ** d, "PYDOE_PBDESIGN": lambda d, center: 4 * (d // 4 + 1), "PYDOE_BBDESIGN": None}


def h_wrap_pydoe(ctx, cfg):
    import gemseo.algos.doe.pydoe.pydoe as pm
    from gemseo.algos.doe.pydoe.pydoe import PyDOELibrary
    from numpy.random import RandomState

    algo = cfg["algo"]
    calls, rs_log = [], []
    table = PyDOELibrary._PyDOELibrary__NAMES_TO_FUNCTIONS
    real_fn = table[algo]

    class RecRandomState(RandomState):
        def __init__(self, seed=None):
            rs_log.append(seed)
            self.verif_seed = seed
            super().__init__(seed)

    def recorder(n, **kw):
        call = dict(n=n, kw=dict(kw), returned=None)
        calls.append(call)
        if not ctx.symbolic:
            R = np.array(real_fn(n, **kw), dtype=float)
            if algo == "PYDOE_LHS":
                _contract_real(ctx, "pyDOE3.lhs", R, kw.get("samples"), n)
            else:
                ctx.check(f"environment contract: pyDOE3 {algo} returns coded levels in [-1, 1], one column per factor",
                          _truth(ctx, R.ndim == 2 and R.shape[1] == n and R.min() >= -1 and R.max() <= 1))
            call["returned"] = _rows(R)
            return R
        if algo == "PYDOE_LHS":
            M = _unit_matrix(ctx, f"m{len(calls)}_", kw["samples"], n)
        else:
            M = _unit_matrix(ctx, f"m{len(calls)}_", cfg["rows"], n, lo=-1.0, hi=1.0)   # coded levels -1 .. +1
        call["returned"] = M
        return ctx.array(M)

    ctx.patch(table, algo, recorder, symbolic_only=False)
    ctx.patch(pm, "RandomState", RecRandomState, symbolic_only=False)
    ds, info = build_space(ctx, WL[cfg["layout"]])
    d = info.n
    lib = PyDOELibrary(algo)
    model = SeedModel(0)
    if cfg.get("initial_seed") is not None:
        lib.seed = cfg["initial_seed"]
        model = SeedModel(cfg["initial_seed"])
    history = []
    for t in range(cfg.get("K", 1)):
        settings = dict(cfg.get("settings", {}))
        if algo == "PYDOE_LHS":
            seed = SEEDS[ctx.choice(f"seed{t}", len(SEEDS))]
            settings.update(n_samples=cfg["n"])
            if seed is not None:
                settings["random_state"] = seed
        n_before, rs_before = len(calls), len(rs_log)
        out = lib.compute_doe(ds, unit_sampling=bool(cfg.get("unit")), **settings)
        ctx.check(f"call {t}: the pyDOE function is called exactly once", _truth(ctx, len(calls) == n_before + 1))
        if len(calls) != n_before + 1:
            return
        call = calls[-1]
        ctx.check(f"call {t}: called with the dimension of the design space", _truth(ctx, call["n"] == d))
        kw = call["kw"]
        if algo == "PYDOE_LHS":
            ok = model.step(seed)
            expected = dict(samples=cfg["n"], criterion=cfg.get("settings", {}).get("criterion"), iterations=cfg.get("settings", {}).get("iterations", 5))
            given = {"samples", "random_state"} | set(cfg.get("settings", {}))
            ctx.check(f"call {t}: lhs receives only samples, criterion, iterations, random_state, and all that the user set", _truth(ctx, given <= set(kw) <= set(expected) | {"random_state"}))
            for key, val in expected.items():
                ctx.check(f"call {t}: lhs option {key} is the user's value / documented default", _truth(ctx, kw[key] == val if key in kw else key not in given))
            ctx.check(f"call {t}: one RandomState is built per call", _truth(ctx, len(rs_log) == rs_before + 1))
            rs = kw.get("random_state")
            ctx.check(f"call {t}: lhs receives the RandomState built from the prescribed seed", _truth(ctx, isinstance(rs, RecRandomState)))
            if isinstance(rs, RecRandomState):
                history.append((seed, rs.verif_seed, ok))
        else:
            expected = {"PYDOE_BBDESIGN": dict(center=cfg.get("settings", {}).get("center")), "PYDOE_FF2N": {}, "PYDOE_PBDESIGN": {}}[algo]
            ctx.check(f"call {t}: {algo} receives exactly its documented options", _truth(ctx, kw == expected))
        M = call["returned"]
        unit = M if algo == "PYDOE_LHS" else [[(v + 1.0) * 0.5 for v in r] for r in M]   # coded level -1 -> 0, +1 -> 1
        if cfg.get("unit"):
            _check_same_matrix(ctx, f"call {t}: unit samples", out, unit)
            for i, r in enumerate(_rows(out) if np.shape(out) == (len(unit), d) else []):
                for j, v in enumerate(r):
                    ctx.check(f"call {t}: unit sample[{i},{j}] in [0,1]", _in01(ctx, v))
        else:
            _check_physical(ctx, info, out, unit, label=f"call {t}: sample")
        if algo == "PYDOE_LHS":
            ctx.check(f"call {t}: exactly n_samples samples", _truth(ctx, np.shape(out)[0] == cfg["n"]))
    _seed_checks(ctx, history)
    ctx.observe("seeds forwarded", [float(-1 if f is None else f) for _, f, _ in history] or [0.0])


# ------------------------------------------------------------------------------------------------
# 3b. SciPy
# ------------------------------------------------------------------------------------------------
SCIPY_OPTIONS = {   # the constructor parameters of the scipy.stats.qmc engines that gemseo documents as settings, with their documented defaults
    "Sobol": dict(scramble=True, bits=30, optimization=None),
    "Halton": dict(scramble=True, optimization=None),
    "LHS": dict(scramble=True, optimization=None, strength=1),
    "PoissonDisk": dict(radius=0.05, hypersphere="volume", ncandidates=30, optimization=None),
    "MC": dict(),
}
SCIPY_CLASS = {"Sobol": "Sobol", "Halton": "Halton", "LHS": "LatinHypercube", "PoissonDisk": "PoissonDisk", "MC": "_MonteCarlo"}


def h_wrap_scipy(ctx, cfg):
    from gemseo.algos.doe.scipy.scipy_doe import SciPyDOE

    algo = cfg["algo"]
    calls = []
    table = SciPyDOE._SciPyDOE__NAMES_TO_CLASSES
    real_cls = table[algo]

    def make(real):
        if ctx.symbolic:
            class Engine:
                real_name = real.__name__

                def __init__(self, d, **kw):
                    self.call = dict(d=d, kw=dict(kw), cls=real.__name__, n=None, returned=None, n_random=0)
                    calls.append(self.call)

                def random(self, n):
                    self.call["n"] = n
                    self.call["n_random"] += 1
                    M = _unit_matrix(ctx, f"m{len(calls)}_", n, self.call["d"])
                    self.call["returned"] = M
                    return ctx.array(M)
        else:
            class Engine(real):
                real_name = real.__name__

                def __init__(self, d, **kw):
                    self.call = dict(d=d, kw=dict(kw), cls=real.__name__, n=None, returned=None, n_random=0)
                    calls.append(self.call)
                    super().__init__(d, **kw)

                def random(self, n=1, **k):
                    self.call["n"] = n
                    self.call["n_random"] += 1
                    R = super().random(n, **k)
                    _contract_real(ctx, f"scipy.stats.qmc.{real.__name__}.random", R, n, self.call["d"])
                    self.call["returned"] = _rows(R)
                    return R
        return Engine

    ctx.patch(table, algo, make(real_cls), symbolic_only=False)
    ds, info = build_space(ctx, WL[cfg["layout"]])
    d = info.n
    lib = SciPyDOE(algo)
    model = SeedModel(0)
    if cfg.get("initial_seed") is not None:
        lib.seed = cfg["initial_seed"]
        model = SeedModel(cfg["initial_seed"])
    history = []
    user = dict(cfg.get("settings", {}))
    for t in range(cfg.get("K", 1)):
        seed = SEEDS[ctx.choice(f"seed{t}", len(SEEDS))]
        settings = dict(user, n_samples=cfg["n"])
        if seed is not None:
            settings["seed"] = seed
        before = len(calls)
        out = lib.compute_doe(ds, unit_sampling=bool(cfg.get("unit")), **settings)
        ok = model.step(seed)
        ctx.check(f"call {t}: one engine is built per call", _truth(ctx, len(calls) == before + 1))
        if len(calls) != before + 1:
            return
        call = calls[-1]
        ctx.check(f"call {t}: the engine is scipy.stats.qmc.{SCIPY_CLASS[algo]}", _truth(ctx, call["cls"] == SCIPY_CLASS[algo]))
        ctx.check(f"call {t}: engine built with the dimension of the design space", _truth(ctx, call["d"] == d))
        ctx.check(f"call {t}: random() called once with exactly n_samples", _truth(ctx, call["n_random"] == 1 and call["n"] == cfg["n"]))
        kw = dict(call["kw"])
        ctx.check(f"call {t}: a seed is forwarded", _truth(ctx, "seed" in kw))
        if "seed" in kw:
            history.append((seed, kw.pop("seed"), ok))
        expected = dict(SCIPY_OPTIONS[algo])
        expected.update(user)
        # options the user did not set may be forwarded with gemseo's documented default or left to SciPy's own default
        ctx.check(f"call {t}: the engine receives only documented options {sorted(expected)} and every option the user set", _truth(ctx, set(user) <= set(kw) <= set(expected)))
        for key, val in expected.items():
            ctx.check(f"call {t}: option {key} is the user's value / documented default", _truth(ctx, kw[key] == val if key in kw else key not in user))
        if call["returned"] is None:
            return
        M = call["returned"]
        if cfg.get("unit"):
            _check_same_matrix(ctx, f"call {t}: unit samples", out, M)
        else:
            _check_physical(ctx, info, out, M, label=f"call {t}: sample")
        ctx.check(f"call {t}: exactly n_samples samples", _truth(ctx, np.shape(out)[0] == cfg["n"]))
    _seed_checks(ctx, history)
    ctx.observe("seeds forwarded", [float(f) for _, f, _ in history] or [0.0])


# ------------------------------------------------------------------------------------------------
# 3c. OpenTURNS (Monte Carlo, LHS variants, low-discrepancy sequences)
# ------------------------------------------------------------------------------------------------
OT_SEQ = {"OT_SOBOL": ("ot_sobol_sequence", "OTSobolSequence", "SobolSequence"), "OT_HALTON": ("ot_halton_sequence", "OTHaltonSequence", "HaltonSequence"),
          "OT_REVERSE_HALTON": ("ot_reverse_halton_sequence", "OTReverseHaltonSequence", "ReverseHaltonSequence"),
          "OT_HASELGROVE": ("ot_haselgrove_sequence", "OTHaselgroveSequence", "HaselgroveSequence"), "OT_FAURE": ("ot_faure_sequence", "OTFaureSequence", "FaureSequence")}
# upper end of the contract range of the LHS / uniform samplers: OpenTURNS documents [0, 1[; the sliver above 1 - 2^-40 is excluded because the
# centred LHS divides by the float64 value of 1.0 / n (rounding is outside every claim)
HI = 1.0 - 2.0 ** -40
OPT_CRITERIA = {"C2": "SpaceFillingC2", "PhiP": "SpaceFillingPhiP", "MinDist": "SpaceFillingMinDist"}
OPT_PROFILES = {"Geometric": "GeometricProfile", "Linear": "LinearProfile"}


def _install_ot_stubs(ctx, algo, calls):
    """Recorders for every OpenTURNS entry point the non-stratified algorithms use."""
    import importlib

    import openturns

    import gemseo.algos.doe.openturns._algos.base_ot_doe as bod
    import gemseo.algos.doe.openturns._algos.ot_optimal_lhs as olm
    import gemseo.algos.doe.openturns._algos.ot_standard_lhs as slm

    real_setseed = openturns.RandomGenerator.SetSeed

    def set_seed(seed):
        calls.append(dict(what="SetSeed", seed=seed))
        real_setseed(seed)   # harmless symbolically; the real generator is seeded in concrete mode

    ctx.patch(openturns.RandomGenerator, "SetSeed", staticmethod(set_seed), symbolic_only=False)

    def sample(what, n, d, real_thunk):
        call = dict(what=what, n=n, d=d, returned=None)
        calls.append(call)
        if not ctx.symbolic:
            R = _contract_real(ctx, f"openturns {what}", np.array(real_thunk()), n, d, 0.0, HI if what != "sequence" else 1.0)
            call["returned"] = _rows(R)
            return call, R
        M = _unit_matrix(ctx, f"m{len(calls)}_", n, d, 0.0, HI if what != "sequence" else 1.0)
        call["returned"] = M
        return call, ctx.array(M)

    if algo in ("OT_MONTE_CARLO", "OT_RANDOM"):
        real_uniform = bod.BaseOTDOE._STANDARD_UNIFORM_DISTRIBUTION

        class Uniform:
            def getSample(self, size):
                call, M = sample("Uniform(0,1).getSample", size, 1, lambda: real_uniform.getSample(size))
                return M

        ctx.patch(bod.BaseOTDOE, "_STANDARD_UNIFORM_DISTRIBUTION", Uniform(), symbolic_only=False)
        import gemseo.algos.doe.openturns._algos.ot_monte_carlo as mcm

        _as_symarray_patch(ctx, mcm)
    elif algo in OT_SEQ:
        modname, clsname, otname = OT_SEQ[algo]
        for mn, cn, on in OT_SEQ.values():   # every sequence class is wrapped, so that a wrong dispatch is seen
            cls = getattr(importlib.import_module(f"gemseo.algos.doe.openturns._algos.{mn}"), cn)
            real = cls._ALGO_CLASS

            def make(real=real):
                class Sequence:
                    def __init__(self, dimension):
                        self.dimension = dimension

                    def generate(self, size):
                        call, M = sample("sequence", size, self.dimension, lambda: real(self.dimension).generate(size))
                        call["cls"] = real.__name__
                        return M
                return Sequence

            ctx.patch(cls, "_ALGO_CLASS", make(), symbolic_only=False)
        import gemseo.algos.doe.openturns._algos.base_ot_low_discrepancy_sequence as lsm

        _as_symarray_patch(ctx, lsm)
    else:  # LHS family
        real_lhs, real_sa, real_mc = slm.LHSExperiment, olm.SimulatedAnnealingLHS, olm.MonteCarloLHS

        class LHSExperiment:
            def __init__(self, distribution, size):
                self.distribution, self.size, self.always_shuffle = distribution, size, None
                self.real = real_lhs(distribution, size) if not ctx.symbolic else None

            def setAlwaysShuffle(self, flag):
                self.always_shuffle = flag
                if self.real is not None:
                    self.real.setAlwaysShuffle(flag)

            def generate(self):
                call, M = sample("LHSExperiment", self.size, self.distribution.getDimension(), lambda: self.real.generate())
                call["marginals"] = [str(self.distribution.getMarginal(j)) for j in range(self.distribution.getDimension())]
                return M

        def optimal(kind, real):
            class Optimal:
                def __init__(self, lhs, *args):
                    self.lhs, self.args = lhs, args
                    self.real = real(lhs.real, *args) if not ctx.symbolic else None

                def generate(self):
                    call, M = sample(kind, self.lhs.size, self.lhs.distribution.getDimension(), lambda: self.real.generate())
                    call["args"] = [type(a).__name__ if not isinstance(a, (int, np.integer)) else int(a) for a in self.args]
                    call["always_shuffle"] = self.lhs.always_shuffle
                    return M
            return Optimal

        ctx.patch(slm, "LHSExperiment", LHSExperiment, symbolic_only=False)
        ctx.patch(olm, "LHSExperiment", LHSExperiment, symbolic_only=False)
        ctx.patch(olm, "SimulatedAnnealingLHS", optimal("SimulatedAnnealingLHS", real_sa), symbolic_only=False)
        ctx.patch(olm, "MonteCarloLHS", optimal("MonteCarloLHS", real_mc), symbolic_only=False)
        _as_symarray_patch(ctx, slm)
        _as_symarray_patch(ctx, olm)


def h_wrap_ot(ctx, cfg):
    from gemseo.algos.doe.openturns.openturns import OpenTURNS

    algo, n = cfg["algo"], cfg["n"]
    calls = []
    _install_ot_stubs(ctx, algo, calls)
    ds, info = build_space(ctx, WL[cfg["layout"]])
    d = info.n
    lib = OpenTURNS(algo)
    model = SeedModel(0)
    if cfg.get("initial_seed") is not None:
        lib.seed = cfg["initial_seed"]
        model = SeedModel(cfg["initial_seed"])
    history = []
    user = dict(cfg.get("settings", {}))
    for t in range(cfg.get("K", 1)):
        seed = SEEDS[ctx.choice(f"seed{t}", len(SEEDS))]
        settings = dict(user, n_samples=n)
        if seed is not None:
            settings["seed"] = seed
        before = len(calls)
        out = lib.compute_doe(ds, unit_sampling=bool(cfg.get("unit")), **settings)
        ok = model.step(seed)
        new = calls[before:]
        ctx.check(f"call {t}: the OpenTURNS generator is seeded once, BEFORE sampling, then sampled once",
                  _truth(ctx, len(new) == 2 and new[0]["what"] == "SetSeed" and new[1]["what"] != "SetSeed"))
        if not (len(new) == 2 and new[0]["what"] == "SetSeed" and new[1]["what"] != "SetSeed"):
            return
        history.append((seed, new[0]["seed"], ok))
        call = new[1]
        M = call["returned"]
        if algo in ("OT_MONTE_CARLO", "OT_RANDOM"):
            ctx.check(f"call {t}: n_samples x dimension uniform draws are requested", _truth(ctx, call["what"].startswith("Uniform") and call["n"] == n * d))
            if call["n"] != n * d:
                return
            flat = [r[0] for r in M]
            if check_shape(ctx, f"call {t}: n_samples x dimension", out, (n, d)):
                if cfg.get("unit"):
                    o = _rows(out)
                    for i in range(n):
                        for j in range(d):
                            ctx.check(f"call {t}: unit sample[{i},{j}] is one of the draws", ctx.or_(*[_close(ctx, o[i][j], m) for m in flat]))
                    tot_o, tot_m = 0.0, 0.0
                    for r in o:
                        for v in r:
                            tot_o = tot_o + v
                    for m in flat:
                        tot_m = tot_m + m
                    ctx.check(f"call {t}: every draw is used (sum of the unit samples == sum of the draws)", _close(ctx, tot_o, tot_m))
                else:
                    # which draw goes where is not specified: every component must be within the bounds and the image of SOME draw
                    sm = _rows(out)
                    for i in range(n):
                        for j in range(d):
                            v, lo, w = sm[i][j], info.lb[j], info.ub[j] - info.lb[j]
                            ctx.check(f"call {t}: sample[{i},{j}] within the bounds", ctx.and_(ctx.le(lo, v), ctx.le(v, info.ub[j])))
                            if info.is_int[j]:
                                ctx.check(f"call {t}: sample[{i},{j}] is an integer", ctx.is_int(v))
                                ctx.check(f"call {t}: sample[{i},{j}] is the rounded design-space image of one of the draws",
                                          ctx.or_(*[ctx.and_(ctx.le(v - (lo + m * w), 0.5), ctx.le((lo + m * w) - v, 0.5)) for m in flat]))
                            else:
                                ctx.check(f"call {t}: sample[{i},{j}] is the design-space image of one of the draws", ctx.or_(*[_close(ctx, v, lo + m * w) for m in flat]))
            continue
        if algo in OT_SEQ:
            ctx.check(f"call {t}: the sequence is openturns.{OT_SEQ[algo][2]}", _truth(ctx, call.get("cls") == OT_SEQ[algo][2]))
        elif algo in ("OT_LHS", "OT_LHSC"):
            ctx.check(f"call {t}: an LHSExperiment is generated", _truth(ctx, call["what"] == "LHSExperiment"))
        else:
            annealing = user.get("annealing", True)
            want = "SimulatedAnnealingLHS" if annealing else "MonteCarloLHS"
            ctx.check(f"call {t}: annealing={annealing} => {want}", _truth(ctx, call["what"] == want))
            if call["what"] == want:
                if annealing:
                    exp = [OPT_CRITERIA[user.get("criterion", "C2")], OPT_PROFILES[user.get("temperature", "Geometric")]]
                else:
                    exp = [user.get("n_replicates", 1000)]
                ctx.check(f"call {t}: {want} receives {exp}", _truth(ctx, call.get("args") == exp))
        if "marginals" in call:
            ctx.check(f"call {t}: the LHS is over the unit hypercube (independent Uniform(0,1) marginals)",
                      _truth(ctx, all(("Uniform" in m and "a = 0" in m and "b = 1" in m) for m in call["marginals"])))
        ctx.check(f"call {t}: the sampler is asked for exactly n_samples points in the dimension of the design space", _truth(ctx, call["n"] == n and call["d"] == d))
        if call["n"] != n or call["d"] != d:
            return
        if algo == "OT_LHSC":
            # documented: "Centered Latin Hypercube Sampling": every coordinate is moved to the centre of its cell [k/n, (k+1)/n[
            o = _rows(out) if cfg.get("unit") else None
            if cfg.get("unit") and check_shape(ctx, f"call {t}: n_samples x dimension", out, (n, d)):
                for i in range(n):
                    for j in range(d):
                        v, m = o[i][j], M[i][j]
                        ctx.check(f"call {t}: unit sample[{i},{j}] in [0,1]", _in01(ctx, v))
                        ctx.check(f"call {t}: unit sample[{i},{j}] is a cell centre (k + 1/2) / n", ctx.is_int(v * n - 0.5) if ctx.symbolic else _truth(ctx, abs((v * n - 0.5) - round(v * n - 0.5)) <= 1e-9))
                        ctx.check(f"call {t}: unit sample[{i},{j}] is the centre of the cell of the LHS point", ctx.and_(ctx.le(v - m, 0.5 / n + 1e-9), ctx.le(m - v, 0.5 / n + 1e-9)))
            elif not cfg.get("unit"):
                if check_shape(ctx, f"call {t}: n_samples x dimension", out, (n, d)):
                    sm = _rows(out)
                    for i in range(n):
                        for j in range(d):
                            w = info.ub[j] - info.lb[j]
                            img = info.lb[j] + M[i][j] * w
                            ctx.check(f"call {t}: sample[{i},{j}] within the bounds", ctx.and_(ctx.le(info.lb[j], sm[i][j]), ctx.le(sm[i][j], info.ub[j])))
                            if info.is_int[j]:
                                ctx.check(f"call {t}: sample[{i},{j}] is an integer", ctx.is_int(sm[i][j]))
                            else:
                                ctx.check(f"call {t}: sample[{i},{j}] is within half a cell of the image of the LHS point",
                                          ctx.and_(ctx.le(sm[i][j] - img, (0.5 / n + 1e-9) * w), ctx.le(img - sm[i][j], (0.5 / n + 1e-9) * w)))
            continue
        if cfg.get("unit"):
            _check_same_matrix(ctx, f"call {t}: unit samples", out, M)
        else:
            _check_physical(ctx, info, out, M, label=f"call {t}: sample")
    _seed_checks(ctx, history)
    ctx.observe("seeds forwarded", [float(f) for _, f, _ in history] or [0.0])


# ------------------------------------------------------------------------------------------------
# 4. sample counts of gemseo's own structured designs (MorrisDOE, DiagonalDOE)
# ------------------------------------------------------------------------------------------------
def h_count(ctx, cfg):
    """MorrisDOE: 'applies the OATDOE algorithm at r points; the number of samples is r (1 + d)'; ``n_samples`` is 'the maximum number
    of samples required by the user' (r = n_samples // (d + 1) replicates; 'ValueError when the number of samples is lower than the
    dimension of the input space plus one'); with ``n_samples = 0`` the number of replicates is the inner DOE's ``n_samples`` (5 by
    default).  DiagonalDOE: exactly ``n_samples`` points.  The number of samples is chosen by the solver."""
    ds, info = build_space(ctx, WL[cfg["layout"]])
    d = info.n
    if cfg["algo"] == "DiagonalDOE":
        from gemseo.algos.doe.diagonal_doe.diagonal_doe import DiagonalDOE
        import gemseo.algos.doe.diagonal_doe.diagonal_doe as ddm

        if ctx.symbolic:
            from symgem.core import SymArray

            ctx.patch(ddm, "hstack", lambda arrays: SymArray(np.hstack(arrays)))
        n = 2 + ctx.choice("n_samples", cfg["n_max"] - 1)
        out = DiagonalDOE().compute_doe(ds, n_samples=n)
        ctx.observe("shape", [float(v) for v in np.shape(out)])
        check_shape(ctx, f"DiagonalDOE(n_samples={n}): exactly n_samples samples", out, (n, d))
        return
    import gemseo.algos.doe.oat_doe.oat_doe as oat
    import gemseo.algos.doe.pydoe.pydoe as pm
    from gemseo.algos.doe.morris_doe.morris_doe import MorrisDOE
    from gemseo.algos.doe.pydoe.pydoe import PyDOELibrary

    if ctx.symbolic:
        from symgem.core import as_symarray

        ctx.patch(oat, "array", lambda pts, *a, **k: as_symarray(pts))
    calls = []
    table = PyDOELibrary._PyDOELibrary__NAMES_TO_FUNCTIONS
    real_lhs = table["PYDOE_LHS"]
    step = 0.25

    def lhs(n, **kw):
        calls.append(dict(n=n, samples=kw.get("samples")))
        if not ctx.symbolic:
            return _contract_real(ctx, "pyDOE3.lhs", real_lhs(n, **kw), kw.get("samples"), n)
        # initial points kept in [0, 1/2]^d: x + step <= 1 for every component, so that the OAT directions do not fork (they are the
        # subject of the `oat` harness; only the COUNT is the subject here)
        return ctx.array(_unit_matrix(ctx, f"m{len(calls)}_", kw["samples"], n, 0.0, 0.5))

    ctx.patch(table, "PYDOE_LHS", lhs, symbolic_only=False)
    n = ctx.choice("n_samples", cfg["n_max"] + 1)
    inner = cfg.get("inner_n")
    settings = dict(step=step)
    if n:
        settings["n_samples"] = n
    if inner is not None:
        settings["doe_algo_settings"] = {"n_samples": inner}
    try:
        out = MorrisDOE().compute_doe(ds, **settings)
    except ValueError:
        ctx.check(f"MorrisDOE(n_samples={n}) in dimension {d}: ValueError only when 0 < n_samples < d + 1", _truth(ctx, 0 < n < d + 1))
        ctx.observe("raised", [1.0])
        return
    ctx.observe("shape", [float(v) for v in np.shape(out)])
    ctx.check(f"MorrisDOE(n_samples={n}) in dimension {d}: a ValueError is raised when 0 < n_samples < d + 1", _truth(ctx, not (0 < n < d + 1)))
    r = n // (d + 1) if n else (inner if inner is not None else 5)
    N = np.shape(out)[0]
    if n:
        ctx.check(f"MorrisDOE(n_samples={n}): never more samples than requested ({N} <= {n})", _truth(ctx, N <= n))
    check_shape(ctx, f"MorrisDOE(n_samples={n}, dimension {d}): r (1 + d) samples with r = {r} replicates", out, (r * (d + 1), d))
    ctx.check("the inner DOE is asked once for r initial points of dimension d", _truth(ctx, len(calls) == 1 and calls[0]["n"] == d and calls[0]["samples"] == r))
    if np.shape(out) == (r * (d + 1), d):
        sm = _rows(out)
        for i in range(N):
            for j in range(d):
                ctx.check(f"sample[{i},{j}] within the bounds", ctx.and_(ctx.le(info.lb[j], sm[i][j]), ctx.le(sm[i][j], info.ub[j])))


# ------------------------------------------------------------------------------------------------
# configurations
# ------------------------------------------------------------------------------------------------
def configs(tier):
    q = tier == "quick"
    out = []
    # 1. stratified designs
    for algo in STRAT:
        for d in ((1, 2) if q else (1, 2, 3)):
            for L in ((1, 2) if q else (1, 2, 3)):
                if q and d == 2 and L == 2 and algo != "OT_AXIAL":
                    continue
                for cm in (("vector", "single") if q else ("vector", "single", "scalar", "default")):
                    if cm == "single" and d == 1:
                        continue
                    out.append(("wrap_ot_stratified", dict(algo=algo, mode="levels", d=d, L=L, centers=cm, contract="structure")))
        out.append(("wrap_ot_stratified", dict(algo=algo, mode="levels", d=1, L=1, centers="vector", contract="range")))
        if not q:
            out.append(("wrap_ot_stratified", dict(algo=algo, mode="levels", d=1, L=2, centers="vector", contract="range")))
        out.append(("wrap_ot_stratified", dict(algo=algo, mode="levels", d=2, L=1, centers="scalar", contract="structure")))
        for d in ((1, 2) if q else (1, 2, 3)):
            kind = STRAT[algo][0]
            out.append(("wrap_ot_stratified", dict(algo=algo, mode="n_samples", d=d, n_min=1, n_max=_strat_count(kind, d, 2 if q else 3) + 1)))
        for d in ((1, 2, 3) if q else (1, 2, 3, 4)):
            out.append(("wrap_ot_stratified", dict(algo=algo, mode="count_kernel", d=d, kmax=8 if q else 40)))
        out.append(("wrap_ot_stratified", dict(algo=algo, mode="compute_doe", layout="B", levels=[0.25, 0.75], centers=[0.25])))
        out.append(("wrap_ot_stratified", dict(algo=algo, mode="compute_doe", layout="B,B", levels=[0.5], centers=[0.25, 0.75])))
        out.append(("wrap_ot_stratified", dict(algo=algo, mode="compute_doe", layout="iC", levels=[0.5, 1.0], centers=[0.5])))
        out.append(("wrap_ot_stratified", dict(algo=algo, mode="compute_doe", layout="BB", n_samples=12)))
    # 2. full factorial
    for d in ((1, 2, 3) if q else (1, 2, 3, 4)):
        kmax = {1: 12, 2: 12, 3: 10, 4: 10}[d]
        out.append(("wrap_fullfact", dict(mode="levels_kernel", d=d, kmax=kmax if not q else min(kmax, 8), validate_pow=(d == 1))))
    out.append(("wrap_fullfact", dict(mode="levels", d=1, lmax=4)))
    out.append(("wrap_fullfact", dict(mode="levels", d=2, lmax=3 if q else 4)))
    out.append(("wrap_fullfact", dict(mode="levels", d=2, lmax=3, scalar=True)))
    if not q:
        out.append(("wrap_fullfact", dict(mode="levels", d=3, lmax=3)))
    out.append(("wrap_fullfact", dict(mode="n_samples", d=1, n_max=6)))
    out.append(("wrap_fullfact", dict(mode="n_samples", d=2, n_max=10 if q else 26)))
    out.append(("wrap_fullfact", dict(mode="n_samples", d=3, n_max=9 if q else 28)))
    for lay, lv in (("B", [3]), ("B,B", [2, 3]), ("BB", [1, 2]), ("iC", [3, 2])):
        out.append(("wrap_fullfact", dict(mode="compute_doe", layout=lay, levels=lv)))
    # 3a. pyDOE
    for unit in (True, False):
        out.append(("wrap_pydoe", dict(algo="PYDOE_FF2N", layout="BB", rows=2, unit=unit)))
        out.append(("wrap_pydoe", dict(algo="PYDOE_PBDESIGN", layout="B,B", rows=2, unit=unit)))
        out.append(("wrap_pydoe", dict(algo="PYDOE_BBDESIGN", layout="BBB", rows=1, unit=unit, settings=dict(center=2))))
        out.append(("wrap_pydoe", dict(algo="PYDOE_LHS", layout="B", n=2, K=2, unit=unit)))
    out.append(("wrap_pydoe", dict(algo="PYDOE_BBDESIGN", layout="BBB", rows=1, unit=True)))
    out.append(("wrap_pydoe", dict(algo="PYDOE_LHS", layout="Ci", n=2, K=1, settings=dict(criterion="center", iterations=3))))
    out.append(("wrap_pydoe", dict(algo="PYDOE_LHS", layout="B", n=1, K=3, unit=True, initial_seed=5)))
    out.append(("wrap_pydoe", dict(algo="PYDOE_FF2N", layout="iC", rows=2)))
    # 3b. SciPy
    sc = [("Sobol", dict(scramble=False, bits=16)), ("Sobol", {}), ("Halton", dict(scramble=False)), ("Halton", dict(optimization="random-cd")),
          ("LHS", dict(strength=2, scramble=False)), ("LHS", dict(optimization="random-cd")), ("PoissonDisk", dict(radius=0.125, hypersphere="surface", ncandidates=10)),
          ("MC", {})]
    for algo, st in sc:
        n = 4 if algo == "LHS" and st.get("strength") == 2 else 2
        out.append(("wrap_scipy", dict(algo=algo, layout="B", n=n if algo != "LHS" or n == 4 else 2, K=2, unit=True, settings=st)))
    for algo in ("Sobol", "Halton", "LHS", "PoissonDisk", "MC"):
        out.append(("wrap_scipy", dict(algo=algo, layout="B,B", n=2, K=1, unit=False)))
    out.append(("wrap_scipy", dict(algo="MC", layout="iC", n=2, K=1, unit=False)))
    out.append(("wrap_scipy", dict(algo="Halton", layout="B", n=1, K=3, unit=True, initial_seed=3)))
    # 3c. OpenTURNS
    for algo in ("OT_MONTE_CARLO", "OT_RANDOM", "OT_LHS", "OT_LHSC", "OT_OPT_LHS", *OT_SEQ):
        n = 2
        out.append(("wrap_ot", dict(algo=algo, layout="B", n=n, K=2, unit=True)))
        out.append(("wrap_ot", dict(algo=algo, layout="B,B", n=n, K=1, unit=False)))
    out.append(("wrap_ot", dict(algo="OT_OPT_LHS", layout="B", n=2, K=1, unit=True, settings=dict(annealing=False, n_replicates=7))))
    out.append(("wrap_ot", dict(algo="OT_OPT_LHS", layout="B", n=2, K=1, unit=True, settings=dict(criterion="PhiP", temperature="Linear"))))
    out.append(("wrap_ot", dict(algo="OT_LHSC", layout="B", n=3, K=1, unit=True)))
    out.append(("wrap_ot", dict(algo="OT_LHS", layout="iC", n=2, K=1, unit=False)))
    out.append(("wrap_ot", dict(algo="OT_HALTON", layout="B", n=1, K=3, unit=True, initial_seed=4)))
    # 4. counts of MorrisDOE / DiagonalDOE, n_samples chosen by the solver
    for lay, nmax in (("B", 7 if q else 12), ("BB", 8 if q else 12), ("BBB", 9 if q else 12)):
        out.append(("count", dict(algo="MorrisDOE", layout=lay, n_max=nmax)))
    out.append(("count", dict(algo="MorrisDOE", layout="BB", n_max=0, inner_n=2)))
    out.append(("count", dict(algo="MorrisDOE", layout="B", n_max=0)))
    out.append(("count", dict(algo="DiagonalDOE", layout="BB", n_max=8 if q else 16)))
    if not q:
        out.append(("wrap_ot", dict(algo="OT_MONTE_CARLO", layout="BB", n=3, K=1, unit=True)))
        out.append(("wrap_ot", dict(algo="OT_SOBOL", layout="Ci", n=3, K=1, unit=False)))
        out.append(("wrap_scipy", dict(algo="Sobol", layout="Ci", n=3, K=1, unit=False)))
        out.append(("wrap_scipy", dict(algo="LHS", layout="B", n=2, K=3, unit=True)))
        out.append(("wrap_pydoe", dict(algo="PYDOE_LHS", layout="B,B", n=3, K=2, unit=False)))
    return out


HARNESSES = {"wrap_ot_stratified": h_wrap_ot_stratified, "wrap_fullfact": h_wrap_fullfact, "wrap_pydoe": h_wrap_pydoe,
             "wrap_scipy": h_wrap_scipy, "wrap_ot": h_wrap_ot, "count": h_count}
